"""E2 -- floating-point kernels as QF_FP / QF_BVFP queries.

A small translator from the Python AST of a function (read from /repo on every
run) to z3 terms with IEEE-754 semantics: floats are Float64 (or Float32 when
declared), `+ - * /` round to nearest even, `int()` truncates (RTZ),
`math.ceil`/`math.floor` round up/down, Python ints are 64-bit bit-vectors
(every lemma bounds its integers far below 2^53, stated per lemma).  Anything
else makes the lemma *inconclusive* (UnsupportedConstruct), never vacuously
true.
"""
import ast
import os
import subprocess
import tempfile
import time

import z3

REPO = os.environ.get('NOTE_SEQ_REPO', '/repo')
RNE = z3.RNE()
RTZ = z3.RTZ()
RTP = z3.RTP()
RTN = z3.RTN()
F64 = z3.Float64()
F32 = z3.Float32()
BV = z3.BitVecSort(64)


class UnsupportedConstruct(Exception):
  pass


class V(object):
  """typed value: kind in {'fp','int','bool'}"""
  __slots__ = ('t', 'kind')

  def __init__(self, t, kind):
    self.t = t
    self.kind = kind


def fp(x, sort=F64):
  return V(z3.FPVal(x, sort), 'fp')


def iv(n):
  return V(z3.BitVecVal(n, 64), 'int')


def to_fp(v, sort=F64):
  if v.kind == 'fp':
    return v.t
  if v.kind == 'int':
    return z3.fpSignedToFP(RNE, v.t, sort)
  raise UnsupportedConstruct('bool used as number')


def get_constant(modname, name):
  """Value of a module-level `NAME = <literal>` assignment in the working
  tree."""
  path = os.path.join(REPO, 'note_seq', modname + '.py')
  with open(path) as f:
    tree = ast.parse(f.read())
  for st in tree.body:
    if isinstance(st, ast.Assign) and len(st.targets) == 1 and isinstance(
        st.targets[0], ast.Name) and st.targets[0].id == name:
      try:
        return ast.literal_eval(st.value)
      except ValueError:
        raise UnsupportedConstruct('%s.%s is not a literal' % (modname, name))
  raise UnsupportedConstruct('%s.%s not found' % (modname, name))


def get_function(modname, qualname):
  """Returns (FunctionDef node, source text) from the working tree."""
  path = os.path.join(REPO, 'note_seq', modname + '.py')
  with open(path) as f:
    src = f.read()
  tree = ast.parse(src)
  cur = tree.body
  node = None
  for part in qualname.split('.'):
    node = None
    for n in cur:
      if isinstance(n, (ast.FunctionDef, ast.ClassDef)) and n.name == part:
        node = n
        break
    if node is None:
      raise UnsupportedConstruct('%s.%s not found' % (modname, qualname))
    cur = node.body
    # nested defs may sit inside statements of the function body
    flat = []
    for st in cur:
      flat.append(st)
    cur = flat
  return node, ast.get_source_segment(src, node)


class Translator(object):

  def __init__(self, sort=F64, consts=None):
    self.sort = sort
    self.consts = consts or {}
    self.ret = None  # (cond, value) list for returns

  # ---- expressions
  def expr(self, n, env):
    if isinstance(n, ast.Constant):
      if isinstance(n.value, bool):
        return V(z3.BoolVal(n.value), 'bool')
      if isinstance(n.value, int):
        return iv(n.value)
      if isinstance(n.value, float):
        return fp(n.value, self.sort)
      if n.value is None:
        return V(None, 'none')
      raise UnsupportedConstruct('constant %r line %d' % (n.value, n.lineno))
    if isinstance(n, ast.Name):
      if n.id in env:
        return env[n.id]
      if n.id in self.consts:
        c = self.consts[n.id]
        if isinstance(c, V):
          return c
        if isinstance(c, bool):
          return V(z3.BoolVal(c), 'bool')
        if isinstance(c, int):
          return iv(c)
        if isinstance(c, float):
          return fp(c, self.sort)
      raise UnsupportedConstruct('unknown name %s line %d' % (n.id, n.lineno))
    if isinstance(n, ast.Subscript):
      key = ast.unparse(n)
      if key in env:
        return env[key]
      raise UnsupportedConstruct('subscript %s line %d' % (key, n.lineno))
    if isinstance(n, ast.UnaryOp):
      v = self.expr(n.operand, env)
      if isinstance(n.op, ast.USub):
        if v.kind == 'fp':
          return V(z3.fpNeg(v.t), 'fp')
        return V(-v.t, 'int')
      if isinstance(n.op, ast.Not):
        return V(z3.Not(self.truth(v)), 'bool')
      raise UnsupportedConstruct('unary op line %d' % n.lineno)
    if isinstance(n, ast.BinOp):
      a = self.expr(n.left, env)
      b = self.expr(n.right, env)
      return self.binop(n.op, a, b, n)
    if isinstance(n, ast.Compare):
      if len(n.ops) != 1:
        # chained: a < b < c
        parts = []
        left = self.expr(n.left, env)
        for op, rn in zip(n.ops, n.comparators):
          right = self.expr(rn, env)
          parts.append(self.compare(op, left, right, n).t)
          left = right
        return V(z3.And(*parts), 'bool')
      if isinstance(n.ops[0], (ast.Is, ast.IsNot)):
        # `x is None` / `x is not None`: decided by the kind of x
        a_ = self.expr(n.left, env)
        b_ = self.expr(n.comparators[0], env)
        if b_.kind != 'none':
          raise UnsupportedConstruct('is-comparison line %d' % n.lineno)
        same = a_.kind == 'none'
        return V(z3.BoolVal(same if isinstance(n.ops[0], ast.Is) else not same),
                 'bool')
      return self.compare(n.ops[0], self.expr(n.left, env),
                          self.expr(n.comparators[0], env), n)
    if isinstance(n, ast.BoolOp):
      vs = [self.truth(self.expr(x, env)) for x in n.values]
      return V(z3.And(*vs) if isinstance(n.op, ast.And) else z3.Or(*vs), 'bool')
    if isinstance(n, ast.IfExp):
      c = self.truth(self.expr(n.test, env))
      return self.ite(c, self.expr(n.body, env), self.expr(n.orelse, env))
    if isinstance(n, ast.Call):
      return self.call(n, env)
    if isinstance(n, ast.Tuple):
      return [self.expr(e, env) for e in n.elts]
    raise UnsupportedConstruct('%s line %d' % (type(n).__name__, n.lineno))

  def truth(self, v):
    if v.kind == 'none':
      return z3.BoolVal(False)
    if v.kind == 'bool':
      return v.t
    if v.kind == 'int':
      return v.t != 0
    return z3.Not(z3.fpIsZero(v.t))

  def ite(self, c, a, b):
    cs = z3.simplify(c)
    if z3.is_true(cs):
      return a
    if z3.is_false(cs):
      return b
    if 'none' in (a.kind, b.kind):
      raise UnsupportedConstruct('value that is None on one branch only')
    if a.kind == b.kind:
      return V(z3.If(c, a.t, b.t), a.kind)
    if 'bool' in (a.kind, b.kind):
      raise UnsupportedConstruct('ite of mixed bool/number')
    return V(z3.If(c, to_fp(a, self.sort), to_fp(b, self.sort)), 'fp')

  def binop(self, op, a, b, n):
    if a.kind == 'int' and b.kind == 'int' and not isinstance(op, ast.Div):
      if isinstance(op, ast.Add):
        return V(a.t + b.t, 'int')
      if isinstance(op, ast.Sub):
        return V(a.t - b.t, 'int')
      if isinstance(op, ast.Mult):
        return V(a.t * b.t, 'int')
      raise UnsupportedConstruct('int op %s line %d' %
                                 (type(op).__name__, n.lineno))
    x, y = to_fp(a, self.sort), to_fp(b, self.sort)
    if isinstance(op, ast.Add):
      return V(z3.fpAdd(RNE, x, y), 'fp')
    if isinstance(op, ast.Sub):
      return V(z3.fpSub(RNE, x, y), 'fp')
    if isinstance(op, ast.Mult):
      return V(z3.fpMul(RNE, x, y), 'fp')
    if isinstance(op, ast.Div):
      return V(z3.fpDiv(RNE, x, y), 'fp')
    raise UnsupportedConstruct('op %s line %d' % (type(op).__name__, n.lineno))

  def compare(self, op, a, b, n):
    if a.kind == 'int' and b.kind == 'int':
      f = {
          ast.Lt: lambda x, y: x < y,
          ast.LtE: lambda x, y: x <= y,
          ast.Gt: lambda x, y: x > y,
          ast.GtE: lambda x, y: x >= y,
          ast.Eq: lambda x, y: x == y,
          ast.NotEq: lambda x, y: x != y
      }.get(type(op))
      if f is None:
        raise UnsupportedConstruct('compare line %d' % n.lineno)
      return V(f(a.t, b.t), 'bool')
    x, y = to_fp(a, self.sort), to_fp(b, self.sort)
    f = {
        ast.Lt: z3.fpLT,
        ast.LtE: z3.fpLEQ,
        ast.Gt: z3.fpGT,
        ast.GtE: z3.fpGEQ,
        ast.Eq: z3.fpEQ,
        ast.NotEq: lambda p, q: z3.Not(z3.fpEQ(p, q))
    }.get(type(op))
    if f is None:
      raise UnsupportedConstruct('compare line %d' % n.lineno)
    return V(f(x, y), 'bool')

  def call(self, n, env):
    f = n.func
    name = None
    if isinstance(f, ast.Name):
      name = f.id
    elif isinstance(f, ast.Attribute) and isinstance(f.value, ast.Name):
      name = f.value.id + '.' + f.attr
    args = [self.expr(a, env) for a in n.args]
    if name == 'int' and len(args) == 1:
      a = args[0]
      if a.kind == 'int':
        return a
      return V(z3.fpToSBV(RTZ, a.t, BV), 'int')
    if name == 'float' and len(args) == 1:
      return V(to_fp(args[0], self.sort), 'fp')
    if name == 'math.ceil' and len(args) == 1:
      a = args[0]
      if a.kind == 'int':
        return a
      return V(z3.fpToSBV(RTP, a.t, BV), 'int')
    if name == 'math.floor' and len(args) == 1:
      a = args[0]
      if a.kind == 'int':
        return a
      return V(z3.fpToSBV(RTN, a.t, BV), 'int')
    if name in ('max', 'min') and len(args) == 2:
      a, b = args
      if a.kind == 'int' and b.kind == 'int':
        c = a.t > b.t if name == 'max' else a.t < b.t
        # python returns the first argument on ties
        c2 = b.t > a.t if name == 'max' else b.t < a.t
        return V(z3.If(c2, b.t, a.t), 'int')
      x, y = to_fp(a, self.sort), to_fp(b, self.sort)
      c2 = z3.fpGT(y, x) if name == 'max' else z3.fpLT(y, x)
      if a.kind == b.kind:
        return V(z3.If(c2, y, x), 'fp')
      raise UnsupportedConstruct('max/min of mixed int/float line %d' %
                                 n.lineno)
    if name == 'abs' and len(args) == 1:
      a = args[0]
      if a.kind == 'fp':
        return V(z3.fpAbs(a.t), 'fp')
      return V(z3.If(a.t < 0, -a.t, a.t), 'int')
    raise UnsupportedConstruct('call %s line %d' % (name, n.lineno))

  # ---- statements (straight-line code with if/else, merged by ite)
  def block(self, stmts, env, guard=None):
    """Executes stmts; returns env.  Returns are collected in self.rets."""
    for st in stmts:
      if isinstance(st, ast.Expr) and isinstance(st.value, ast.Constant):
        continue  # docstring
      if isinstance(st, ast.Assign):
        if len(st.targets) != 1:
          raise UnsupportedConstruct('multi-assign line %d' % st.lineno)
        tgt = st.targets[0]
        val = self.expr(st.value, env)
        if isinstance(tgt, ast.Name):
          env[tgt.id] = val
        elif isinstance(tgt, ast.Tuple) and isinstance(val, list):
          for t_, v_ in zip(tgt.elts, val):
            env[t_.id] = v_
        else:
          raise UnsupportedConstruct('assign target line %d' % st.lineno)
      elif isinstance(st, ast.AugAssign):
        cur = env[st.target.id]
        env[st.target.id] = self.binop(st.op, cur, self.expr(st.value, env), st)
      elif isinstance(st, ast.If):
        c = self.truth(self.expr(st.test, env))
        e1 = dict(env)
        e2 = dict(env)
        r_before = len(self.rets)
        self.block(st.body, e1, c if guard is None else z3.And(guard, c))
        self.block(st.orelse, e2,
                   z3.Not(c) if guard is None else z3.And(guard, z3.Not(c)))
        for k in set(e1) | set(e2):
          if k in e1 and k in e2:
            if e1[k] is e2[k]:
              env[k] = e1[k]
            else:
              env[k] = self.ite(c, e1[k], e2[k])
          # a variable defined on one side only is dropped
      elif isinstance(st, ast.Return):
        val = self.expr(st.value, env)
        self.rets.append((guard, val))
        if guard is None:
          return env
      elif isinstance(st, ast.FunctionDef):
        continue
      else:
        raise UnsupportedConstruct('%s line %d' %
                                   (type(st).__name__, st.lineno))
    return env

  def function(self, fnode, args):
    """Translates a FunctionDef applied to typed values; returns V or list."""
    env = {}
    params = [a.arg for a in fnode.args.args]
    defaults = fnode.args.defaults
    for i, p in enumerate(params):
      if p in args:
        env[p] = args[p]
      else:
        j = i - (len(params) - len(defaults))
        if j < 0:
          raise UnsupportedConstruct('missing argument %s' % p)
        env[p] = self.expr(defaults[j], {})
    self.rets = []
    self.block(fnode.body, env)
    if not self.rets:
      raise UnsupportedConstruct('no return')
    # combine guarded returns (earlier returns win)
    res = None
    for guard, val in reversed(self.rets):
      if res is None or guard is None:
        res = val
      else:
        if isinstance(val, list):
          res = [self.ite(guard, v, r) for v, r in zip(val, res)]
        else:
          res = self.ite(guard, val, res)
    return res


# ---------------------------------------------------------------------------
# standard model of floating point over the reals (for NRA lemmas)


class RV(object):
  """A binary64 value in the standard model: exact real term `e`, a bound `r`
  on its accumulated relative error (value = e * (1 + D), |D| <= r) and whether
  e is known to be non-negative.  `.t` materialises e * (1 + D) with one
  delta per distinct (e, r)."""
  kind = 'fp'

  def __init__(self, tr, e, r, nn):
    self.tr, self.e, self.r, self.nn = tr, e, r, nn
    self._t = None

  @property
  def t(self):
    if self._t is None:
      if self.r == 0:
        self._t = self.e
      else:
        d = self.tr._delta(('mat', self.e.sexpr(), str(self.r)), self.r)
        self._t = self.e * (1 + d)
    return self._t


class StdModel(Translator):
  """Python AST -> real / integer arithmetic in the *standard model* of
  binary64: every floating-point operation returns exact * (1 + d) with
  |d| <= 2^-53 (no overflow, underflow or NaN: an assumption of every lemma
  built with it).  Python ints are mathematical integers, int -> float is
  exact (|n| < 2^53, stated per lemma).

  Relative errors of products, quotients and sums of NON-NEGATIVE quantities
  are accumulated as a bound (the classical forward analysis:
  (1+r1)(1+r2)(1+u) - 1 for a product, (1+r1)(1+u)/(1-r2) - 1 for a quotient,
  (1+max(r1,r2))(1+u) - 1 for a sum of non-negative terms) and a single delta
  with that bound is introduced where the value is consumed (comparison,
  int(), ceil ...); anything else (subtraction, operands of unknown sign) gets
  one delta per operation.  Operations on two constants are folded with
  Python's own binary64 arithmetic.  The same expression always gets the same
  delta (floating point is deterministic), so a specification expression that
  repeats an expression of the code denotes the same value.  int() /
  math.ceil / math.floor / round introduce fresh integers constrained by
  their defining inequalities.  Everything collected in `self.side` must be
  asserted together with the lemma.  The model over-approximates the
  implementation: unsat means the lemma holds in the standard model; a sat
  answer is only a candidate and is replayed on the real code before anything
  is reported."""

  def __init__(self, consts=None, tag='sm', nonneg=(), exact=False):
    import fractions  # pylint: disable=g-import-not-at-top
    Translator.__init__(self, consts=consts)
    self.side = []
    self.memo = {}
    self.tag = tag
    # exact=True: plain real arithmetic (no rounding), for algebraic lemmas
    self.u = fractions.Fraction(0) if exact else fractions.Fraction(1, 2**53)
    self.deltas = []
    self.fresh_ints = []
    self.nonneg = set(str(x) for x in nonneg)  # names of non-negative consts

  # -- helpers
  def _delta(self, key, bound=None):
    if bound is None:
      bound = self.u
    if key not in self.memo:
      d = z3.Real('%s_d%d' % (self.tag, len(self.deltas)))
      self.deltas.append(d)
      b = z3.RealVal(bound)
      self.side.append(z3.And(d >= -b, d <= b))
      self.memo[key] = d
    return self.memo[key]

  def _fresh_int(self, key):
    if key not in self.memo:
      k = z3.Int('%s_k%d' % (self.tag, len(self.fresh_ints)))
      self.fresh_ints.append(k)
      self.memo[key] = k
      return k, True
    return self.memo[key], False

  def _is_nn(self, v):
    if isinstance(v, RV):
      return v.nn
    t = z3.simplify(v.t)
    if z3.is_int_value(t):
      return t.as_long() >= 0
    if z3.is_rational_value(t):
      return t.numerator_as_long() >= 0
    return v.kind == 'int' and str(t) in self.nonneg

  def declare_nonneg(self, term):
    self.nonneg.add(str(term))

  def rv(self, v):
    """Any numeric value as an RV."""
    if isinstance(v, RV):
      return v
    if v.kind == 'int':
      return RV(self, z3.ToReal(v.t), 0, self._is_nn(v))
    if v.kind == 'fp':
      return RV(self, v.t, 0, self._is_nn(v) or str(v.t) in self.nonneg)
    raise UnsupportedConstruct('bool used as number')

  def real(self, v):
    return self.rv(v).t

  def _pyfloat(self, v):
    """The Python float of a constant value, or None."""
    import fractions  # pylint: disable=g-import-not-at-top
    if isinstance(v, RV) and v.r != 0:
      return None
    t = z3.simplify(v.e if isinstance(v, RV) else v.t)
    if z3.is_int_value(t):
      return float(t.as_long())
    if z3.is_rational_value(t):
      fr = fractions.Fraction(t.numerator_as_long(), t.denominator_as_long())
      f = float(fr)
      return f if fractions.Fraction(f) == fr else None
    return None

  def _const(self, c):
    import fractions  # pylint: disable=g-import-not-at-top
    if isinstance(c, (V, RV)):
      return c
    if isinstance(c, bool):
      return V(z3.BoolVal(c), 'bool')
    if isinstance(c, int):
      return V(z3.IntVal(c), 'int')
    if isinstance(c, float):
      return RV(self, z3.RealVal(fractions.Fraction(c)), 0, c >= 0)
    raise UnsupportedConstruct('constant %r' % (c,))

  # -- expressions
  def expr(self, n, env):
    if isinstance(n, ast.Constant):
      return self._const(n.value)
    if isinstance(n, ast.Name) and n.id not in env and n.id in self.consts:
      return self._const(self.consts[n.id])
    if isinstance(n, ast.Attribute):
      key = ast.unparse(n)
      if key in env:
        return env[key]
      if key in self.consts:
        return self._const(self.consts[key])
      raise UnsupportedConstruct('attribute %s line %d' % (key, n.lineno))
    if isinstance(n, ast.UnaryOp) and isinstance(n.op, ast.USub):
      v = self.expr(n.operand, env)
      if v.kind == 'int':
        return V(-v.t, 'int')
      v = self.rv(v)
      return RV(self, -v.e, v.r, False)
    return Translator.expr(self, n, env)

  def truth(self, v):
    if v.kind == 'bool':
      return v.t
    return v.t != 0

  def ite(self, c, a, b):
    if a.kind == b.kind and a.kind != 'fp':
      return V(z3.If(c, a.t, b.t), a.kind)
    if 'bool' in (a.kind, b.kind):
      raise UnsupportedConstruct('ite of mixed bool/number')
    a, b = self.rv(a), self.rv(b)
    return RV(self, z3.If(c, a.t, b.t), 0, a.nn and b.nn)

  def binop(self, op, a, b, n):
    import fractions  # pylint: disable=g-import-not-at-top
    if a.kind == 'int' and b.kind == 'int' and not isinstance(op, ast.Div):
      if isinstance(op, ast.Add):
        r = V(a.t + b.t, 'int')
      elif isinstance(op, ast.Sub):
        return V(a.t - b.t, 'int')
      elif isinstance(op, ast.Mult):
        r = V(a.t * b.t, 'int')
      else:
        raise UnsupportedConstruct('int op %s line %d' %
                                   (type(op).__name__, n.lineno))
      if self._is_nn(a) and self._is_nn(b):
        self.nonneg.add(str(z3.simplify(r.t)))
      return r
    name = {ast.Add: 'add', ast.Sub: 'sub', ast.Mult: 'mul',
            ast.Div: 'div'}.get(type(op))
    if name is None:
      raise UnsupportedConstruct('op %s line %d' % (type(op).__name__,
                                                    n.lineno))
    x, y = self.rv(a), self.rv(b)
    fx, fy = self._pyfloat(x), self._pyfloat(y)
    if fx is not None and fy is not None and not (name == 'div' and fy == 0):
      # constant folding in true binary64
      val = {'add': fx + fy, 'sub': fx - fy, 'mul': fx * fy,
             'div': fx / fy if fy else 0.0}[name]
      return RV(self, z3.RealVal(fractions.Fraction(val)), 0, val >= 0)
    # exact special cases
    if name in ('mul', 'div') and fy == 1.0:
      return x
    if name == 'mul' and fx == 1.0:
      return y
    if name in ('add', 'sub') and fy == 0.0:
      return x
    if name == 'add' and fx == 0.0:
      return y
    u = self.u
    if x.nn and y.nn and name in ('mul', 'div', 'add'):
      if name == 'mul':
        return RV(self, x.e * y.e, (1 + x.r) * (1 + y.r) * (1 + u) - 1, True)
      if name == 'div':
        return RV(self, x.e / y.e, (1 + x.r) * (1 + u) / (1 - y.r) - 1, True)
      return RV(self, x.e + y.e, (1 + max(x.r, y.r)) * (1 + u) - 1, True)
    exact = {'add': x.t + y.t, 'sub': x.t - y.t, 'mul': x.t * y.t,
             'div': x.t / y.t}[name]
    return RV(self, exact, u, x.nn and y.nn and name != 'sub')

  def compare(self, op, a, b, n):
    f = {
        ast.Lt: lambda x, y: x < y,
        ast.LtE: lambda x, y: x <= y,
        ast.Gt: lambda x, y: x > y,
        ast.GtE: lambda x, y: x >= y,
        ast.Eq: lambda x, y: x == y,
        ast.NotEq: lambda x, y: x != y
    }.get(type(op))
    if f is None:
      raise UnsupportedConstruct('compare line %d' % n.lineno)
    if a.kind == 'int' and b.kind == 'int':
      return V(f(a.t, b.t), 'bool')
    return V(f(self.real(a), self.real(b)), 'bool')

  def _to_int(self, v, how):
    """how in trunc|ceil|floor|nearest"""
    v = self.rv(v)
    x = v.t
    k, new = self._fresh_int((how, x.sexpr()))
    if new:
      kr = z3.ToReal(k)
      if how == 'floor' or (how == 'trunc' and v.nn):
        self.side.append(z3.And(kr <= x, x < kr + 1))
      elif how == 'ceil':
        self.side.append(z3.And(kr - 1 < x, x <= kr))
      elif how == 'trunc':
        self.side.append(z3.If(x >= 0, z3.And(kr <= x, x < kr + 1),
                               z3.And(kr >= x, x > kr - 1)))
      else:  # nearest, ties either way (over-approximates half-to-even)
        h = z3.Q(1, 2)
        self.side.append(z3.And(kr - h <= x, x <= kr + h))
      if v.nn:
        self.nonneg.add(str(k))
    return V(k, 'int')

  def call(self, n, env):
    f = n.func
    name = None
    if isinstance(f, ast.Name):
      name = f.id
    elif isinstance(f, ast.Attribute) and isinstance(f.value, ast.Name):
      name = f.value.id + '.' + f.attr
    if ast.unparse(n) in env:
      return env[ast.unparse(n)]
    if name == 'len':
      raise UnsupportedConstruct('len of unknown object line %d' % n.lineno)
    if n.keywords:
      raise UnsupportedConstruct('keyword call %s line %d' % (name, n.lineno))
    args = [self.expr(a, env) for a in n.args]
    if name in ('int', 'math.ceil', 'math.floor') and len(args) == 1:
      a = args[0]
      if a.kind == 'int':
        return a
      return self._to_int(a, {'int': 'trunc', 'math.ceil': 'ceil',
                              'math.floor': 'floor'}[name])
    if name == 'float' and len(args) == 1:
      return self.rv(args[0])
    if name == 'round' and len(args) in (1, 2):
      a = args[0]
      if len(args) == 1:
        if a.kind == 'int':
          return a
        return self._to_int(a, 'nearest')
      nd = z3.simplify(args[1].t)
      if args[1].kind != 'int' or not z3.is_int_value(nd):
        raise UnsupportedConstruct('round with symbolic digits line %d' %
                                   n.lineno)
      scale = 10 ** nd.as_long()
      a = self.rv(a)
      k = self._to_int(RV(self, a.t * scale, 0, a.nn), 'nearest')
      return RV(self, z3.ToReal(k.t) / scale, self.u, a.nn)
    if name in ('max', 'min') and len(args) == 2:
      a, b = args
      if a.kind == 'int' and b.kind == 'int':
        c2 = b.t > a.t if name == 'max' else b.t < a.t
        return V(z3.If(c2, b.t, a.t), 'int')
      x, y = self.rv(a), self.rv(b)
      c2 = y.t > x.t if name == 'max' else y.t < x.t
      return RV(self, z3.If(c2, y.t, x.t), 0, x.nn and y.nn)
    if name == 'abs' and len(args) == 1:
      a = args[0]
      if a.kind == 'int':
        return V(z3.If(a.t < 0, -a.t, a.t), 'int')
      a = self.rv(a)
      return RV(self, z3.If(a.t < 0, -a.t, a.t), 0, True)
    raise UnsupportedConstruct('call %s line %d' % (name, n.lineno))

  def assigns(self, stmts, env, stop_at=None):
    """Translates the leading straight-line assignments of a body into env and
    stops (without error) at the first statement it cannot translate; returns
    the number of statements consumed."""
    done = 0
    for st in stmts:
      if isinstance(st, ast.Expr) and isinstance(st.value, ast.Constant):
        done += 1
        continue
      try:
        self.block([st], env)
      except UnsupportedConstruct:
        break
      done += 1
    return done


# ---------------------------------------------------------------------------
# evaluation of a translated term on concrete inputs (translator validation)


def eval_concrete(term_v, assignment):
  """assignment: list of (z3 const, python value).  Returns python value."""
  subs = []
  for cst, val in assignment:
    if z3.is_fp(cst):
      subs.append((cst, z3.FPVal(val, cst.sort())))
    elif z3.is_bv(cst):
      subs.append((cst, z3.BitVecVal(val, cst.size())))
    else:
      subs.append((cst, z3.BoolVal(val)))
  t = z3.simplify(z3.substitute(term_v.t, *subs))
  if term_v.kind == 'int':
    return t.as_signed_long()
  if term_v.kind == 'bool':
    return z3.is_true(t)
  # fp value -> python float
  s = z3.Solver()
  x = z3.FP('__x', t.sort())
  s.add(x == t)
  s.check()
  v = s.model()[x]
  return fp_value_to_float(v)


def fp_value_to_float(v):
  if v.isNaN():
    return float('nan')
  if v.isInf():
    return float('-inf') if v.isNegative() else float('inf')
  import fractions  # pylint: disable=g-import-not-at-top
  sig = v.significand_as_long()
  ebits, sbits = v.ebits(), v.sbits()
  exp = v.exponent_as_long(biased=True)
  bias = 2**(ebits - 1) - 1
  if exp == 0:
    val = fractions.Fraction(sig, 2**(sbits - 1)) * fractions.Fraction(2)**(1 - bias)
  else:
    val = (1 + fractions.Fraction(sig, 2**(sbits - 1))) * fractions.Fraction(2)**(exp - bias)
  f = float(val)
  return -f if v.isNegative() else f


# ---------------------------------------------------------------------------
# discharging lemmas


def solve(assertions, timeout_s=60, want_model=None):
  """Checks satisfiability of the conjunction with z3's API.

  Returns dict(result='sat'|'unsat'|'unknown', seconds, model={name: value}).
  """
  s = z3.Solver()
  s.set('timeout', int(timeout_s * 1000))
  for a in assertions:
    s.add(a)
  t0 = time.time()
  r = s.check()
  dt = time.time() - t0
  out = {'result': str(r), 'seconds': round(dt, 3), 'backend': 'z3-%s-api' %
         z3.get_version_string()}
  if r == z3.sat and want_model:
    m = s.model()
    vals = {}
    for name, cst in want_model.items():
      mv = m.eval(cst, model_completion=True)
      if z3.is_fp(cst):
        vals[name] = fp_value_to_float(mv)
        vals[name + '_hex'] = float(vals[name]).hex()
      elif z3.is_bv(cst):
        vals[name] = mv.as_signed_long()
      else:
        vals[name] = str(mv)
    out['model'] = vals
  return out


def solve_external(assertions, binary, timeout_s=60, extra_args=()):
  """Same query through an external solver binary on a dumped .smt2 file."""
  s = z3.Solver()
  for a in assertions:
    s.add(a)
  text = '(set-logic ALL)\n' + s.to_smt2()
  d = tempfile.mkdtemp(prefix='fpk')
  path = os.path.join(d, 'q.smt2')
  try:
    with open(path, 'w') as f:
      f.write(text)
    t0 = time.time()
    try:
      p = subprocess.run([binary] + list(extra_args) + [path],
                         stdout=subprocess.PIPE,
                         stderr=subprocess.STDOUT,
                         text=True,
                         timeout=timeout_s)
      outtxt = p.stdout
    except subprocess.TimeoutExpired:
      return {'result': 'unknown', 'seconds': timeout_s, 'backend': binary,
              'note': 'timeout'}
    dt = time.time() - t0
    if '(error' in outtxt:
      return {'result': 'unknown', 'seconds': round(dt, 3), 'backend': binary,
              'note': outtxt[:200]}
    first = outtxt.strip().splitlines()[0] if outtxt.strip() else 'unknown'
    if first not in ('sat', 'unsat'):
      first = 'unknown'
    return {'result': first, 'seconds': round(dt, 3), 'backend': binary}
  finally:
    try:
      os.remove(path)
      os.rmdir(d)
    except OSError:
      pass
