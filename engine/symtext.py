"""SymText -- a stand-in for the text of a numeric XML leaf (or attribute value)
whose number is symbolic.  The shadowed int()/float() of an instrumented module
unwrap it; used as a string it behaves like an opaque non-empty text."""
from engine import symex


class SymText(object):

  def __init__(self, value):
    self.v = value

  def __sym_int__(self):
    return symex.sym_int(self.v)

  def __sym_float__(self):
    return symex.sym_float(self.v)

  def __bool__(self):
    return True

  def __str__(self):
    return '<num>'

  __repr__ = __str__

  def __add__(self, other):
    if isinstance(other, str):
      return '<num>' + other
    return NotImplemented

  def __radd__(self, other):
    if isinstance(other, str):
      return other + '<num>'
    return NotImplemented

  def __eq__(self, other):
    if isinstance(other, SymText):
      return symex.Eq(self.v, other.v)
    return False

  def __ne__(self, other):
    r = self.__eq__(other)
    return symex.Not(r)

  __hash__ = None

  def strip(self):
    return self
