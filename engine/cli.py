"""Command line of /verif/vcheck."""
import argparse
import json
import os
import sys

from engine import runner


def main():
  if len(sys.argv) >= 2 and sys.argv[1] == 'replay':
    path = sys.argv[2]
    if not os.path.isabs(path):
      path = os.path.join(runner.VERIF, path)
    with open(path) as f:
      req = json.load(f)
    r = runner.replay_file(path)
    if r.get('status') == 'fail':
      print('VIOLATION property=%s replay=%s' %
            (req['prop'], os.path.relpath(path, runner.VERIF)))
      print('  harness=%s label=%s' % (req['harness'], r.get('label')))
      sys.exit(1)
    print('replay %s: %s %s' % (path, r.get('status'), r.get('error', '')))
    sys.exit(0 if r.get('status') == 'ok' else 3)
  ap = argparse.ArgumentParser()
  ap.add_argument('prop')
  ap.add_argument('--tier', default=os.environ.get('VERIF_TIER', 'quick'))
  ap.add_argument('--only', default=None)
  ap.add_argument('--nproc', type=int, default=None)
  a = ap.parse_args()
  seed = int(os.environ.get('VERIF_SEED', '0') or 0)
  tier = a.tier if a.tier in ('quick', 'thorough') else 'quick'
  sys.exit(runner.run_check(a.prop.upper(), tier, seed, only=a.only,
                            nproc=a.nproc))


if __name__ == '__main__':
  main()
