"""pm-lite -- stand-in for the part of pretty_midi that note_seq.midi_io touches,
able to carry symbolic times/values.  The byte layer (mido, struct, PrettyMIDI
from a file, write()) is NOT modelled: it is outside every claim that uses this
shim.

The tempo map is an exact piecewise-linear tick<->time function, valid while
`_tick_scales` is sorted by tick; an unsorted list (which pretty_midi itself
turns into a garbage map without complaining) raises UnsortedTempoMap so that a
harness can flag it.
"""
import math

from engine import symex
from engine.symex import Unsupported


class UnsortedTempoMap(Exception):
  pass


class _Stub(Exception):
  """Outcome chosen by the harness for PrettyMIDI(<file>)."""


def _isint(x):
  return isinstance(x, symex.sym_int) and not isinstance(x, bool)


def _isnum(x):
  return isinstance(x, (int, float, symex.SymInt, symex.SymReal))


class Note(object):

  def __init__(self, velocity, pitch, start, end):
    if end < start:
      raise ValueError('Note end time must be greater than start time')
    self.velocity = velocity
    self.pitch = pitch
    self.start = start
    self.end = end


class PitchBend(object):

  def __init__(self, pitch, time):
    self.pitch = pitch
    self.time = time


class ControlChange(object):

  def __init__(self, number, value, time):
    self.number = number
    self.value = value
    self.time = time


class TimeSignature(object):

  def __init__(self, numerator, denominator, time):
    if not (_isint(numerator) and numerator > 0):
      raise ValueError('%s is not a valid `numerator` type or value' %
                       numerator)
    if not (_isint(denominator) and denominator > 0):
      raise ValueError('%s is not a valid `denominator` type or value' %
                       denominator)
    if not (_isnum(time) and time >= 0):
      raise ValueError('%s is not a valid `time` type or value' % time)
    self.numerator = numerator
    self.denominator = denominator
    self.time = time


class KeySignature(object):

  def __init__(self, key_number, time):
    if not (_isint(key_number) and key_number >= 0 and key_number < 24):
      raise ValueError('%s is not a valid `key_number` type or value' %
                       key_number)
    if not (_isnum(time) and time >= 0):
      raise ValueError('%s is not a valid `time` type or value' % time)
    self.key_number = key_number
    self.time = time


class _Containers(object):
  Note = Note
  PitchBend = PitchBend
  ControlChange = ControlChange
  TimeSignature = TimeSignature
  KeySignature = KeySignature


containers = _Containers()


class Instrument(object):

  def __init__(self, program, is_drum=False, name=''):
    self.program = program
    self.is_drum = is_drum
    self.name = name
    self.notes = []
    self.pitch_bends = []
    self.control_changes = []


def program_to_instrument_name(program_number):
  if symex.is_sym(program_number):
    program_number = program_number.__index__()
  if not 0 <= program_number <= 127:
    raise ValueError('Invalid program number %d, should be between 0 and 127' %
                     program_number)
  return 'program-%d' % program_number


def note_number_to_hz(x):
  raise Unsupported('note_number_to_hz')


# hook used by C16: what PrettyMIDI(<file object>) does
FROM_FILE = [None]


class _PMModule(object):
  MAX_TICK = 1e7


pretty_midi = _PMModule()


class PrettyMIDI(object):

  def __init__(self, midi_file=None, resolution=220, initial_tempo=120.,
               charset='latin1', mido_object=None):
    if midi_file is not None or mido_object is not None:
      if FROM_FILE[0] is None:
        raise Unsupported('PrettyMIDI from bytes is outside pm-lite')
      FROM_FILE[0](self, midi_file)
      return
    self.resolution = resolution
    self._tick_scales = [(0, 60.0 / (initial_tempo * self.resolution))]
    self.instruments = []
    self.key_signature_changes = []
    self.time_signature_changes = []
    self.lyrics = []
    self.text_events = []

  # ---- tempo map (exact, piecewise linear; requires sorted _tick_scales)
  def _segments(self):
    """[(start_tick, start_time, scale)] in order."""
    segs = []
    last_tick, last_time, last_scale = None, 0, None
    for tick, scale in self._tick_scales:
      if last_tick is not None:
        if tick < last_tick:
          raise UnsortedTempoMap()
        last_time = last_time + (tick - last_tick) * last_scale
      segs.append((tick, last_time, scale))
      last_tick, last_scale = tick, scale
    return segs

  def _update_tick_to_time(self, max_tick):
    self._segments()  # checks the ordering; the map itself is computed lazily
    top = max_tick
    for tick, _ in self._tick_scales:
      if tick > top:
        top = tick
    self._table_max = top

  def tick_to_time(self, tick):
    segs = self._segments()
    best = segs[0]
    for s in segs:
      if s[0] <= tick:
        best = s
    return best[1] + (tick - best[0]) * best[2]

  def time_to_tick(self, time):
    """Nearest tick to `time`, as pretty_midi computes it: inside the
    precomputed table the closer neighbour wins and an exact half goes to the
    later tick; beyond the table the extrapolated value is passed to round()
    (half to even)."""
    segs = self._segments()
    table_max = getattr(self, '_table_max', 0)
    if time > self.tick_to_time(table_max):
      _, final_scale = self._tick_scales[-1]
      x = table_max + (time - self.tick_to_time(table_max)) / final_scale
      return symex.round_nearest(x, ties='even')
    best = segs[0]
    for s in segs[1:]:
      if s[1] <= time:
        best = s
    x = (time - best[1]) / best[2]
    return best[0] + symex.round_nearest(x, ties='up')

  def get_tempo_changes(self):
    times, tempi = [], []
    for tick, scale in self._tick_scales:
      times.append(self.tick_to_time(tick))
      tempi.append(60.0 / (scale * self.resolution))
    return times, tempi

  def write(self, f):
    raise Unsupported('PrettyMIDI.write (byte layer) is outside pm-lite')
