"""Loads /repo's note_seq modules either against the real stack or against the
symbolic shims, always from the current working tree (no source rewriting).
"""
import importlib
import os
import sys
import types

REPO = os.environ.get('NOTE_SEQ_REPO', '/repo')


def _stub_package():
  """Registers `note_seq` without running its __init__ (which imports librosa
  etc.); sub-modules are then imported individually from the working tree."""
  if 'note_seq' in sys.modules and getattr(sys.modules['note_seq'], '_verif_stub',
                                           False):
    return
  for k in [k for k in sys.modules if k == 'note_seq' or k.startswith('note_seq.')]:
    del sys.modules[k]
  pkg = types.ModuleType('note_seq')
  pkg.__path__ = [os.path.join(REPO, 'note_seq')]
  pkg._verif_stub = True
  sys.modules['note_seq'] = pkg
  pb = types.ModuleType('note_seq.protobuf')
  pb.__path__ = [os.path.join(REPO, 'note_seq', 'protobuf')]
  sys.modules['note_seq.protobuf'] = pb
  pkg.protobuf = pb
  sys.dont_write_bytecode = True


class _QuietLogging(object):

  def __getattr__(self, name):
    return lambda *a, **k: None


def _sym_fraction(numerator=0, denominator=None):
  """fractions.Fraction for instrumented modules: symbolic arguments are
  concretised (forked over their feasible values) first."""
  import fractions  # pylint: disable=g-import-not-at-top
  from engine import symex  # pylint: disable=g-import-not-at-top
  if symex.is_sym(numerator):
    numerator = numerator.__index__()
  if symex.is_sym(denominator):
    denominator = denominator.__index__()
  if denominator is None:
    return fractions.Fraction(numerator)
  return fractions.Fraction(numerator, denominator)


class RealEnv(object):
  mode = 'real'

  def __init__(self):
    _stub_package()
    self.pb = importlib.import_module('note_seq.protobuf.music_pb2')
    self._mods = {}

  def mod(self, name):
    m = self._mods.get(name)
    if m is None:
      m = importlib.import_module('note_seq.' + name)
      if hasattr(m, 'logging'):
        m.logging = _QuietLogging()
      self._mods[name] = m
    return m


class SymEnv(object):
  """note_seq modules running on symproto, with int/float/math/np shadowed."""
  mode = 'sym'

  def __init__(self):
    from engine import symex, symproto  # pylint: disable=g-import-not-at-top
    _stub_package()
    real = importlib.import_module('note_seq.protobuf.music_pb2')
    self.real_pb = real
    shim = symproto.build(real)
    sys.modules['note_seq.protobuf.music_pb2'] = shim
    sys.modules['note_seq.protobuf'].music_pb2 = shim
    self.pb = shim
    self._mods = {}
    self._instrumented = set()
    self.symex = symex
    self.extra = {}  # module name -> {attr: replacement}

  def _instrument(self):
    from engine import symex  # pylint: disable=g-import-not-at-top
    for k, m in list(sys.modules.items()):
      if not k.startswith('note_seq.') or k.startswith('note_seq.protobuf'):
        continue
      if k in self._instrumented or m is None:
        continue
      self._instrumented.add(k)
      m.int = symex.sym_int
      m.float = symex.sym_float
      if hasattr(m, 'math'):
        m.math = symex.symmath
      if hasattr(m, 'logging'):
        m.logging = _QuietLogging()
      if hasattr(m, 'np'):
        try:
          from engine import nplite  # pylint: disable=g-import-not-at-top
          m.np = nplite
        except ImportError:
          pass
      if hasattr(m, 'Fraction'):
        m.Fraction = _sym_fraction
      if hasattr(m, 'pretty_midi') and k.endswith('.midi_io'):
        from engine import pmlite  # pylint: disable=g-import-not-at-top
        # module-level settings the real module received at import time
        # (midi_io raises pretty_midi.pretty_midi.MAX_TICK) carry over
        try:
          pmlite.pretty_midi.MAX_TICK = m.pretty_midi.pretty_midi.MAX_TICK
        except AttributeError:
          pass
        m.pretty_midi = pmlite
      if hasattr(m, 'random') and isinstance(m.random, types.ModuleType):
        from engine import symrandom  # pylint: disable=g-import-not-at-top
        m.random = symrandom

  def mod(self, name):
    m = self._mods.get(name)
    if m is None:
      m = importlib.import_module('note_seq.' + name)
      self._instrument()
      self._mods[name] = m
    return m
