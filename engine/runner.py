"""Drives the checks of one property: job pool, witness validation, replay of
counterexamples on the real stack, known findings, evidence, exit code."""
import ast
import hashlib
import importlib
import json
import multiprocessing
import os
import random
import subprocess
import sys
import time
import traceback

VERIF = os.path.dirname(os.path.dirname(os.path.abspath(__file__)))
REPO = os.environ.get('NOTE_SEQ_REPO', '/repo')
PY = sys.executable

EXIT_OK, EXIT_VIOLATION, EXIT_HARNESS = 0, 1, 3


# ---------------------------------------------------------------------------
# real-stack client (one subprocess per symbolic worker)


class RealClient(object):

  def __init__(self):
    self.p = None

  def _start(self):
    env = dict(os.environ)
    env['PYTHONPATH'] = VERIF
    env['PYTHONDONTWRITEBYTECODE'] = '1'
    self.p = subprocess.Popen([PY, '-m', 'engine.realworker'],
                              stdin=subprocess.PIPE,
                              stdout=subprocess.PIPE,
                              stderr=subprocess.DEVNULL,
                              cwd=VERIF,
                              env=env,
                              text=True,
                              bufsize=1)

  def call(self, req):
    if self.p is None or self.p.poll() is not None:
      self._start()
    try:
      self.p.stdin.write(json.dumps(req) + '\n')
      self.p.stdin.flush()
      line = self.p.stdout.readline()
      if not line:
        raise IOError('real worker died')
      return json.loads(line)
    except Exception as e:  # pylint: disable=broad-except
      try:
        self.p.kill()
      except Exception:  # pylint: disable=broad-except
        pass
      self.p = None
      return {'status': 'error', 'error': 'real worker: %r' % (e,)}

  def close(self):
    if self.p is not None:
      try:
        self.p.stdin.close()
        self.p.wait(timeout=5)
      except Exception:  # pylint: disable=broad-except
        self.p.kill()
      self.p = None


# ---------------------------------------------------------------------------
# worker side

_W = {}


def _worker_env():
  if 'env' not in _W:
    from engine import loader  # pylint: disable=g-import-not-at-top
    _W['env'] = loader.SymEnv()
    _W['real'] = RealClient()
  return _W['env'], _W['real']


def _run_symex_job(job):
  from engine import ctx as C  # pylint: disable=g-import-not-at-top
  from engine import symex  # pylint: disable=g-import-not-at-top
  env, real = _worker_env()
  mod = importlib.import_module('props.' + job['prop'].lower())
  h = mod.HARNESSES[job['harness']]
  params = job.get('params') or {}
  known = job.get('known') or []
  rng = random.Random(job.get('seed', 0) * 1000003 + job['index'])
  t0 = time.time()
  deadline = t0 + job.get('budget_s', 120)
  ex = symex.Explorer(deadline=deadline, max_paths=job.get('max_paths'))
  res = {
      'index': job['index'],
      'harness': job['harness'],
      'params': params,
      'status': 'ok',
      'violations': [],
      'samples': [],
      'witness_ok': 0,
      'witness_skipped': 0,
      'witness_inexact_fail': 0,
      'witness_errors': [],
  }
  wfrac = job.get('witness_fraction', 0.2)
  wmax = job.get('witness_max', 40)
  state = {'n': 0}

  def on_path(exx):
    state['n'] += 1
    n = state['n']
    take = n <= 3 or rng.random() < wfrac
    want_sample = len(res['samples']) < 2
    if not (take or want_sample):
      return
    if res['witness_ok'] + res['witness_skipped'] >= wmax and not want_sample:
      return
    vals, exact = exx.model_values()
    if vals is None:
      return
    if want_sample:
      res['samples'].append({
          'harness': job['harness'],
          'params': params,
          'decisions': exx.decision_string(),
          'model': vals
      })
    if not take:
      return
    r = real.call({
        'prop': job['prop'],
        'harness': job['harness'],
        'params': params,
        'values': vals,
        'known': known
    })
    if r['status'] == 'ok':
      res['witness_ok'] += 1
    elif r['status'] == 'fail':
      if exact:
        res['violations'].append({
            'label': r.get('label'),
            'values': vals,
            'source': 'witness',
            'decisions': exx.decision_string()
        })
      else:
        res['witness_inexact_fail'] += 1
    elif r['status'] == 'assume':
      if exact:
        res['witness_errors'].append('exact witness violates an assumption on '
                                     'the real stack: %s' % json.dumps(vals))
      else:
        res['witness_skipped'] += 1
    else:
      res['witness_errors'].append(r.get('error', '?'))

  def harness(exx):
    c = C.SymCtx(exx, env, params, known)
    try:
      h(c)
    except Exception as e:  # pylint: disable=broad-except
      # An exception escaping the code under test (or the oracle tripping over
      # an unexpected result shape) on a feasible path is a candidate
      # violation; it only counts if the replay on the real stack raises too.
      vals, exact = exx.model_values()
      tb = traceback.format_exc()[-1500:]
      raise symex.Violation('unexpected exception %s' % type(e).__name__, vals,
                            tb)

  try:
    vs = ex.explore(harness, on_path=on_path)
    for v in vs:
      res['violations'].append({
          'label': v.label,
          'values': v.model_values,
          'source': 'solver',
          'note': v.note,
          'decisions': getattr(v, 'decisions', '')
      })
    if res['violations']:
      res['status'] = 'violation'
    elif not ex.exhausted:
      res['status'] = 'timeout'
  except symex.BudgetExceeded:
    res['status'] = 'timeout'
  except symex.Unsupported as e:
    res['status'] = 'error'
    res['error'] = 'Unsupported: %s\n%s' % (e, traceback.format_exc()[-2500:])
  except symex.Inconclusive as e:
    res['status'] = 'inconclusive'
    res['error'] = str(e)
  except Exception:  # pylint: disable=broad-except
    res['status'] = 'error'
    res['error'] = traceback.format_exc()[-3000:]
  st = ex.stats
  res['stats'] = {
      'paths': st.paths,
      'aborted_paths': st.aborted_paths,
      'decisions': st.decisions,
      'queries': st.queries,
      'solver_s': round(st.solver_s, 3),
      'checks': st.checks,
      'checks_unsat': st.checks_unsat,
      'max_depth': st.max_depth,
      'covers': st.covers,
      'check_labels': st.check_labels,
      'exhausted': ex.exhausted,
  }
  res['wall_s'] = round(time.time() - t0, 3)
  return res


def _run_func_job(job):
  mod = importlib.import_module('props.' + job['prop'].lower())
  fn = mod.FUNCS[job['harness']]
  t0 = time.time()
  res = {
      'index': job['index'],
      'harness': job['harness'],
      'params': job.get('params') or {},
      'status': 'ok',
      'violations': [],
      'samples': [],
      'witness_ok': 0,
      'witness_skipped': 0,
      'witness_inexact_fail': 0,
      'witness_errors': [],
      'stats': {}
  }
  try:
    out = fn(job)
    res.update(out)
  except Exception:  # pylint: disable=broad-except
    res['status'] = 'error'
    res['error'] = traceback.format_exc()[-3000:]
  res['wall_s'] = round(time.time() - t0, 3)
  return res


def run_job(job):
  try:
    if job.get('kind', 'symex') == 'symex':
      return _run_symex_job(job)
    return _run_func_job(job)
  except BaseException:  # pylint: disable=broad-except
    return {
        'index': job['index'],
        'harness': job['harness'],
        'params': job.get('params') or {},
        'status': 'error',
        'error': traceback.format_exc()[-3000:],
        'violations': [],
        'samples': [],
        'stats': {},
        'witness_ok': 0,
        'witness_skipped': 0,
        'witness_inexact_fail': 0,
        'witness_errors': [],
        'wall_s': 0
    }


# ---------------------------------------------------------------------------
# master side


def source_hashes(functions):
  """[(module, qualname)] -> [{module, qualname, sha256, lines}] from /repo."""
  out = []
  cache = {}
  for modname, qual in functions:
    path = os.path.join(REPO, 'note_seq', modname + '.py')
    if path not in cache:
      with open(path) as f:
        src = f.read()
      cache[path] = (src, ast.parse(src))
    src, tree = cache[path]
    node = tree
    found = None
    parts = qual.split('.')
    cur = tree.body
    for i, part in enumerate(parts):
      nxt = None
      for n in cur:
        if isinstance(n, (ast.FunctionDef, ast.ClassDef)) and n.name == part:
          nxt = n
          break
      if nxt is None:
        break
      if i == len(parts) - 1:
        found = nxt
      cur = nxt.body
    if found is None:
      out.append({'module': modname, 'qualname': qual, 'missing': True})
      continue
    seg = ast.get_source_segment(src, found) or ''
    out.append({
        'module': 'note_seq.' + modname,
        'qualname': qual,
        'sha256': hashlib.sha256(seg.encode()).hexdigest()[:16],
        'lines': '%d-%d' % (found.lineno, found.end_lineno)
    })
  return out


def load_known(prop):
  p = os.path.join(VERIF, 'known_findings.json')
  if not os.path.exists(p):
    return []
  with open(p) as f:
    data = json.load(f)
  return [e for e in data.get('findings', []) if e.get('property') == prop]


def replay_file(path):
  """Runs a replay file on the real stack in a fresh process."""
  env = dict(os.environ)
  env['PYTHONPATH'] = VERIF
  env['PYTHONDONTWRITEBYTECODE'] = '1'
  with open(path) as f:
    req = json.load(f)
  p = subprocess.run([PY, '-m', 'engine.realworker'],
                     input=json.dumps(req) + '\n',
                     stdout=subprocess.PIPE,
                     stderr=subprocess.PIPE,
                     cwd=VERIF,
                     env=env,
                     text=True,
                     timeout=600)
  lines = [l for l in p.stdout.splitlines() if l.strip()]
  if not lines:
    return {'status': 'error', 'error': p.stderr[-2000:]}
  return json.loads(lines[-1])


def write_replay(prop, job_res, v):
  d = os.path.join(VERIF, 'replays')
  os.makedirs(d, exist_ok=True)
  body = {
      'prop': prop,
      'harness': job_res['harness'],
      'params': job_res['params'],
      'values': v['values'],
      'label': v['label'],
      'decisions': v.get('decisions', ''),
      'source': v.get('source'),
      'known': job_res.get('known', []),
  }
  h = hashlib.sha256(json.dumps(body, sort_keys=True).encode()).hexdigest()[:12]
  path = os.path.join(d, '%s-%s.json' % (prop, h))
  with open(path, 'w') as f:
    json.dump(body, f, indent=1, sort_keys=True)
  return path


def run_check(prop, tier, seed, only=None, nproc=None, verbose=True):
  t_start = time.time()
  mod = importlib.import_module('props.' + prop.lower())
  meta = getattr(mod, 'META', {})
  log = (lambda *a: print(*a, flush=True)) if verbose else (lambda *a: None)

  # ---- known findings: replay the recorded witness on the real code first
  known_entries = load_known(prop)
  known_active = []
  known_lines = []
  stale = []
  for e in known_entries:
    if e.get('status') != 'known':
      continue
    wpath = os.path.join(VERIF, e['witness'])
    r = replay_file(wpath)
    if r.get('status') == 'fail':
      known_active.append(e['id'])
      line = 'KNOWN-FINDING: property=%s %s [%s] witness=%s' % (
          prop, e['text'], e['id'], e['witness'])
      known_lines.append(line)
      log(line)
    else:
      stale.append(e['id'])
      log('note: known finding %s no longer reproduces (%s); its region is '
          'checked like everything else' % (e['id'], r.get('status')))

  jobs = mod.jobs(tier)
  if only:
    jobs = [j for j in jobs if only in j['harness']]
  for i, j in enumerate(jobs):
    j['index'] = i
    j['prop'] = prop
    j['seed'] = seed
    j['known'] = known_active
    j.setdefault('required', True)
    if tier == 'thorough':
      j.setdefault('witness_fraction', 1.0)
      j.setdefault('witness_max', 400)
      # the thorough tier validates every path on the real stack and may share
      # the machine with other checks: a job gets three times its budget (at
      # least ten minutes) before it is reported as not completed
      j['budget_s'] = max(3 * j.get('budget_s', 120), 600)
  nproc = nproc or int(os.environ.get('VERIF_NPROC', '0')) or min(
      16, os.cpu_count() or 4)
  nproc = max(1, min(nproc, len(jobs)))
  results = [None] * len(jobs)
  if jobs:
    mpctx = multiprocessing.get_context('fork')
    with mpctx.Pool(nproc, maxtasksperchild=None) as pool:
      for r in pool.imap_unordered(run_job, jobs, chunksize=1):
        results[r['index']] = r
        st = r.get('stats', {})
        log('  [%s] %-28s %-9s paths=%s queries=%s solver=%ss wall=%ss %s' %
            (prop, r['harness'], r['status'], st.get('paths', '-'),
             st.get('queries', '-'), st.get('solver_s', '-'), r.get('wall_s'),
             json.dumps(r['params'], sort_keys=True)[:100]))
        if r['status'] in ('error', 'inconclusive'):
          log('     ' + (r.get('error') or '').replace('\n', '\n     '))

  # ---- confirm violations on the real stack
  confirmed = []
  unconfirmed = []
  seen = set()
  for r in results:
    if len(confirmed) >= 4:
      break
    for v in r.get('violations', []):
      if len(confirmed) >= 4:
        break
      if v.get('values') is None:
        unconfirmed.append((r, v, 'no model'))
        continue
      r['known'] = known_active
      path = write_replay(prop, r, v)
      if path in seen:
        continue
      seen.add(path)
      rr = replay_file(path)
      if rr.get('status') == 'fail':
        confirmed.append((r, v, path, rr))
      else:
        unconfirmed.append((r, v, '%s: %s' % (path, rr)))
      if len(confirmed) >= 5:
        break

  # ---- verdict
  required_bad = [
      r for r in results
      if r['status'] == 'error' or
      (r['status'] in ('timeout', 'inconclusive') and
       jobs[r['index']]['required'])
  ]
  witness_errors = [e for r in results for e in r.get('witness_errors', [])]
  vacuous = []
  for r in results:
    cov = r.get('stats', {}).get('covers', {})
    for k, val in cov.items():
      pass
  # coverage regions are aggregated per (harness,label): at least one job of
  # the harness must witness each region
  cover_tot = {}
  for r in results:
    for k, val in (r.get('stats', {}).get('covers') or {}).items():
      key = '%s:%s' % (r['harness'], k)
      cover_tot[key] = cover_tot.get(key, 0) + (1 if val else 0)
  vacuous = sorted(k for k, n in cover_tot.items() if n == 0)
  zero_path = [
      r for r in results if r['status'] == 'ok' and
      jobs[r['index']].get('kind', 'symex') == 'symex' and
      r['stats'].get('paths', 0) == 0
  ]

  exit_code = EXIT_OK
  for (r, v, path, rr) in confirmed:
    print('VIOLATION property=%s replay=%s' % (prop, os.path.relpath(
        path, VERIF)), flush=True)
    log('   harness=%s label=%s params=%s values=%s' %
        (r['harness'], v['label'], json.dumps(r['params'], sort_keys=True),
         json.dumps(v['values'], sort_keys=True)))
    exit_code = EXIT_VIOLATION
  if exit_code == EXIT_OK:
    if unconfirmed:
      for (r, v, why) in unconfirmed:
        log('HARNESS-ERROR: counterexample of %s (%s) did not reproduce on the '
            'real stack: %s' % (r['harness'], v['label'], why))
      exit_code = EXIT_HARNESS
    if required_bad:
      for r in required_bad:
        log('HARNESS-ERROR: job %s %s ended %s' %
            (r['harness'], json.dumps(r['params'], sort_keys=True), r['status']))
      exit_code = EXIT_HARNESS
    if witness_errors:
      for e in witness_errors[:5]:
        log('HARNESS-ERROR: witness validation: %s' % e)
      exit_code = EXIT_HARNESS
    if vacuous:
      log('HARNESS-ERROR: regions never reached (vacuity): %s' % vacuous)
      exit_code = EXIT_HARNESS
    if zero_path:
      log('HARNESS-ERROR: jobs with no feasible path (vacuous): %s' %
          [(r['harness'], r['params']) for r in zero_path])
      exit_code = EXIT_HARNESS

  # ---- evidence
  wall = time.time() - t_start
  tot = lambda k: sum((r.get('stats', {}).get(k) or 0) for r in results)
  per_harness = {}
  for r in results:
    ph = per_harness.setdefault(
        r['harness'], {
            'jobs': 0,
            'completed': 0,
            'paths': 0,
            'queries': 0,
            'solver_s': 0.0,
            'checks_discharged': 0,
            'not_completed': []
        })
    ph['jobs'] += 1
    st = r.get('stats', {})
    ph['paths'] += st.get('paths') or 0
    ph['queries'] += st.get('queries') or 0
    ph['solver_s'] = round(ph['solver_s'] + (st.get('solver_s') or 0), 3)
    ph['checks_discharged'] += st.get('checks_unsat') or 0
    if r['status'] == 'ok':
      ph['completed'] += 1
    else:
      ph['not_completed'].append({'params': r['params'], 'status': r['status']})
  samples = []
  for r in results:
    for s in r.get('samples', []):
      if len(samples) < 6:
        samples.append(s)
  for r in results:
    if 'obligations' in r:
      for o in r['obligations'][:3]:
        if len(samples) < 10:
          samples.append(o)
  if not samples:
    samples = [{'note': 'no path completed'}]
  level = meta.get('level', 'model_checking')
  obligations = sum(len(r.get('obligations', [])) for r in results)
  discharged = sum(
      1 for r in results for o in r.get('obligations', [])
      if o.get('result') == 'unsat' or o.get('discharged'))
  coverage = {
      'states': tot('paths'),
      'transitions': tot('decisions') + tot('paths'),
      'traces_validated_against_impl': sum(r.get('witness_ok', 0)
                                           for r in results),
      'samples': samples,
      'exhaustive': all(r['status'] == 'ok' for r in results) and bool(results),
      'explanation': meta.get('explanation', ''),
      'engine': meta.get('engine', 'E1 symex (z3 %s)' % _z3_version()),
      'functions_encoded': source_hashes(meta.get('functions', [])),
      'bounds': meta.get('bounds', {}).get(tier, meta.get('bounds', {})),
      'outside_the_claim': meta.get('outside', []),
      'jobs': len(results),
      'jobs_completed': sum(1 for r in results if r['status'] == 'ok'),
      'jobs_not_completed': [{
          'harness': r['harness'],
          'params': r['params'],
          'status': r['status']
      } for r in results if r['status'] != 'ok'][:50],
      'paths_explored': tot('paths'),
      'paths_pruned_by_assumption': tot('aborted_paths'),
      'solver_queries': tot('queries') + sum(
          r.get('solver_queries', 0) for r in results),
      'solver_seconds': round(
          tot('solver_s') + sum(r.get('solver_seconds', 0) for r in results),
          3),
      'property_checks_discharged_unsat': tot('checks_unsat'),
      'property_checks_total': tot('checks'),
      'obligations': obligations + tot('checks'),
      'discharged': discharged + tot('checks_unsat'),
      'lemma_obligations': [o for r in results
                            for o in r.get('obligations', [])][:60],
      'per_harness': per_harness,
      'vacuity_regions_witnessed': cover_tot,
      'witness_skipped_inexact': sum(
          r.get('witness_skipped', 0) + r.get('witness_inexact_fail', 0)
          for r in results),
      'known_findings_printed': known_lines,
      'known_findings_stale': stale,
      'unconfirmed_counterexamples': len(unconfirmed),
      'checker_cmd': 'z3 (python API %s) via /verif/vcheck %s --tier %s' %
                     (_z3_version(), prop, tier),
      'trusted_base': meta.get('trusted_base', [
          'z3', 'engine/symex.py proxies', 'engine/symproto.py (validated per '
          'path against upb protobuf)'
      ]),
      'exit_code': exit_code,
  }
  ev = {
      'property_id': prop,
      'tier': tier,
      'seed': seed,
      'level': level,
      'coverage': coverage,
      'assumptions': meta.get('assumptions', []),
      'wall_s': round(wall, 2),
      'violations': len(confirmed),
  }
  os.makedirs(os.path.join(VERIF, 'evidence'), exist_ok=True)
  with open(os.path.join(VERIF, 'evidence', '%s.json' % prop), 'w') as f:
    json.dump(ev, f, indent=1, sort_keys=True, default=str)
  log('%s tier=%s exit=%d jobs=%d paths=%d queries=%d solver=%.1fs wall=%.1fs '
      'witness_ok=%d' %
      (prop, tier, exit_code, len(results), coverage['states'],
       coverage['solver_queries'], coverage['solver_seconds'], wall,
       coverage['traces_validated_against_impl']))
  return exit_code


def _z3_version():
  try:
    import z3  # pylint: disable=g-import-not-at-top
    return z3.get_version_string()
  except Exception:  # pylint: disable=broad-except
    return '?'
