"""symproto -- a pure-Python stand-in for note_seq.protobuf.music_pb2.

Generated at run time from the real module's DESCRIPTOR so that scalar fields
can hold symbolic values.  Models exactly the protobuf behaviour the analysed
code relies on (see DESIGN.md 2.2); anything else raises Unsupported.
"""
import copy
import fractions
import types

import z3

from engine import symex
from engine.symex import SymBool, SymInt, SymReal, Unsupported

_INT_KINDS = None  # filled by build()

# When true, assigning a symbolic int to an int32 field forks on overflow and
# raises ValueError on the overflowing side (as upb does).  Off by default.
STRICT_INT_RANGE = [False]


class FieldSpec(object):
  __slots__ = ('name', 'kind', 'repeated', 'default', 'msg', 'oneof', 'lo',
               'hi', 'enum')

  def __init__(self, name, kind, repeated, default, msg, oneof, lo, hi, enum):
    self.name = name
    self.kind = kind  # 'int' 'real' 'bool' 'str' 'bytes' 'msg'
    self.repeated = repeated
    self.default = default
    self.msg = msg  # class for kind == 'msg' (resolved lazily)
    self.oneof = oneof
    self.lo = lo
    self.hi = hi
    self.enum = enum


def _is_np(x):
  return type(x).__module__ == 'numpy'


def _coerce(spec, v):
  """Type check / coercion on scalar assignment, as upb does."""
  k = spec.kind
  if k == 'int':
    if isinstance(v, SymInt):
      if STRICT_INT_RANGE[0] and spec.lo is not None:
        ok = symex.And(v >= spec.lo, v <= spec.hi)
        if not ok:
          raise ValueError('Value out of range (symbolic)')
      return v
    if isinstance(v, SymBool):
      return SymInt(symex.num_term(v)[0])
    if isinstance(v, SymReal):
      raise TypeError("'float' object cannot be interpreted as an integer")
    if _is_np(v):
      if v.dtype.kind in 'iub' and v.shape == ():
        v = int(v)
      else:
        raise TypeError('%r has type %s, but expected one of: int' %
                        (v, type(v)))
    if isinstance(v, bool):
      v = int(v)
    if not isinstance(v, int):
      raise TypeError('%r has type %s, but expected one of: int' %
                      (v, type(v)))
    if spec.lo is not None and not spec.lo <= v <= spec.hi:
      raise ValueError('Value out of range: %d' % v)
    return v
  if k == 'real':
    if isinstance(v, SymReal):
      return v
    if isinstance(v, (SymInt, SymBool)):
      return SymReal(symex.real_term(v))
    if _is_np(v) and v.shape == ():
      v = v.item()
    if isinstance(v, (bool, int)):
      return float(v)
    if isinstance(v, float):
      return v
    if isinstance(v, fractions.Fraction):
      return v
    raise TypeError('%r has type %s, but expected one of: int, float' %
                    (v, type(v)))
  if k == 'bool':
    if isinstance(v, SymBool):
      return v
    if isinstance(v, SymInt):
      return v != 0
    if _is_np(v) and v.shape == ():
      v = v.item()
    if isinstance(v, (bool, int)):
      return bool(v)
    raise TypeError('%r has type %s, but expected one of: bool, int' %
                    (v, type(v)))
  if k == 'str':
    if isinstance(v, str):
      return v
    if isinstance(v, bytes):
      return v.decode('utf-8')
    raise TypeError('%r has type %s, but expected one of: bytes, str' %
                    (v, type(v)))
  if k == 'bytes':
    if isinstance(v, bytes):
      return v
    raise TypeError('%r has type %s, but expected one of: bytes' %
                    (v, type(v)))
  raise Unsupported('coerce kind %s' % k)


def _scalar_eq_term(a, b):
  """z3 Bool (or python bool) for equality of two scalar field values."""
  r = symex.Eq(a, b)
  return r


def _is_default(spec, v):
  """python bool or SymBool: value equals the field default."""
  return symex.Eq(v, spec.default)


class RepeatedScalar(object):
  """Repeated scalar container (strings / numbers)."""

  def __init__(self, parent, spec):
    self._parent = parent
    self._spec = spec
    self._items = []

  def _touch(self):
    self._parent._mark()

  def append(self, v):
    self._items.append(_coerce(self._spec, v))
    self._touch()

  def extend(self, vs):
    vs = list(vs)
    for v in vs:
      self._items.append(_coerce(self._spec, v))
    if vs:
      self._touch()

  def MergeFrom(self, other):
    self.extend(list(other))

  def __len__(self):
    return len(self._items)

  def __iter__(self):
    return iter(list(self._items))

  def __getitem__(self, i):
    return self._items[i]

  def __setitem__(self, i, v):
    if isinstance(i, slice):
      self._items[i] = [_coerce(self._spec, x) for x in v]
    else:
      self._items[i] = _coerce(self._spec, v)

  def __delitem__(self, i):
    del self._items[i]

  def __eq__(self, o):
    if isinstance(o, RepeatedScalar):
      o = o._items
    if not isinstance(o, (list, tuple)):
      return False
    if len(o) != len(self._items):
      return False
    return symex.And([symex.Eq(a, b) for a, b in zip(self._items, o)] or
                     [True])

  def __ne__(self, o):
    return symex.Not(self.__eq__(o))

  __hash__ = None

  def __bool__(self):
    return bool(self._items)

  def __contains__(self, v):
    return v in self._items

  def remove(self, v):
    self._items.remove(v)

  def pop(self, i=-1):
    return self._items.pop(i)

  def insert(self, i, v):
    self._items.insert(i, _coerce(self._spec, v))

  def sort(self, **kw):
    self._items.sort(**kw)

  def reverse(self):
    self._items.reverse()

  def __repr__(self):
    return repr(self._items)


class RepeatedComposite(object):
  """Repeated message container."""

  def __init__(self, parent, spec):
    self._parent = parent
    self._spec = spec
    self._items = []

  def _touch(self):
    self._parent._mark()

  def _new(self):
    m = self._spec.msg()
    m.__dict__['_parent'] = self
    m.__dict__['_present'] = True
    return m

  def add(self, **kw):
    m = self._spec.msg(**kw)
    m.__dict__['_parent'] = self
    m.__dict__['_present'] = True
    self._items.append(m)
    self._touch()
    return m

  def append(self, other):
    if not isinstance(other, self._spec.msg):
      raise TypeError('Parameter to append() must be instance of same class.')
    m = self._new()
    m.MergeFrom(other)
    self._items.append(m)
    self._touch()

  def extend(self, others):
    if isinstance(others, RepeatedComposite):
      others = list(others._items)
    for o in list(others):
      if not isinstance(o, self._spec.msg):
        raise TypeError('Parameter to extend() must be instances of the '
                        'element class, got %s' % type(o))
      m = self._new()
      m.MergeFrom(o)
      self._items.append(m)
      self._touch()

  def MergeFrom(self, other):
    self.extend(other)

  def insert(self, i, other):
    m = self._new()
    m.MergeFrom(other)
    self._items.insert(i, m)
    self._touch()

  def __len__(self):
    return len(self._items)

  def __iter__(self):
    return iter(list(self._items))

  def __getitem__(self, i):
    if isinstance(i, slice):
      return list(self._items[i])
    return self._items[i]

  def __setitem__(self, i, v):
    raise TypeError("'RepeatedCompositeContainer' object does not support item "
                    'assignment')

  def __delitem__(self, i):
    del self._items[i]

  def __bool__(self):
    return bool(self._items)

  def __eq__(self, o):
    if self is o:
      return True
    if isinstance(o, RepeatedComposite):
      o = o._items
    if not isinstance(o, (list, tuple)):
      return False
    if len(o) != len(self._items):
      return False
    return symex.And([a._eq(b) for a, b in zip(self._items, o)] or [True])

  def __ne__(self, o):
    return symex.Not(self.__eq__(o))

  __hash__ = None

  def remove(self, elem):
    for i, m in enumerate(self._items):
      if m is elem or m == elem:
        del self._items[i]
        return
    raise ValueError('Item to delete not in list')

  def pop(self, i=-1):
    return self._items.pop(i)

  def sort(self, key=None, reverse=False, **kw):
    if kw:
      raise Unsupported('sort kwargs %r' % (kw,))
    self._items.sort(key=key, reverse=reverse)

  def reverse(self):
    self._items.reverse()

  def __repr__(self):
    return '[%s]' % ', '.join(repr(m) for m in self._items)

  def __deepcopy__(self, memo):
    # upb returns a plain list of copies
    return [copy.deepcopy(m) for m in self._items]


class Message(object):
  """Base class of generated message classes."""
  _fields = {}
  _oneofs = {}
  _full_name = ''

  def __init__(self, **kw):
    d = self.__dict__
    d['_v'] = {}
    d['_parent'] = None
    d['_present'] = False
    d['_which'] = {}
    for k, v in kw.items():
      spec = self._fields.get(k)
      if spec is None:
        raise ValueError('Protocol message %s has no "%s" field.' %
                         (self._full_name, k))
      if v is None:
        continue
      if spec.repeated:
        getattr(self, k).extend(v)
      elif spec.kind == 'msg':
        sub = getattr(self, k)
        if isinstance(v, dict):
          sub.MergeFrom(spec.msg(**v))
        else:
          sub.MergeFrom(v)
        sub._mark()
      else:
        setattr(self, k, v)

  # ---- presence
  def _mark(self):
    m = self
    while m is not None:
      if isinstance(m, Message):
        m.__dict__['_present'] = True
        slot = m.__dict__.get('_oneof_slot')
        p = m._parent
        if slot and isinstance(p, Message):
          p._set_oneof(slot[0], slot[1])
        m = p
      else:  # container
        m = m._parent

  # ---- attribute protocol
  def __getattr__(self, name):
    # only called when normal lookup fails
    spec = type(self)._fields.get(name)
    if spec is None:
      raise AttributeError("'%s' object has no attribute '%s'" %
                           (type(self).__name__, name))
    v = self._v
    if name in v:
      return v[name]
    if spec.repeated:
      c = (RepeatedComposite if spec.kind == 'msg' else RepeatedScalar)(self,
                                                                        spec)
      v[name] = c
      return c
    if spec.kind == 'msg':
      sub = spec.msg()
      sub.__dict__['_parent'] = self
      sub.__dict__['_present'] = False
      sub.__dict__['_oneof_slot'] = (spec.oneof, name) if spec.oneof else None
      v[name] = sub
      return sub
    return spec.default

  def __setattr__(self, name, value):
    spec = type(self)._fields.get(name)
    if spec is None:
      raise AttributeError("Assignment not allowed (no field \"%s\" in "
                           'protocol message object).' % name)
    if spec.repeated:
      raise AttributeError('Assignment not allowed to repeated field "%s" in '
                           'protocol message object.' % name)
    if spec.kind == 'msg':
      raise AttributeError('Assignment not allowed to message field "%s" in '
                           'protocol message object.' % name)
    self._v[name] = _coerce(spec, value)
    if spec.oneof:
      self._set_oneof(spec.oneof, name)
    self._mark()

  def _set_oneof(self, oneof, name):
    prev = self._which.get(oneof)
    if prev is not None and prev != name:
      self._v.pop(prev, None)
    self._which[oneof] = name

  # ---- API
  def HasField(self, name):
    spec = self._fields.get(name)
    if spec is None:
      if name in self._oneofs:
        return self._which.get(name) is not None
      raise ValueError('Protocol message %s has no field %s.' %
                       (self._full_name, name))
    if spec.repeated:
      raise ValueError('Protocol message %s has no singular "%s" field.' %
                       (self._full_name, name))
    if spec.oneof:
      return self._which.get(spec.oneof) == name
    if spec.kind == 'msg':
      sub = self._v.get(name)
      return bool(sub is not None and sub._present)
    raise ValueError("Can't test non-optional, non-submessage field "
                     '"%s.%s" for presence in proto3.' %
                     (self._full_name, name))

  def WhichOneof(self, oneof):
    if oneof not in self._oneofs:
      raise ValueError('Protocol message has no oneof "%s" field.' % oneof)
    return self._which.get(oneof)

  def ClearField(self, name):
    spec = self._fields.get(name)
    if spec is None:
      if name in self._oneofs:
        w = self._which.pop(name, None)
        if w:
          self._v.pop(w, None)
        return
      raise ValueError('Protocol message %s has no "%s" field.' %
                       (self._full_name, name))
    old = self._v.pop(name, None)
    if isinstance(old, Message):
      old.__dict__['_parent'] = None
    if spec.oneof and self._which.get(spec.oneof) == name:
      del self._which[spec.oneof]

  def Clear(self):
    for old in self._v.values():
      if isinstance(old, Message):
        old.__dict__['_parent'] = None
    self._v.clear()
    self._which.clear()

  def _field_present(self, spec):
    """python bool or SymBool: would serialisation emit this field?"""
    name = spec.name
    if name not in self._v:
      return False
    val = self._v[name]
    if spec.repeated:
      return len(val) > 0
    if spec.kind == 'msg':
      return val._present
    if spec.oneof:
      return self._which.get(spec.oneof) == name
    return symex.Not(_is_default(spec, val))

  def MergeFrom(self, other):
    if not isinstance(other, type(self)):
      raise TypeError('Parameter to MergeFrom() must be instance of same '
                      'class: expected %s got %s.' %
                      (type(self).__name__, type(other).__name__))
    if other is self:
      raise Unsupported('MergeFrom(self)')
    for name, spec in self._fields.items():
      if name not in other._v:
        continue
      oval = other._v[name]
      if spec.repeated:
        if len(oval):
          getattr(self, name).MergeFrom(oval)
      elif spec.kind == 'msg':
        if oval._present:
          sub = getattr(self, name)
          sub.MergeFrom(oval)
          sub.__dict__['_present'] = True
          if spec.oneof:
            self._set_oneof(spec.oneof, name)
          self._mark()
      elif spec.oneof:
        if other._which.get(spec.oneof) == name:
          self._v[name] = oval
          self._set_oneof(spec.oneof, name)
          self._mark()
      else:
        # implicit presence: copied only when different from the default
        if name not in self._v or symex.Eq(self._v[name], spec.default) is True:
          # target holds the default: result is the source value either way
          self._v[name] = oval
        else:
          pres = symex.Not(_is_default(spec, oval))
          if isinstance(pres, SymBool):
            if spec.kind in ('int', 'real', 'bool'):
              self._v[name] = symex.If(pres, oval, self._v[name])
            else:
              if pres:
                self._v[name] = oval
          elif pres:
            self._v[name] = oval
        self._mark()

  def CopyFrom(self, other):
    if other is self:
      return
    if not isinstance(other, type(self)):
      raise TypeError('Parameter to CopyFrom() must be instance of same '
                      'class: expected %s got %s.' %
                      (type(self).__name__, type(other).__name__))
    self.Clear()
    self.MergeFrom(other)
    self._mark()

  def __deepcopy__(self, memo):
    m = type(self)()
    m.MergeFrom(self)
    m.__dict__['_present'] = self._present
    return m

  def __copy__(self):
    return self.__deepcopy__({})

  def _eq(self, other):
    """python bool or SymBool; protobuf message equality."""
    if self is other:
      return True
    if not isinstance(other, Message) or type(other) is not type(self):
      return False
    conds = []
    for name, spec in self._fields.items():
      a = self._v.get(name)
      b = other._v.get(name)
      if a is None and b is None:
        continue
      if spec.repeated:
        la = len(a) if a is not None else 0
        lb = len(b) if b is not None else 0
        if la != lb:
          return False
        if la:
          c = a.__eq__(b)
          if c is False:
            return False
          conds.append(c)
      elif spec.kind == 'msg':
        pa = bool(a is not None and a._present)
        pb = bool(b is not None and b._present)
        if pa != pb:
          return False
        if pa:
          c = a._eq(b)
          if c is False:
            return False
          conds.append(c)
      elif spec.oneof:
        wa = self._which.get(spec.oneof) == name
        wb = other._which.get(spec.oneof) == name
        if wa != wb:
          return False
        if wa:
          c = symex.Eq(a, b)
          if c is False:
            return False
          conds.append(c)
      else:
        av = spec.default if a is None else a
        bv = spec.default if b is None else b
        c = symex.Eq(av, bv)
        if c is False:
          return False
        conds.append(c)
    for oneof in self._oneofs:
      if self._which.get(oneof) != other._which.get(oneof):
        return False
    return symex.And(conds) if conds else True

  def __eq__(self, other):
    return self._eq(other)

  def __ne__(self, other):
    return symex.Not(self._eq(other))

  __hash__ = None

  def __repr__(self):
    return '<%s>' % self._full_name

  __str__ = __repr__

  def ListFields(self):
    raise Unsupported('ListFields')

  def SerializeToString(self, **kw):
    raise Unsupported('SerializeToString')

  def ParseFromString(self, s):
    raise Unsupported('ParseFromString')

  @classmethod
  def FromString(cls, s):
    raise Unsupported('FromString')

  def IsInitialized(self):
    return True

  def ByteSize(self):
    raise Unsupported('ByteSize')


class EnumWrapper(object):

  def __init__(self, ed):
    self._name2num = {v.name: v.number for v in ed.values}
    self._num2name = {}
    for v in ed.values:
      self._num2name.setdefault(v.number, v.name)
    for k, n in self._name2num.items():
      setattr(self, k, n)

  def Name(self, number):
    if symex.is_sym(number):
      number = number.__index__()
    try:
      return self._num2name[number]
    except KeyError:
      raise ValueError('Enum has no name defined for value %r' % (number,))

  def Value(self, name):
    try:
      return self._name2num[name]
    except KeyError:
      raise ValueError('Enum has no value defined for name %r' % (name,))

  def keys(self):
    return list(self._name2num.keys())

  def values(self):
    return list(self._name2num.values())

  def items(self):
    return list(self._name2num.items())


def _build_message(desc, registry):
  from google.protobuf import descriptor as D  # pylint: disable=g-import-not-at-top
  FD = D.FieldDescriptor
  int_types = {
      FD.TYPE_INT32: (-2**31, 2**31 - 1),
      FD.TYPE_SINT32: (-2**31, 2**31 - 1),
      FD.TYPE_SFIXED32: (-2**31, 2**31 - 1),
      FD.TYPE_INT64: (-2**63, 2**63 - 1),
      FD.TYPE_SINT64: (-2**63, 2**63 - 1),
      FD.TYPE_SFIXED64: (-2**63, 2**63 - 1),
      FD.TYPE_UINT32: (0, 2**32 - 1),
      FD.TYPE_FIXED32: (0, 2**32 - 1),
      FD.TYPE_UINT64: (0, 2**64 - 1),
      FD.TYPE_FIXED64: (0, 2**64 - 1),
      FD.TYPE_ENUM: (-2**31, 2**31 - 1),
  }
  ns = {}
  cls = type(desc.name, (Message,), ns)
  registry[desc.full_name] = cls
  cls._full_name = desc.full_name
  for nd in desc.nested_types:
    sub = _build_message(nd, registry)
    setattr(cls, nd.name, sub)
  for ed in desc.enum_types:
    w = EnumWrapper(ed)
    setattr(cls, ed.name, w)
    for v in ed.values:
      setattr(cls, v.name, v.number)
  cls._pending = desc
  cls._int_types = int_types
  return cls


def _finish_message(cls, registry):
  from google.protobuf import descriptor as D  # pylint: disable=g-import-not-at-top
  FD = D.FieldDescriptor
  desc = cls._pending
  fields = {}
  oneofs = {}
  for od in desc.oneofs:
    # proto3 `optional` synthesises oneofs; treat them as real ones (none here)
    oneofs[od.name] = [f.name for f in od.fields]
  for fd in desc.fields:
    rep = fd.is_repeated if hasattr(fd, 'is_repeated') else (
        fd.label == FD.LABEL_REPEATED)
    oneof = fd.containing_oneof.name if fd.containing_oneof is not None else None
    lo = hi = None
    enum = None
    msg = None
    if fd.type in cls._int_types:
      kind = 'int'
      lo, hi = cls._int_types[fd.type]
      default = 0 if rep else fd.default_value
      if fd.type == FD.TYPE_ENUM:
        enum = fd.enum_type.full_name
    elif fd.type in (FD.TYPE_DOUBLE, FD.TYPE_FLOAT):
      kind = 'real'
      default = 0.0
    elif fd.type == FD.TYPE_BOOL:
      kind = 'bool'
      default = False
    elif fd.type == FD.TYPE_STRING:
      kind = 'str'
      default = ''
    elif fd.type == FD.TYPE_BYTES:
      kind = 'bytes'
      default = b''
    elif fd.type == FD.TYPE_MESSAGE:
      kind = 'msg'
      default = None
      msg = registry[fd.message_type.full_name]
      if fd.message_type.GetOptions().map_entry:
        raise Unsupported('map fields are not modelled')
    else:
      raise Unsupported('field type %r' % fd.type)
    fields[fd.name] = FieldSpec(fd.name, kind, rep, default, msg, oneof, lo, hi,
                                enum)
  cls._fields = fields
  cls._oneofs = oneofs
  del cls._pending


def build(real_pb2):
  """Returns a module object mimicking `real_pb2` (music_pb2)."""
  fdesc = real_pb2.DESCRIPTOR
  registry = {}
  mod = types.ModuleType('note_seq.protobuf.music_pb2')
  mod.__dict__['__symproto__'] = True
  for name, md in fdesc.message_types_by_name.items():
    cls = _build_message(md, registry)
    setattr(mod, name, cls)
  for cls in list(registry.values()):
    _finish_message(cls, registry)
  for name, ed in fdesc.enum_types_by_name.items():
    setattr(mod, name, EnumWrapper(ed))
    for v in ed.values:
      setattr(mod, v.name, v.number)
  mod._registry = registry
  mod.DESCRIPTOR = fdesc
  return mod


# ---------------------------------------------------------------------------
# structural helpers used by harnesses (work on shim messages)


def msg_eq_term(a, b):
  return a._eq(b)
