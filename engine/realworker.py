"""Runs harnesses concretely on the *unmodified* stack (real upb protobuf, real
numpy, real pretty_midi; nothing injected).  Used for per-path witness
validation, for confirming counterexamples and by `vcheck replay`.

Protocol: one JSON object per line on stdin -> one JSON object per line on
stdout.
"""
import importlib
import json
import os
import sys
import traceback

sys.path.insert(0, os.path.dirname(os.path.dirname(os.path.abspath(__file__))))

from engine import ctx as C  # pylint: disable=g-import-not-at-top
from engine import loader  # pylint: disable=g-import-not-at-top

_ENV = None


def env():
  global _ENV
  if _ENV is None:
    _ENV = loader.RealEnv()
  return _ENV


def run_one(req):
  """Returns dict(status=ok|fail|assume|error, label=..., error=...)."""
  try:
    mod = importlib.import_module('props.' + req['prop'].lower())
    h = mod.HARNESSES[req['harness']]
    c = C.ConcCtx(env(), req.get('params') or {}, req.get('values') or {},
                  req.get('known') or ())
    try:
      h(c)
    except C.ConcreteFailure as f:
      return {'status': 'fail', 'label': f.label, 'checks': c.checks}
    except C.AssumeFailed:
      return {'status': 'assume', 'checks': c.checks}
    except Exception as e:  # pylint: disable=broad-except
      return {'status': 'fail',
              'label': 'unexpected exception %s' % type(e).__name__,
              'checks': c.checks, 'error': traceback.format_exc()[-1500:]}
    return {'status': 'ok', 'checks': c.checks}
  except BaseException:  # pylint: disable=broad-except
    return {'status': 'error', 'error': traceback.format_exc()[-3000:]}


def main():
  out = sys.stdout
  # keep stray prints of the code under test away from the protocol stream
  sys.stdout = sys.stderr
  for line in sys.stdin:
    line = line.strip()
    if not line:
      continue
    req = json.loads(line)
    res = run_one(req)
    out.write(json.dumps(res) + '\n')
    out.flush()


if __name__ == '__main__':
  main()
