"""Harness contexts.  A harness is a function h(ctx) written once; SymCtx runs
it under the Explorer with proxies, ConcCtx runs it on the unmodified stack with
the concrete values of a solver model (witness validation and replay)."""
import fractions
import math

import z3

from engine import symex


class ConcreteFailure(Exception):

  def __init__(self, label):
    Exception.__init__(self, label)
    self.label = label


class AssumeFailed(Exception):
  pass


class _Base(object):

  def raises(self, fn, *a, **k):
    """Calls fn; returns (result, None) or (None, exception)."""
    try:
      return fn(*a, **k), None
    except Exception as e:  # pylint: disable=broad-except
      return None, e

  def known(self, fid):
    return fid in self.known_active


class SymCtx(_Base):
  mode = 'sym'

  def __init__(self, ex, env, params, known_active=()):
    self.ex = ex
    self.env = env
    self.pb = env.pb
    self.params = params
    self.known_active = set(known_active)

  def mod(self, name):
    return self.env.mod(name)

  # inputs
  def int(self, name, lo=None, hi=None):
    t = z3.Int(self.ex.fresh_name(name))
    self.ex.inputs.append((name, 'int', t))
    if not self.ex.retained():
      if lo is not None:
        self.ex.assume(t >= lo)
      if hi is not None:
        self.ex.assume(t <= hi)
    return symex.SymInt(t)

  def real(self, name, lo=None, hi=None):
    t = z3.Real(self.ex.fresh_name(name))
    self.ex.inputs.append((name, 'real', t))
    if not self.ex.retained():
      if lo is not None:
        self.ex.assume(t >= symex.real_term(lo))
      if hi is not None:
        self.ex.assume(t <= symex.real_term(hi))
    return symex.SymReal(t)

  def bool(self, name):
    t = z3.Bool(self.ex.fresh_name(name))
    self.ex.inputs.append((name, 'bool', t))
    return symex.SymBool(t)

  def choice(self, name, options):
    """One of `options`, chosen by a forked (solver-closed) index."""
    i = self.int(name, 0, len(options) - 1)
    return options[i.__index__()]

  def assume(self, cond):
    self.ex.assume(cond)

  def check(self, cond, label):
    self.ex.check(cond, label)

  def cover(self, label, cond=True):
    self.ex.cover(label, cond)

  # oracle helpers
  And = staticmethod(symex.And)
  Or = staticmethod(symex.Or)
  Not = staticmethod(symex.Not)
  Implies = staticmethod(symex.Implies)
  If = staticmethod(symex.If)
  Min = staticmethod(symex.Min)
  Max = staticmethod(symex.Max)
  Floor = staticmethod(symex.Floor)
  Ceil = staticmethod(symex.Ceil)
  Sum = staticmethod(symex.Sum)
  Count = staticmethod(symex.Count)

  def eq(self, a, b):
    return symex.Eq(a, b)

  def approx(self, a, b, tol=1e-6):
    """Equality up to `tol` on the real stack (float32 storage etc.); exact
    in the symbolic model up to the same relative tolerance (float constants
    enter the model with their exact binary value, so e.g. 60/(60/q) differs
    from q by an ulp)."""
    if not (symex.is_sym(a) or symex.is_sym(b)):
      return abs(a - b) <= tol * max(1.0, abs(a), abs(b))
    from fractions import Fraction  # pylint: disable=g-import-not-at-top
    t = Fraction(tol)
    d = a - b
    bound = t * symex.Max(1, symex.If(a >= 0, a, -a), symex.If(b >= 0, b, -b))
    return symex.And(d <= bound, -d <= bound)

  @property
  def np(self):
    from engine import nplite  # pylint: disable=g-import-not-at-top
    return nplite

  @property
  def pm(self):
    from engine import pmlite  # pylint: disable=g-import-not-at-top
    return pmlite

  def msg_eq(self, a, b):
    """Value equality of two messages (shim) as a term."""
    return a._eq(b)

  def snapshot(self, msg):
    import copy  # pylint: disable=g-import-not-at-top
    return copy.deepcopy(msg)

  def concretize(self, x):
    if isinstance(x, symex.SymInt):
      return x.__index__()
    if isinstance(x, symex.SymBool):
      return bool(x)
    return x


def _approx(a, b):
  if isinstance(a, bool) or isinstance(b, bool):
    return bool(a) == bool(b)
  if isinstance(a, (int, float)) and isinstance(b, (int, float)):
    if a == b:
      return True
    return abs(a - b) <= 1e-9 * max(1.0, abs(a), abs(b))
  return a == b


class ConcCtx(_Base):
  mode = 'conc'

  def __init__(self, env, params, values, known_active=()):
    self.env = env
    self.pb = env.pb
    self.params = params
    self.values = values
    self.known_active = set(known_active)
    self.checks = 0
    self.labels = []

  def mod(self, name):
    return self.env.mod(name)

  def int(self, name, lo=None, hi=None):
    if name in self.values:
      return int(self.values[name])
    return lo if lo is not None else (hi if hi is not None and hi < 0 else 0)

  def real(self, name, lo=None, hi=None):
    if name in self.values:
      v = self.values[name]
      if isinstance(v, (list, tuple)):
        return float(fractions.Fraction(int(v[0]), int(v[1])))
      return float(v)
    return float(lo) if lo is not None else 0.0

  def bool(self, name):
    return bool(self.values.get(name, False))

  def choice(self, name, options):
    return options[int(self.values.get(name, 0))]

  def assume(self, cond):
    if not cond:
      raise AssumeFailed()

  def check(self, cond, label):
    self.checks += 1
    self.labels.append(label)
    if not cond:
      raise ConcreteFailure(label)

  def cover(self, label, cond=True):
    pass

  @staticmethod
  def And(*xs):
    if len(xs) == 1 and isinstance(xs[0], (list, tuple)):
      xs = xs[0]
    return all(bool(x) for x in xs)

  @staticmethod
  def Or(*xs):
    if len(xs) == 1 and isinstance(xs[0], (list, tuple)):
      xs = xs[0]
    return any(bool(x) for x in xs)

  @staticmethod
  def Not(x):
    return not x

  @staticmethod
  def Implies(a, b):
    return (not a) or bool(b)

  @staticmethod
  def If(c, a, b):
    return a if c else b

  @staticmethod
  def Min(*xs):
    if len(xs) == 1 and isinstance(xs[0], (list, tuple)):
      xs = xs[0]
    return min(xs)

  @staticmethod
  def Max(*xs):
    if len(xs) == 1 and isinstance(xs[0], (list, tuple)):
      xs = xs[0]
    return max(xs)

  @staticmethod
  def Floor(x):
    return int(math.floor(x))

  @staticmethod
  def Ceil(x):
    return int(math.ceil(x))

  @staticmethod
  def Sum(xs):
    return sum(xs)

  @staticmethod
  def Count(conds):
    return sum(1 for c in conds if c)

  def eq(self, a, b):
    return _approx(a, b)

  def approx(self, a, b, tol=1e-6):
    return abs(float(a) - float(b)) <= tol * max(1.0, abs(float(a)),
                                                 abs(float(b)))

  @property
  def np(self):
    import numpy  # pylint: disable=g-import-not-at-top
    return numpy

  @property
  def pm(self):
    import pretty_midi  # pylint: disable=g-import-not-at-top
    return pretty_midi

  def msg_eq(self, a, b):
    return a == b

  def snapshot(self, msg):
    import copy  # pylint: disable=g-import-not-at-top
    return copy.deepcopy(msg)

  def concretize(self, x):
    return x
