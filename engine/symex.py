"""E1 -- path-exploring symbolic execution of real Python code with z3.

The code under test is *executed* by CPython.  Inputs are proxy objects that
carry z3 terms; every `bool()` of a symbolic condition is a fork point that the
Explorer resolves with the solver (decision replay, depth first).  At the end
of a path (or at any `ctx.check`) the property is discharged by one query
`path_condition /\\ not P`:  unsat = holds for every value on this path.

Nothing here knows about note_seq.
"""
import dis
import fractions
import math
import sys
import time

import z3

Fraction = fractions.Fraction


class PathAbort(BaseException):
  """Current path is infeasible under an assumption; not a result."""


class Unsupported(BaseException):
  """A proxy reached an operation the engine cannot model (harness error)."""


class Inconclusive(BaseException):
  """Solver said unknown (never counted as success)."""


class BudgetExceeded(BaseException):
  """The job's wall-clock budget ran out in the middle of a path."""


class Violation(BaseException):
  def __init__(self, label, model_values, note=''):
    BaseException.__init__(self, label)
    self.label = label
    self.model_values = model_values
    self.note = note


_EX = None  # the active Explorer (one per process at a time)

# ---- fast term constructors (z3py's operators spend most of their time in
# sort coercion; the proxies track int/real themselves)
from z3 import z3core as _core  # pylint: disable=g-import-not-at-top

_CTX = z3.main_ctx()
_C = _CTX.ref()
_Ast2 = _core.Ast * 2


def _arr(asts):
  n = len(asts)
  return n, (_core.Ast * n)(*asts)


def f_and(ts):
  if len(ts) == 1:
    return ts[0]
  n, a = _arr([t.ast for t in ts])
  return z3.BoolRef(_core.Z3_mk_and(_C, n, a), _CTX)


def f_or(ts):
  if len(ts) == 1:
    return ts[0]
  n, a = _arr([t.ast for t in ts])
  return z3.BoolRef(_core.Z3_mk_or(_C, n, a), _CTX)


def f_not(t):
  return z3.BoolRef(_core.Z3_mk_not(_C, t.ast), _CTX)


def f_ite(c, a, b):
  r = _core.Z3_mk_ite(_C, c.ast, a.ast, b.ast)
  if isinstance(a, z3.BoolRef):
    return z3.BoolRef(r, _CTX)
  return z3.ArithRef(r, _CTX)


def f_add(a, b):
  return z3.ArithRef(_core.Z3_mk_add(_C, 2, _Ast2(a.ast, b.ast)), _CTX)


def f_sub(a, b):
  return z3.ArithRef(_core.Z3_mk_sub(_C, 2, _Ast2(a.ast, b.ast)), _CTX)


def f_mul(a, b):
  return z3.ArithRef(_core.Z3_mk_mul(_C, 2, _Ast2(a.ast, b.ast)), _CTX)


def f_lt(a, b):
  return z3.BoolRef(_core.Z3_mk_lt(_C, a.ast, b.ast), _CTX)


def f_le(a, b):
  return z3.BoolRef(_core.Z3_mk_le(_C, a.ast, b.ast), _CTX)


def f_gt(a, b):
  return z3.BoolRef(_core.Z3_mk_gt(_C, a.ast, b.ast), _CTX)


def f_ge(a, b):
  return z3.BoolRef(_core.Z3_mk_ge(_C, a.ast, b.ast), _CTX)


def f_eq(a, b):
  return z3.BoolRef(_core.Z3_mk_eq(_C, a.ast, b.ast), _CTX)


def f_ne(a, b):
  return f_not(f_eq(a, b))


def same_term(a, b):
  return _core.Z3_is_eq_ast(_C, a.ast, b.ast)


def explorer():
  if _EX is None:
    raise Unsupported('symbolic value used outside an exploration')
  return _EX


# ---------------------------------------------------------------------------
# term helpers


def is_sym(x):
  return isinstance(x, (SymInt, SymReal, SymBool))


_RV_CACHE = {}
_IV_CACHE = {}


def _int_val(n):
  t = _IV_CACHE.get(n)
  if t is None:
    t = z3.IntVal(n)
    if len(_IV_CACHE) < 100000:
      _IV_CACHE[n] = t
  return t


def _real_val(x):
  key = (type(x), x)
  t = _RV_CACHE.get(key)
  if t is None:
    t = _real_val_uncached(x)
    if len(_RV_CACHE) < 100000:
      _RV_CACHE[key] = t
  return t


def _real_val_uncached(x):
  if isinstance(x, bool):
    return z3.RealVal(int(x))
  if isinstance(x, int):
    return z3.RealVal(x)
  if isinstance(x, float):
    if x != x or x in (float('inf'), float('-inf')):
      raise Unsupported('non-finite float constant %r' % x)
    f = Fraction(x)
    return z3.RealVal(f.numerator) / z3.RealVal(f.denominator) \
        if f.denominator != 1 else z3.RealVal(f.numerator)
  if isinstance(x, Fraction):
    return z3.Q(x.numerator, x.denominator)
  raise Unsupported('cannot make a Real of %r' % (type(x),))


def _np_unwrap(x):
  # numpy scalars -> python scalars (without importing numpy here)
  tn = type(x).__module__
  if tn == 'numpy':
    return x.item()
  return x


def num_term(x):
  """Returns (z3 term, is_real) for a number-like value."""
  if isinstance(x, SymInt):
    return x.t, False
  if isinstance(x, SymReal):
    return x.t, True
  if isinstance(x, SymBool):
    return z3.If(x.t, z3.IntVal(1), z3.IntVal(0)), False
  x = _np_unwrap(x)
  if isinstance(x, bool):
    return _int_val(int(x)), False
  if isinstance(x, int):
    return _int_val(x), False
  if isinstance(x, (float, Fraction)):
    return _real_val(x), True
  raise Unsupported('not a number: %r' % (type(x),))


def real_term(x):
  t, r = num_term(x)
  return t if r else z3.ToReal(t)


def bool_term(x):
  if isinstance(x, SymBool):
    return x.t
  if isinstance(x, (bool,)):
    return z3.BoolVal(x)
  if isinstance(x, z3.BoolRef):
    return x
  x = _np_unwrap(x)
  if isinstance(x, (bool, int)):
    return z3.BoolVal(bool(x))
  if isinstance(x, (SymInt, SymReal)):
    return x.t != 0
  raise Unsupported('not a bool: %r' % (type(x),))


def _binop_terms(a, b):
  ta, ra = num_term(a)
  tb, rb = num_term(b)
  if ra or rb:
    if not ra:
      ta = z3.ToReal(ta)
    if not rb:
      tb = z3.ToReal(tb)
    return ta, tb, True
  return ta, tb, False


def _wrap(t, is_real):
  return SymReal(t) if is_real else SymInt(t)


def _numlike(x):
  if isinstance(x, (SymInt, SymReal, SymBool, int, float, Fraction)):
    return True
  return type(x).__module__ == 'numpy' and getattr(x, 'shape', None) == ()


def _int_floor_div(ta, tb):
  # python floor division on ints; z3 int div is euclidean (rem >= 0)
  # floor(a/b): for b>0 equals z3 a div b; for b<0 equals -( (-a) div (-b))..
  # use: q = a div b ; r = a mod b (0<=r<|b|).  b>0: floor = q.
  # b<0: a = q*b + r ; a/b = q + r/b, r/b in (-1,0] -> floor = q if r==0 else q-1
  q = ta / tb
  r = ta % tb
  return z3.If(tb > 0, q, z3.If(r == 0, q, q - 1))


def _int_mod(ta, tb):
  # python: result has sign of divisor
  r = ta % tb  # 0 <= r < |b|
  return z3.If(tb > 0, r, z3.If(r == 0, r, r + tb))


def _real_floor(t):
  return z3.ToInt(t)  # z3 ToInt is floor


def _check_div_zero(b):
  tb, _ = num_term(b)
  if is_sym(b):
    if explorer().branch(tb == 0):
      raise ZeroDivisionError('division by zero (symbolic)')
  elif b == 0:
    raise ZeroDivisionError('division by zero')


def _called_from_format():
  """True when __int__/__float__ is being called by a '%' formatting op."""
  f = sys._getframe(2)
  try:
    op = f.f_code.co_code[f.f_lasti]
    return dis.opname[op] == 'BINARY_OP'
  except Exception:  # pylint: disable=broad-except
    return False


class _SymBase(object):
  __slots__ = ('t',)

  def __repr__(self):
    return '<sym>'

  __str__ = __repr__

  def __format__(self, spec):
    return '<sym>'

  # --- arithmetic
  def __add__(self, o):
    if not _numlike(o):
      return NotImplemented
    a, b, r = _binop_terms(self, o)
    return _wrap(f_add(a, b), r)

  def __radd__(self, o):
    if not _numlike(o):
      return NotImplemented
    a, b, r = _binop_terms(o, self)
    return _wrap(f_add(a, b), r)

  def __sub__(self, o):
    if not _numlike(o):
      return NotImplemented
    a, b, r = _binop_terms(self, o)
    return _wrap(f_sub(a, b), r)

  def __rsub__(self, o):
    if not _numlike(o):
      return NotImplemented
    a, b, r = _binop_terms(o, self)
    return _wrap(f_sub(a, b), r)

  def __mul__(self, o):
    if not _numlike(o):
      if isinstance(o, (list, tuple, str)):
        return o * self.__index__()
      return NotImplemented
    a, b, r = _binop_terms(self, o)
    return _wrap(f_mul(a, b), r)

  def __rmul__(self, o):
    if not _numlike(o):
      if isinstance(o, (list, tuple, str)):
        return o * self.__index__()
      return NotImplemented
    a, b, r = _binop_terms(o, self)
    return _wrap(f_mul(a, b), r)

  def __truediv__(self, o):
    if not _numlike(o):
      return NotImplemented
    _check_div_zero(o)
    return SymReal(real_term(self) / real_term(o))

  def __rtruediv__(self, o):
    if not _numlike(o):
      return NotImplemented
    _check_div_zero(self)
    return SymReal(real_term(o) / real_term(self))

  def __floordiv__(self, o):
    if not _numlike(o):
      return NotImplemented
    _check_div_zero(o)
    a, b, r = _binop_terms(self, o)
    if r:
      return SymReal(z3.ToReal(_real_floor(a / b)))
    return SymInt(_int_floor_div(a, b))

  def __rfloordiv__(self, o):
    if not _numlike(o):
      return NotImplemented
    _check_div_zero(self)
    a, b, r = _binop_terms(o, self)
    if r:
      return SymReal(z3.ToReal(_real_floor(a / b)))
    return SymInt(_int_floor_div(a, b))

  def __mod__(self, o):
    if not _numlike(o):
      return NotImplemented
    _check_div_zero(o)
    a, b, r = _binop_terms(self, o)
    if r:
      return SymReal(a - b * z3.ToReal(_real_floor(a / b)))
    return SymInt(_int_mod(a, b))

  def __rmod__(self, o):
    if not _numlike(o):
      return NotImplemented  # e.g. 'fmt' % sym  -> str.__mod__ handles
    _check_div_zero(self)
    a, b, r = _binop_terms(o, self)
    if r:
      return SymReal(a - b * z3.ToReal(_real_floor(a / b)))
    return SymInt(_int_mod(a, b))

  def __divmod__(self, o):
    return (self // o, self % o)

  def __rdivmod__(self, o):
    return (o // self, o % self)

  def __neg__(self):
    return _wrap(-self.t, isinstance(self, SymReal))

  def __pos__(self):
    return self

  def __abs__(self):
    return _wrap(z3.If(self.t >= 0, self.t, -self.t), isinstance(self, SymReal))

  def __pow__(self, o, mod=None):
    if mod is not None or is_sym(o):
      raise Unsupported('symbolic pow')
    o = _np_unwrap(o)
    if isinstance(o, int) and 0 <= o <= 4:
      r = 1
      for _ in range(o):
        r = r * self
      return r
    raise Unsupported('pow exponent %r' % (o,))

  def __rpow__(self, o):
    # e.g. 2 ** k with symbolic k: concretise k
    k = self.__index__() if isinstance(self, SymInt) else None
    if k is None:
      raise Unsupported('symbolic exponent')
    return o ** k

  # --- comparisons
  def _cmp(self, o, op):
    if not _numlike(o):
      return NotImplemented
    a, b, _ = _binop_terms(self, o)
    return SymBool(op(a, b))

  def __lt__(self, o):
    return self._cmp(o, f_lt)

  def __le__(self, o):
    return self._cmp(o, f_le)

  def __gt__(self, o):
    return self._cmp(o, f_gt)

  def __ge__(self, o):
    return self._cmp(o, f_ge)

  def __eq__(self, o):
    if o is None or isinstance(o, (str, bytes, tuple, list, dict, set,
                                   frozenset)):
      return False
    return self._cmp(o, f_eq)

  def __ne__(self, o):
    if o is None or isinstance(o, (str, bytes, tuple, list, dict, set,
                                   frozenset)):
      return True
    return self._cmp(o, f_ne)

  def __bool__(self):
    return explorer().branch(self.t != 0)


class SymInt(_SymBase):
  __slots__ = ()

  def __init__(self, t):
    self.t = t

  def __index__(self):
    return explorer().concretize_int(self.t)

  def __hash__(self):
    return hash(self.__index__())

  def __int__(self):
    if _called_from_format():
      return 0
    return self.__index__()

  def __float__(self):
    if _called_from_format():
      return 0.0
    raise Unsupported('float() of symbolic int reached C code')

  def __trunc__(self):
    return self

  def __floor__(self):
    return self

  def __ceil__(self):
    return self

  def __round__(self, n=None):
    return self

  # bit operations: concretise (finite domains only)
  def __and__(self, o):
    return self.__index__() & (o.__index__() if is_sym(o) else o)

  __rand__ = __and__

  def __or__(self, o):
    return self.__index__() | (o.__index__() if is_sym(o) else o)

  __ror__ = __or__

  def __xor__(self, o):
    return self.__index__() ^ (o.__index__() if is_sym(o) else o)

  def __lshift__(self, o):
    return self.__index__() << (o.__index__() if is_sym(o) else o)

  def __rlshift__(self, o):
    return o << self.__index__()

  def __rshift__(self, o):
    return self.__index__() >> (o.__index__() if is_sym(o) else o)

  def __rrshift__(self, o):
    return o >> self.__index__()


class SymReal(_SymBase):
  __slots__ = ()

  def __init__(self, t):
    self.t = t

  def __hash__(self):
    # only meaningful for reals with finitely many feasible values (times on a
    # grid); Fraction hashes agree with int / float hashes of equal numbers
    return hash(explorer().concretize_real(self.t))

  def __float__(self):
    if _called_from_format():
      return 0.0
    raise Unsupported('float() of symbolic real reached C code')

  def __int__(self):
    if _called_from_format():
      return 0
    raise Unsupported('int() of symbolic real reached C code (module not '
                      'instrumented?)')

  def __trunc__(self):
    return SymInt(z3.If(self.t >= 0, z3.ToInt(self.t), -z3.ToInt(-self.t)))

  def __floor__(self):
    return SymInt(z3.ToInt(self.t))

  def __ceil__(self):
    return SymInt(-z3.ToInt(-self.t))

  def __round__(self, n=None):
    if n is not None:
      # round to n decimals: nearest multiple of 10^-n (ties to even on the
      # scaled value; doubles-as-reals model)
      n = n.__index__() if is_sym(n) else int(n)
      scale = 10 ** n if n >= 0 else z3.Q(1, 10 ** -n)
      k = SymReal(self.t * scale).__round__()
      return SymReal(z3.ToReal(k.t) / scale)
    # banker's rounding
    f = z3.ToInt(self.t)
    frac = self.t - z3.ToReal(f)
    half = z3.Q(1, 2)
    return SymInt(
        z3.If(frac < half, f,
              z3.If(frac > half, f + 1, z3.If(f % 2 == 0, f, f + 1))))

  def is_integer(self):
    return SymBool(z3.IsInt(self.t))


class SymBool(object):
  __slots__ = ('t',)

  def __init__(self, t):
    self.t = t

  def __bool__(self):
    return explorer().branch(self.t)

  def __repr__(self):
    return '<symbool>'

  def __and__(self, o):
    return SymBool(z3.And(self.t, bool_term(o)))

  __rand__ = __and__

  def __or__(self, o):
    return SymBool(z3.Or(self.t, bool_term(o)))

  __ror__ = __or__

  def __invert__(self):
    return SymBool(z3.Not(self.t))

  def __eq__(self, o):
    if isinstance(o, (SymBool, bool)):
      return SymBool(self.t == bool_term(o))
    if _numlike(o):
      a, b, _ = _binop_terms(self, o)
      return SymBool(a == b)
    return False

  def __ne__(self, o):
    r = self.__eq__(o)
    if isinstance(r, SymBool):
      return SymBool(z3.Not(r.t))
    return not r

  def __hash__(self):
    return hash(bool(self))

  def __index__(self):
    return int(bool(self))

  def __int__(self):
    return int(bool(self))

  def __gt__(self, o):
    return SymInt(num_term(self)[0]) > o

  def __ge__(self, o):
    return SymInt(num_term(self)[0]) >= o

  def __lt__(self, o):
    return SymInt(num_term(self)[0]) < o

  def __le__(self, o):
    return SymInt(num_term(self)[0]) <= o

  # arithmetic on bools (True + 1 etc.) goes through ints
  def __add__(self, o):
    return SymInt(num_term(self)[0]) + o

  __radd__ = __add__

  def __mul__(self, o):
    return SymInt(num_term(self)[0]) * o

  __rmul__ = __mul__


# ---------------------------------------------------------------------------
# int / float replacements injected into analysed modules


class _IntMeta(type):

  def __instancecheck__(cls, obj):
    return isinstance(obj, (int, SymInt))


class sym_int(metaclass=_IntMeta):  # pylint: disable=invalid-name
  """Stands in for the builtin `int` inside instrumented modules."""

  def __new__(cls, x=0, *args):
    if args:
      return int(x, *args)
    if isinstance(x, SymInt):
      return x
    if isinstance(x, SymReal):
      return x.__trunc__()
    if isinstance(x, SymBool):
      return SymInt(num_term(x)[0])
    if hasattr(x, '__sym_int__'):
      return x.__sym_int__()
    return int(x)


class _FloatMeta(type):

  def __instancecheck__(cls, obj):
    return isinstance(obj, (float, SymReal))


class sym_float(metaclass=_FloatMeta):  # pylint: disable=invalid-name

  def __new__(cls, x=0.0):
    if isinstance(x, SymReal):
      return x
    if isinstance(x, (SymInt, SymBool)):
      return SymReal(real_term(x))
    if hasattr(x, '__sym_float__'):
      return x.__sym_float__()
    return float(x)


class _SymMath(object):
  """Stands in for `math` inside instrumented modules."""

  def __getattr__(self, name):
    return getattr(math, name)

  @staticmethod
  def floor(x):
    if is_sym(x):
      return x.__floor__()
    return math.floor(x)

  @staticmethod
  def ceil(x):
    if is_sym(x):
      return x.__ceil__()
    return math.ceil(x)

  @staticmethod
  def isnan(x):
    if is_sym(x):
      return False
    return math.isnan(x)

  @staticmethod
  def isinf(x):
    if is_sym(x):
      return False
    return math.isinf(x)

  @staticmethod
  def fabs(x):
    if is_sym(x):
      return abs(x)
    return math.fabs(x)


symmath = _SymMath()

# ---------------------------------------------------------------------------
# non-forking helpers for oracles (work on plain values too)


def And(*xs):
  if len(xs) == 1 and isinstance(xs[0], (list, tuple)):
    xs = tuple(xs[0])
  if not any(isinstance(x, (SymBool, z3.BoolRef)) for x in xs):
    return all(bool(x) for x in xs)
  ts = []
  for x in xs:
    if isinstance(x, (SymBool, z3.BoolRef)):
      ts.append(bool_term(x))
    elif not x:
      return False
  return SymBool(f_and(ts)) if ts else True


def Or(*xs):
  if len(xs) == 1 and isinstance(xs[0], (list, tuple)):
    xs = tuple(xs[0])
  if not any(isinstance(x, (SymBool, z3.BoolRef)) for x in xs):
    return any(bool(x) for x in xs)
  ts = []
  for x in xs:
    if isinstance(x, (SymBool, z3.BoolRef)):
      ts.append(bool_term(x))
    elif x:
      return True
  return SymBool(f_or(ts)) if ts else False


def Not(x):
  if isinstance(x, SymBool):
    return SymBool(f_not(x.t))
  return not x


def Implies(a, b):
  return Or(Not(a), b)


def If(c, a, b):
  """Non-forking if-then-else on numbers/bools."""
  if not isinstance(c, SymBool):
    return a if c else b
  if a is b:
    return a
  if isinstance(a, (SymBool, bool)) and isinstance(b, (SymBool, bool)):
    return SymBool(f_ite(c.t, bool_term(a), bool_term(b)))
  ta, tb, r = _binop_terms(a, b)
  return _wrap(f_ite(c.t, ta, tb), r)


def Min(*xs):
  if len(xs) == 1 and isinstance(xs[0], (list, tuple)):
    xs = tuple(xs[0])
  r = xs[0]
  for x in xs[1:]:
    r = If(x < r, x, r)
  return r


def Max(*xs):
  if len(xs) == 1 and isinstance(xs[0], (list, tuple)):
    xs = tuple(xs[0])
  r = xs[0]
  for x in xs[1:]:
    r = If(x > r, x, r)
  return r


def Floor(x):
  if is_sym(x):
    return x.__floor__()
  if isinstance(x, Fraction):
    return x.numerator // x.denominator
  return math.floor(x)


def Ceil(x):
  if is_sym(x):
    return x.__ceil__()
  return math.ceil(x)


def Eq(a, b):
  """Non-forking equality usable on numbers, bools, strings, None."""
  if a is b:
    return True
  if is_sym(a) or is_sym(b):
    if isinstance(a, (SymBool, bool)) and isinstance(b, (SymBool, bool)):
      ta, tb = bool_term(a), bool_term(b)
      if same_term(ta, tb):
        return True
      return SymBool(f_eq(ta, tb))
    if a is None or b is None or isinstance(a, str) or isinstance(b, str):
      return False
    ta, tb, _ = _binop_terms(a, b)
    if same_term(ta, tb):
      return True
    return SymBool(f_eq(ta, tb))
  return a == b


def defined_int(prefix, constraint_fn):
  """A fresh integer constant k constrained by constraint_fn(k) (a z3 Bool that
  must determine k uniquely).  Keeps deeply nested ToInt/ite terms out of the
  path condition."""
  ex = explorer()
  n = ex.aux_counter
  ex.aux_counter += 1
  k = z3.Int('%s!%d' % (prefix, n))
  ex.assume(SymBool(constraint_fn(k)))
  return SymInt(k)


def round_nearest(x, ties='even'):
  """Nearest integer to the real x; ties to even (Python round) or up."""
  if not is_sym(x):
    if ties == 'even':
      return round(x)
    return math.floor(x + 0.5)
  t = z3.simplify(real_term(x))
  half = z3.Q(1, 2)
  ex = explorer()
  key = (t.get_id(), ties)
  hit = ex.round_cache.get(key)
  if hit is not None:
    return hit[0]

  def cons(k):
    kr = z3.ToReal(k)
    if ties == 'even':
      return z3.And(t - kr <= half, kr - t <= half,
                    z3.Implies(t - kr == half, k % 2 == 0),
                    z3.Implies(kr - t == half, k % 2 == 0))
    return z3.And(t - kr < half, kr - t <= half)

  r = defined_int('round', cons)
  ex.round_cache[key] = (r, t)  # keep t alive so that its id stays unique
  return r


def Sum(xs):
  r = 0
  for x in xs:
    r = r + x
  return r


def Count(conds):
  """Number of true conditions, as a (possibly symbolic) int."""
  r = 0
  for c in conds:
    r = r + If(c, 1, 0)
  return r


# ---------------------------------------------------------------------------
# Explorer


class _Entry(object):
  __slots__ = ('val', 'forced', 'payload', 'flipped', 'trivial', 'aid',
               'cterm')

  def __init__(self, val, forced, payload=None):
    self.val = val
    self.forced = forced
    self.payload = payload
    self.flipped = False
    self.trivial = False
    self.aid = None  # z3 AST id of the (simplified) condition
    self.cterm = None  # keeps that AST (hence its id) alive


class Stats(object):

  def __init__(self):
    self.paths = 0
    self.aborted_paths = 0
    self.decisions = 0
    self.queries = 0
    self.solver_s = 0.0
    self.checks = 0
    self.checks_unsat = 0
    self.max_depth = 0
    self.covers = {}
    self.check_labels = {}

  def as_dict(self):
    return dict(self.__dict__)


MAX_CONCRETIZE = 400


class Explorer(object):
  """Depth-first exploration of a harness by decision replay."""

  def __init__(self, timeout_ms=20000, prefer_dyadic=True, prefix=None,
               max_paths=None, deadline=None):
    self.solver = z3.Solver()
    self.solver.set('timeout', timeout_ms)
    self.timeout_ms = timeout_ms
    self.log = []
    if prefix:
      for val, payload in prefix:
        e = _Entry(val, True, payload)  # prefix entries are never flipped
        self.log.append(e)
    self.pos = 0
    self.frames = 0  # number of solver frames pushed (== log entries encoded)
    self.keep = -1  # log index from which constraints must be (re)added
    self.stats = Stats()
    self.inputs = []  # (name, kind, term) declared on the current run
    self.prefer_dyadic = prefer_dyadic
    self.max_paths = max_paths
    self.deadline = deadline
    self.names = set()
    self.cover_wanted = {}
    self.exhausted = False
    self.aux_counter = 0
    self.round_cache = {}
    self.decided = {}  # AST id -> value, for conditions decided on this path

  # -- solver plumbing
  def _check(self, extra=None):
    t0 = time.time()
    if extra is not None:
      self.solver.push()
      self.solver.add(extra)
      r = self.solver.check()
      self.solver.pop()
    else:
      r = self.solver.check()
    if r == z3.unknown and 'interrupt' not in self.solver.reason_unknown():
      # one retry with a six-fold time limit (a loaded machine, or a query just
      # over the per-query limit) before the job is declared inconclusive
      self.solver.set('timeout', 6 * self.timeout_ms)
      try:
        if extra is not None:
          self.solver.push()
          self.solver.add(extra)
          r = self.solver.check()
          self.solver.pop()
        else:
          r = self.solver.check()
      finally:
        self.solver.set('timeout', self.timeout_ms)
      self.stats.retried_queries = getattr(self.stats, 'retried_queries', 0) + 1
    self.stats.solver_s += time.time() - t0
    self.stats.queries += 1
    if r == z3.unknown:
      raise Inconclusive('solver returned unknown: %s' %
                         self.solver.reason_unknown())
    return r == z3.sat

  def _add_here(self, term):
    """Adds a constraint belonging to the frame of the last log entry."""
    if self.pos > self.keep:
      self.solver.add(term)

  def fresh_name(self, name):
    if name in self.names:
      raise Unsupported('duplicate input name %s' % name)
    self.names.add(name)
    return name

  # -- decisions
  def branch(self, cond, payload=None):
    # Every symbolic condition gets a log entry (also trivially decided ones),
    # so replays need neither simplification nor solver calls.
    i = self.pos
    if i < len(self.log):
      e = self.log[i]
      self.pos += 1
      if i >= self.frames:
        self.solver.push()
        if not e.trivial:
          self.solver.add(cond if e.val else f_not(cond))
        self.frames += 1
      return e.val
    # fresh decision
    if self.deadline and time.time() > self.deadline:
      raise BudgetExceeded()
    if len(self.log) > 20000:
      raise Unsupported('path deeper than 20000 decisions (unbounded loop?)')
    c = z3.simplify(cond)
    aid = None
    if z3.is_true(c) or z3.is_false(c):
      e = _Entry(z3.is_true(c), True, payload)
      e.trivial = True
    elif c.get_id() in self.decided:
      # the very same condition was decided earlier on this path
      e = _Entry(self.decided[c.get_id()], True, payload)
      e.trivial = True
    else:
      aid = c.get_id()
      can_true = self._check(c)
      if not can_true:
        e = _Entry(False, True, payload)
      else:
        can_false = self._check(f_not(c))
        if not can_false:
          e = _Entry(True, True, payload)
        else:
          e = _Entry(True, False, payload)
          self.stats.decisions += 1
    if aid is not None:
      e.aid = aid
      self.decided[aid] = e.val
      e.cterm = c
    self.log.append(e)
    self.pos += 1
    self.solver.push()
    if not e.trivial:
      self.solver.add(c if e.val else f_not(c))
    self.frames += 1
    if len(self.log) > self.stats.max_depth:
      self.stats.max_depth = len(self.log)
    return e.val

  def concretize_int(self, term):
    t = z3.simplify(term)
    if z3.is_int_value(t):
      return t.as_long()
    for _ in range(MAX_CONCRETIZE):
      if self.pos < len(self.log):
        v = self.log[self.pos].payload
        if v is None:
          raise Unsupported('replay divergence in concretize')
      else:
        if not self._check():
          raise Unsupported('path condition unsat in concretize')
        v = self.solver.model().eval(t, model_completion=True).as_long()
      if self.branch(t == v, payload=v):
        return v
    raise Unsupported('concretisation of an unbounded integer (more than %d '
                      'values)' % MAX_CONCRETIZE)

  def concretize_real(self, term):
    """Pins a real term that has finitely many feasible values (e.g. a time on
    a grid k/4 with bounded integer k) to one of them, forking over all."""
    import fractions  # pylint: disable=g-import-not-at-top
    t = z3.simplify(term)
    if z3.is_rational_value(t):
      return fractions.Fraction(t.numerator_as_long(), t.denominator_as_long())
    for _ in range(MAX_CONCRETIZE):
      if self.pos < len(self.log):
        v = self.log[self.pos].payload
        if v is None:
          raise Unsupported('replay divergence in concretize')
      else:
        if not self._check():
          raise Unsupported('path condition unsat in concretize')
        mv = self.solver.model().eval(t, model_completion=True)
        if not z3.is_rational_value(mv):
          raise Unsupported('non-rational model value in concretize_real')
        v = (mv.numerator_as_long(), mv.denominator_as_long())
      if self.branch(t == z3.RealVal(fractions.Fraction(v[0], v[1])),
                     payload=v):
        return fractions.Fraction(v[0], v[1])
    raise Unsupported('concretisation of a real with more than %d feasible '
                      'values' % MAX_CONCRETIZE)

  # -- harness-facing API
  def retained(self):
    """True while replaying a part of the path whose constraints are still in
    the solver (nothing needs to be re-added or re-checked)."""
    return self.pos <= self.keep

  def assume(self, cond):
    if not isinstance(cond, (SymBool, z3.BoolRef)):
      if not cond:
        raise PathAbort()
      return
    c = z3.simplify(bool_term(cond))
    if z3.is_true(c):
      return
    if z3.is_false(c):
      raise PathAbort()
    if self.pos > self.keep:
      self.solver.add(c)
      if self.pos >= len(self.log):
        # only need a feasibility check on fresh ground
        if not self._check():
          raise PathAbort()
    # when replaying a retained frame the assumption is already in the solver

  def model_values(self, extra=None):
    """A model of the current path condition as {input name: python value}."""
    s = self.solver
    got = False
    if self.prefer_dyadic:
      reals = [t for (_, k, t) in self.inputs if k == 'real']
      if reals:
        s.push()
        if extra is not None:
          s.add(extra)
        for t in reals:
          s.add(z3.IsInt(t * 16))
        t0 = time.time()
        s.set('timeout', 2000)
        r = s.check()
        s.set('timeout', 20000)
        self.stats.solver_s += time.time() - t0
        self.stats.queries += 1
        if r == z3.sat:
          m = s.model()
          got = True
        s.pop()
    # integer and boolean inputs are always exact; a real input is exact when
    # its value is a dyadic rational (checked below), whether or not the
    # dyadic search above succeeded
    exact = True
    if not got:
      if extra is not None:
        s.push()
        s.add(extra)
      ok = self._check()
      if ok:
        m = s.model()
      if extra is not None:
        s.pop()
      if not ok:
        return None, False
    vals = {}
    for name, kind, t in self.inputs:
      v = m.eval(t, model_completion=True)
      if kind == 'int':
        vals[name] = v.as_long()
      elif kind == 'bool':
        vals[name] = bool(z3.is_true(v))
      else:
        if z3.is_algebraic_value(v):
          v = v.approx(20)
        fr = Fraction(v.numerator_as_long(), v.denominator_as_long())
        vals[name] = [fr.numerator, fr.denominator]
        try:
          representable = Fraction(float(fr)) == fr
        except OverflowError:
          representable = False
        if not representable:
          exact = False  # the double the real stack gets is not this value
    return vals, exact

  def check(self, cond, label):
    st = self.stats
    st.checks += 1
    st.check_labels[label] = st.check_labels.get(label, 0) + 1
    if not isinstance(cond, (SymBool, z3.BoolRef)):
      if cond:
        st.checks_unsat += 1
        return
      vals, exact = self.model_values()
      raise Violation(label, vals, 'concrete false; exact=%s' % exact)
    c = z3.simplify(bool_term(cond))
    if z3.is_true(c):
      st.checks_unsat += 1
      return
    neg = z3.Not(c)
    if self._check(neg):
      vals, exact = self.model_values(extra=neg)
      raise Violation(label, vals, 'exact=%s' % exact)
    st.checks_unsat += 1

  def cover(self, label, cond=True):
    if self.stats.covers.get(label):
      return
    if not isinstance(cond, (SymBool, z3.BoolRef)):
      if cond:
        self.stats.covers[label] = 1
      else:
        self.stats.covers.setdefault(label, 0)
      return
    if self._check(bool_term(cond)):
      self.stats.covers[label] = 1
    else:
      self.stats.covers.setdefault(label, 0)

  # -- driving
  def _begin_run(self):
    self.pos = 0
    self.inputs = []
    self.names = set()
    self.aux_counter = 0
    self.round_cache = {}

  def _next_prefix(self):
    """Truncates the log to the deepest open alternative; False if none."""
    i = len(self.log) - 1
    while i >= 0:
      e = self.log[i]
      if not e.forced and not e.flipped:
        break
      i -= 1
    if i < 0:
      return False
    del self.log[i + 1:]
    e = self.log[i]
    e.val = not e.val
    e.flipped = True
    self.decided = {x.aid: x.val for x in self.log if x.aid is not None}
    # pop solver frames i..end
    while self.frames > i:
      self.solver.pop()
      self.frames -= 1
    self.keep = i
    return True

  def explore(self, harness, on_path=None):
    """Runs harness(self) over every feasible path.

    Returns list of Violation objects (exploration continues past a violating
    path).  Raises Unsupported / Inconclusive to the caller.
    """
    global _EX
    violations = []
    _EX = self
    try:
      while True:
        self._begin_run()
        try:
          harness(self)
          self.stats.paths += 1
          if on_path is not None:
            on_path(self)
        except PathAbort:
          self.stats.aborted_paths += 1
        except Violation as v:
          self.stats.paths += 1
          v.decisions = ''.join('1' if e.val else '0' for e in self.log)
          violations.append(v)
          if len(violations) >= 3:
            return violations
        if self.max_paths and self.stats.paths >= self.max_paths:
          return violations
        if self.deadline and time.time() > self.deadline:
          return violations
        if not self._next_prefix():
          self.exhausted = True
          return violations
    finally:
      _EX = None

  def decision_string(self):
    return ''.join('1' if e.val else '0' for e in self.log)


# a symbolic number is a number: `isinstance(x, numbers.Number)` in analysed
# code (encoder_decoder.extend_event_sequences) must not take the branch for
# non-numeric values
import numbers as _numbers  # pylint: disable=g-import-not-at-top
_numbers.Number.register(SymInt)
_numbers.Number.register(SymReal)
