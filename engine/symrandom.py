"""Stands in for `random` inside instrumented modules: every draw is a fresh
symbolic input constrained only to the documented range."""
import z3

from engine import symex


def _fresh(kind, base):
  ex = symex.explorer()
  n = 0
  while '%s%d' % (base, n) in ex.names:
    n += 1
  name = ex.fresh_name('%s%d' % (base, n))
  t = z3.Real(name) if kind == 'real' else z3.Int(name)
  ex.inputs.append((name, kind, t))
  return t


def uniform(a, b):
  t = _fresh('real', 'rand_uniform_')
  ex = symex.explorer()
  ex.assume(symex.SymBool(t >= symex.real_term(a)))
  ex.assume(symex.SymBool(t <= symex.real_term(b)))
  return symex.SymReal(t)


def randint(a, b):
  t = _fresh('int', 'rand_int_')
  ex = symex.explorer()
  ta, _ = symex.num_term(a)
  tb, _ = symex.num_term(b)
  ex.assume(symex.SymBool(t >= ta))
  ex.assume(symex.SymBool(t <= tb))
  return symex.SymInt(t)


def random():
  return uniform(0, 1)


def __getattr__(name):
  raise symex.Unsupported('random.%s is not modelled' % name)
