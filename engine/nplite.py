"""np-lite -- the handful of numpy entry points the analysed functions use, on
nested Python lists whose elements may be symbolic.  Anything not modelled
raises Unsupported (never silently falls back to numpy on proxies)."""
import math as _math

import numpy as _np

from engine import symex
from engine.symex import Unsupported

float32 = _np.float32
floating = _np.floating
iinfo = _np.iinfo
dtype = _np.dtype
float64 = _np.float64
int32 = _np.int32
uint8 = _np.uint8
int8 = _np.int8
int16 = _np.int16
uint16 = _np.uint16
uint32 = _np.uint32
int64 = _np.int64
bool_ = _np.bool_
inf = _np.inf
newaxis = None
pi = _np.pi


def _is_seq(x):
  return isinstance(x, (list, tuple, Arr))


def _shape_of(d):
  if isinstance(d, Arr):
    return d.shape
  if isinstance(d, (list, tuple)):
    if not d:
      return (0,)
    return (len(d),) + _shape_of(d[0])
  return ()


def _to_data(x):
  if isinstance(x, Arr):
    return [_to_data(e) for e in x.data] if x.ndim > 0 else x.data
  if isinstance(x, (list, tuple)):
    return [_to_data(e) for e in x]
  if type(x).__module__ == 'numpy':
    if getattr(x, 'shape', ()) == ():
      return x.item()
    return x.tolist()
  return x


def _idx(i, n):
  if symex.is_sym(i):
    i = i.__index__()
  i = int(i)
  if i < 0:
    i += n
  if not 0 <= i < n:
    raise IndexError('index %d is out of bounds for axis with size %d' % (i, n))
  return i


def _conc_slice(s, n):
  def cv(x):
    if x is None:
      return None
    if symex.is_sym(x):
      return x.__index__()
    return int(x)
  return slice(cv(s.start), cv(s.stop), cv(s.step)).indices(n)


_INT_DTYPES = {}


def _wrap_store(v, wrap):
  """C-style wrap-around of an integer stored into a narrow integer array."""
  if wrap is None:
    return v
  lo, mod = wrap
  if isinstance(v, list):
    return [_wrap_store(x, wrap) for x in v]
  if isinstance(v, symex.SymInt):
    return (v - lo) % mod + lo
  if isinstance(v, bool) or not isinstance(v, int):
    return v
  return (v - lo) % mod + lo


class Arr(object):
  """N-d array as nested lists (row major)."""

  dtype = None  # only recorded when the harness sets it (make_stereo)

  def __init__(self, data, wrap=None):
    self.data = data
    self.shape = _shape_of(data)
    self.wrap = wrap  # (lowest value, modulus) for narrow integer dtypes

  @property
  def ndim(self):
    return len(self.shape)

  @property
  def T(self):
    if self.ndim != 2:
      raise Unsupported('T on ndim %d' % self.ndim)
    r, c_ = self.shape
    return Arr([[self.data[i][j] for i in range(r)] for j in range(c_)])

  def __len__(self):
    return self.shape[0]

  def __iter__(self):
    for e in self.data:
      yield Arr(e) if isinstance(e, list) else e

  def tolist(self):
    return _to_data(self)

  def copy(self):
    return Arr(_to_data(self))

  def astype(self, dtype):
    r = self.copy()
    if dtype in _INT_DTYPES or dtype in (int, int32, int64):
      # C cast of floating-point samples: truncation toward zero
      def cast(d):
        return [cast(e) if isinstance(e, list) else
                (e if isinstance(e, (int, symex.SymInt)) else _math.trunc(e))
                for e in d]
      r.data = cast(r.data)
    if self.dtype is not None:
      r.dtype = _np.dtype(dtype)
    return r

  def _inplace(self, o, f):
    """In-place operators write through to the caller's array, as numpy's
    do (slices are copies here, not views: in-place updates through a view are
    outside the model)."""
    r = self._ew(o, f)
    if not isinstance(r, Arr) or r.shape != self.shape:
      raise ValueError('non-broadcastable output operand')
    self._fill(self.data, r.data)
    return self

  def __iadd__(self, o):
    return self._inplace(o, lambda a, b: a + b)

  def __isub__(self, o):
    return self._inplace(o, lambda a, b: a - b)

  def __imul__(self, o):
    return self._inplace(o, lambda a, b: a * b)

  def __itruediv__(self, o):
    return self._inplace(o, lambda a, b: a / b)

  def reshape(self, *shape):
    if len(shape) == 1 and isinstance(shape[0], tuple):
      shape = shape[0]
    flat = self.flatten().data
    if shape == (-1, 2):
      return Arr([flat[i:i + 2] for i in range(0, len(flat), 2)])
    raise Unsupported('reshape %r' % (shape,))

  def flatten(self):
    out = []

    def rec(d):
      if isinstance(d, list):
        for e in d:
          rec(e)
      else:
        out.append(d)

    rec(self.data)
    return Arr(out)

  # ---- indexing
  def _norm_key(self, key):
    if not isinstance(key, tuple):
      key = (key,)
    return key

  def __getitem__(self, key):
    key = self._norm_key(key)
    if (len(key) == 2 and key[1] is None and isinstance(key[0], slice) and
        self.ndim == 1 and key[0] == slice(None)):
      return Arr([[x] for x in self.data])
    if len(key) == 2 and isinstance(key[0], Arr) and (
        _is_seq(key[1]) or isinstance(key[1], range)):
      # fancy: mat[idx_array, range(n)] -> element-wise select
      rows = key[0].data
      cols = list(key[1].data if isinstance(key[1], Arr) else key[1])
      return Arr([self._select_row(r, c_) for r, c_ in zip(rows, cols)])
    d = self._get(self.data, key, self.shape)
    return Arr(d) if isinstance(d, list) else d

  def _select_row(self, r, col):
    """self[r, col] with possibly symbolic r: if-then-else select."""
    if not symex.is_sym(r):
      return self.data[_idx(r, self.shape[0])][col]
    res = self.data[self.shape[0] - 1][col]
    for i in range(self.shape[0] - 2, -1, -1):
      res = symex.If(r == i, self.data[i][col], res)
    return res

  def _get(self, d, key, shape):
    if not key:
      return d
    k, rest = key[0], key[1:]
    if isinstance(k, slice):
      st, en, sp = _conc_slice(k, shape[0])
      return [self._get(d[i], rest, shape[1:]) for i in range(st, en, sp)]
    if isinstance(k, (Arr, list)):
      idxs = k.data if isinstance(k, Arr) else k
      if (not rest and len(idxs) == shape[0] and idxs and all(
          isinstance(i, (bool, _np.bool_, symex.SymBool)) for i in idxs)):
        # 1-d boolean mask (symbolic entries fork)
        return [d[j] for j, m in enumerate(idxs) if bool(m)]
      if all(isinstance(i, int) and not isinstance(i, bool) for i in idxs) and (
          not any(isinstance(r, (Arr, list)) for r in rest)):
        # one list of concrete integers, the other axes sliced: a[idx, :]
        return [self._get(d[_idx(i, shape[0])], rest, shape[1:]) for i in idxs]
      raise Unsupported('fancy indexing')
    i = _idx(k, shape[0])
    return self._get(d[i], rest, shape[1:])

  def __setitem__(self, key, value):
    if isinstance(key, tuple) and len(key) == 2 and all(
        isinstance(k, (list, Arr)) for k in key) and not isinstance(
            key[0], slice):
      # result of where(): (rows, cols)
      rows = key[0].data if isinstance(key[0], Arr) else key[0]
      cols = key[1].data if isinstance(key[1], Arr) else key[1]
      for r, c_ in zip(rows, cols):
        self.data[r][c_] = value
      return
    if isinstance(key, Arr) and key.ndim >= 2 and key.shape == self.shape:
      # boolean mask of the array's own shape: row-major assignment
      flat_mask = key.flatten().data
      if not all(isinstance(m, (bool, _np.bool_)) for m in flat_mask):
        raise Unsupported('symbolic boolean mask assignment')
      vals = _to_data(value)
      if isinstance(vals, list):
        if len(vals) != sum(1 for m in flat_mask if m):
          raise ValueError('NumPy boolean array indexing assignment cannot '
                           'assign %d input values to the %d output values '
                           'where the mask is true' % (
                               len(vals), sum(1 for m in flat_mask if m)))
        it = iter(vals)
      pos = [0]

      def rec(d, m):
        for j in range(len(d)):
          if isinstance(d[j], list):
            rec(d[j], m[j])
          elif m[j]:
            d[j] = next(it) if isinstance(vals, list) else vals
      rec(self.data, key.data)
      return
    if isinstance(key, (list, Arr)) and self.ndim == 1:
      idxs = key.data if isinstance(key, Arr) else key
      vals = _to_data(value)
      for n, i in enumerate(idxs):
        self.data[_idx(i, self.shape[0])] = (vals[n] if isinstance(vals, list)
                                             else vals)
      return
    key = self._norm_key(key)
    value = _wrap_store(_to_data(value), self.wrap)
    self._set(self.data, key, self.shape, value)

  def _set(self, d, key, shape, value):
    k, rest = key[0], key[1:]
    if isinstance(k, slice):
      st, en, sp = _conc_slice(k, shape[0])
      idxs = list(range(st, en, sp))
      for n, i in enumerate(idxs):
        if isinstance(value, list) and (not rest or True):
          if len(value) != len(idxs):
            raise ValueError('could not broadcast input array from shape (%d,) '
                             'into shape (%d,)' % (len(value), len(idxs)))
          v = value[n]
        else:
          v = value
        if rest:
          self._set(d[i], rest, shape[1:], v)
        elif len(shape) > 1:
          self._fill(d[i], v)
        else:
          d[i] = v
      return
    i = _idx(k, shape[0])
    if rest:
      self._set(d[i], rest, shape[1:], value)
    elif len(shape) > 1:
      self._fill(d[i], value)
    else:
      d[i] = value

  def _fill(self, d, v):
    for j in range(len(d)):
      if isinstance(d[j], list):
        self._fill(d[j], v[j] if isinstance(v, list) else v)
      else:
        d[j] = v[j] if isinstance(v, list) else v

  # ---- element-wise
  def _ew(self, o, f):
    """Element-wise f with numpy broadcasting (shapes aligned on the trailing
    axes, axes of length 1 stretched)."""
    o = _to_data(o)

    def shape_of(d):
      sh = []
      while isinstance(d, list):
        sh.append(len(d))
        if not d:
          break
        d = d[0]
      return tuple(sh)

    def rec(a, sa, b, sb):
      if not sa and not sb:
        return f(a, b)
      if len(sa) > len(sb):
        return [rec(x, sa[1:], b, sb) for x in a]
      if len(sb) > len(sa):
        return [rec(a, sa, y, sb[1:]) for y in b]
      if sa[0] == sb[0]:
        return [rec(x, sa[1:], y, sb[1:]) for x, y in zip(a, b)]
      if sb[0] == 1:
        return [rec(x, sa[1:], b[0], sb[1:]) for x in a]
      if sa[0] == 1:
        return [rec(a[0], sa[1:], y, sb[1:]) for y in b]
      raise ValueError('operands could not be broadcast together with shapes '
                       '%r %r' % (sa, sb))

    r = rec(self.data, shape_of(self.data), o, shape_of(o))
    if isinstance(r, list):
      r = Arr(r)
      if self.dtype is not None:
        r.dtype = self.dtype  # recorded dtypes follow arithmetic results
    return r

  def __add__(self, o):
    return self._ew(o, lambda a, b: a + b)

  __radd__ = __add__

  def __sub__(self, o):
    return self._ew(o, lambda a, b: a - b)

  def __rsub__(self, o):
    return self._ew(o, lambda a, b: b - a)

  def __mul__(self, o):
    return self._ew(o, lambda a, b: a * b)

  __rmul__ = __mul__

  def __truediv__(self, o):
    return self._ew(o, lambda a, b: a / b)

  def __neg__(self):
    return self._ew(0, lambda a, b: -a)

  def __mod__(self, o):
    return self._ew(o, lambda a, b: a % b)

  def __floordiv__(self, o):
    return self._ew(o, lambda a, b: a // b)

  def __gt__(self, o):
    return self._ew(o, lambda a, b: a > b)

  def __ge__(self, o):
    return self._ew(o, lambda a, b: a >= b)

  def __lt__(self, o):
    return self._ew(o, lambda a, b: a < b)

  def __le__(self, o):
    return self._ew(o, lambda a, b: a <= b)

  def __eq__(self, o):
    return self._ew(o, lambda a, b: a == b)

  def __ne__(self, o):
    return self._ew(o, lambda a, b: a != b)

  __hash__ = None

  def __bool__(self):
    if self.shape in ((), (1,)):
      return bool(self.flatten().data[0])
    raise ValueError('The truth value of an array with more than one element '
                     'is ambiguous.')

  def sum(self, axis=None):
    if axis is None:
      return symex.Sum(self.flatten().data)
    return sum_(self, axis)

  def any(self):
    return any(bool(x) for x in self.flatten().data)

  def all(self):
    return all(bool(x) for x in self.flatten().data)

  def max(self):
    return max(self.flatten().data)

  def min(self):
    return min(self.flatten().data)

  def argmax(self, axis=None):
    return argmax(self, axis)

  def __repr__(self):
    return 'Arr(shape=%r)' % (self.shape,)


ndarray = Arr


_INT_DTYPES.update({_np.uint8: (0, 256), _np.int8: (-128, 256),
                    _np.uint16: (0, 65536), _np.int16: (-32768, 65536)})


def _full(shape, v):
  if isinstance(shape, (int, symex.SymInt)):
    shape = (shape,)
  shape = tuple(s.__index__() if symex.is_sym(s) else int(s) for s in shape)
  for s in shape:
    if s < 0:
      raise ValueError('negative dimensions are not allowed')

  def rec(sh):
    if len(sh) == 1:
      return [v] * sh[0]
    return [rec(sh[1:]) for _ in range(sh[0])]

  return Arr(rec(shape))


def zeros(shape, dtype=None):
  if dtype in (bool, bool_):
    return _full(shape, False)
  if dtype in _INT_DTYPES:
    a = _full(shape, 0)
    a.wrap = _INT_DTYPES[dtype]
    return a
  return _full(shape, 0 if dtype in (int32, int64, int, uint8, int8, int16,
                                     uint16, uint32) else 0.0)


def ones(shape, dtype=None):
  return _full(shape, 1 if dtype in (int32, int64, int) else 1.0)


def full(shape, v, dtype=None):
  return _full(shape, v)


def zeros_like(a, dtype=None):
  return zeros(_shape_of(a), dtype)


def ones_like(a, dtype=None):
  return ones(_shape_of(a), dtype)


def array(x, dtype=None):
  if isinstance(x, Arr):
    return x.copy()
  d = _to_data(x)
  if not isinstance(d, list):
    return d
  return Arr(d)


asarray = array


def append(arr, values, axis=None):
  if axis != 0:
    raise Unsupported('append axis %r' % (axis,))
  a = _to_data(arr)
  v = _to_data(values)
  return Arr(list(a) + list(v))


def concatenate(arrs, axis=0):
  if axis != 0:
    raise Unsupported('concatenate axis')
  out = []
  for a in arrs:
    out.extend(_to_data(a))
  return Arr(out)


def stack(arrs, axis=0):
  if axis != 0:
    raise Unsupported('stack axis')
  ds = [_to_data(a) for a in arrs]
  if len(set(len(d) for d in ds)) > 1:
    raise ValueError('all input arrays must have the same shape')
  return Arr([list(d) for d in ds])


def resize(a, new_shape):
  """numpy.resize: the flattened input repeated cyclically (zeros only for an
  empty input)."""
  flat = array(a).flatten().data if _is_seq(a) else [a]
  if isinstance(new_shape, (tuple, list)):
    if len(new_shape) != 1:
      raise Unsupported('resize to ndim > 1')
    new_shape = new_shape[0]
  n = new_shape.__index__() if symex.is_sym(new_shape) else int(new_shape)
  if not flat:
    return Arr([0] * n)
  return Arr([flat[i % len(flat)] for i in range(n)])


def hstack(arrs):
  ds = [_to_data(a) for a in arrs]
  if all(not isinstance(d[0], list) for d in ds if d):
    out = []
    for d in ds:
      out.extend(d)
    return Arr(out)
  raise Unsupported('hstack of 2-d')


def tile(a, reps):
  d = _to_data(a)
  if isinstance(reps, list):
    reps = tuple(reps)
  if (isinstance(reps, tuple) and len(reps) == 2 and reps[0] == 1 and d and
      isinstance(d[0], list)):
    return Arr([list(row) * reps[1] for row in d])
  if isinstance(reps, tuple):
    if len(reps) == 2 and not isinstance(d[0], list):
      row = d * reps[1]
      return Arr([list(row) for _ in range(reps[0])])
    raise Unsupported('tile reps %r' % (reps,))
  return Arr(d * reps)


def _as_bool(x):
  if isinstance(x, symex.SymBool):
    return x
  if symex.is_sym(x):
    return x != 0
  return bool(x)


def logical_or(a, b):
  return array(a)._ew(b, lambda x, y: symex.Or(_as_bool(x), _as_bool(y)))


def logical_and(a, b):
  return array(a)._ew(b, lambda x, y: symex.And(_as_bool(x), _as_bool(y)))


def where(cond, *rest):
  if rest:
    return _where3(cond, rest[0], rest[1])
  return nonzero(cond)


def _where3(cond, a, b):
  cd = _to_data(cond)
  ad = _to_data(a)
  bd = _to_data(b)

  def rec(c_, x, y):
    if isinstance(c_, list):
      return [
          rec(ci, x[i] if isinstance(x, list) else x,
              y[i] if isinstance(y, list) else y) for i, ci in enumerate(c_)
      ]
    return symex.If(_as_bool(c_), x, y) if isinstance(
        _as_bool(c_), symex.SymBool) else (x if c_ else y)

  return Arr(rec(cd, ad, bd))


def nonzero(a):
  a = array(a)
  if a.ndim == 1:
    return (Arr([i for i, x in enumerate(a.data) if bool(_as_bool(x))]),)
  if a.ndim == 2:
    rows, cols = [], []
    for i, r in enumerate(a.data):
      for j, x in enumerate(r):
        if bool(_as_bool(x)):
          rows.append(i)
          cols.append(j)
    return (Arr(rows), Arr(cols))
  raise Unsupported('nonzero ndim')


def arange(*args):
  if len(args) == 1:
    start, stop, step = 0, args[0], 1
  elif len(args) == 2:
    start, stop, step = args[0], args[1], 1
  else:
    start, stop, step = args
  if not any(symex.is_sym(x) for x in (start, stop, step)):
    return Arr(_np.arange(start, stop, step).tolist())
  n = symex.Ceil((stop - start) / step)
  n = n.__index__() if symex.is_sym(n) else int(n)
  n = max(n, 0)
  return Arr([start + i * step for i in range(n)])


def argmax(a, axis=None):
  a = array(a)
  if a.ndim == 1 and axis in (None, 0):
    return _argmax_list(a.data)
  if a.ndim == 2 and axis == 0:
    r, c_ = a.shape
    return Arr([_argmax_list([a.data[i][j] for i in range(r)])
                for j in range(c_)])
  if a.ndim == 2 and axis == 1:
    return Arr([_argmax_list(row) for row in a.data])
  raise Unsupported('argmax axis %r ndim %d' % (axis, a.ndim))


def _argmax_list(xs):
  """First index of the maximum, as an if-then-else chain (no fork)."""
  if not any(symex.is_sym(x) for x in xs):
    best = 0
    for i, x in enumerate(xs):
      if x > xs[best]:
        best = i
    return best
  best_i = len(xs) - 1
  best_v = xs[-1]
  for i in range(len(xs) - 2, -1, -1):
    take = xs[i] >= best_v
    best_i = symex.If(take, i, best_i)
    best_v = symex.If(take, xs[i], best_v)
  return best_i


def max_(a, axis=None):
  a = array(a)
  if axis is None:
    return symex.Max(a.flatten().data)
  if a.ndim == 2 and axis == 0:
    r, c_ = a.shape
    return Arr([symex.Max([a.data[i][j] for i in range(r)]) for j in range(c_)])
  raise Unsupported('max axis')


amax = max_


def sum_(a, axis=None):
  a = array(a)
  if axis is None:
    return symex.Sum(a.flatten().data)
  if a.ndim == 2 and axis == 0:
    r, c_ = a.shape
    return Arr([symex.Sum([a.data[i][j] for i in range(r)]) for j in range(c_)])
  if a.ndim == 2 and axis == 1:
    return Arr([symex.Sum(row) for row in a.data])
  raise Unsupported('sum axis')


def interp(x, xp, fp, left=None, right=None):
  """Piecewise-linear interpolation, numpy semantics (xp increasing)."""
  xp = _to_data(xp)
  fp = _to_data(fp)
  n = len(xp)
  if n == 0:
    raise ValueError('array of sample points is empty')
  if left is None:
    left = fp[0]
  if right is None:
    right = fp[-1]
  if x < xp[0]:
    return left
  if x > xp[-1]:
    return right
  if n == 1:
    return fp[0]
  for i in range(n - 1):
    if x < xp[i + 1]:
      slope = (fp[i + 1] - fp[i]) / (xp[i + 1] - xp[i])
      return slope * (x - xp[i]) + fp[i]
  return fp[-1]


def log(x):
  if _is_seq(x):
    return array(x)._ew(0, lambda a, _: log(a))
  if symex.is_sym(x):
    raise Unsupported('log of a symbolic value')
  return _math.log(x) if x > 0 else float('-inf')


def bincount(x, weights=None, minlength=0):
  """Counts of each value; symbolic entries give symbolic counts (the number
  of bins is minlength, or enough for the concrete entries)."""
  if weights is not None:
    raise Unsupported('bincount weights')
  vals = list(_to_data(x))
  conc = [v for v in vals if not symex.is_sym(v)]
  n = max([minlength] + [int(v) + 1 for v in conc])
  if any(symex.is_sym(v) for v in vals) and not minlength:
    raise Unsupported('bincount of symbolic values without minlength')
  out = []
  for k in range(n):
    cnt = 0
    for v in vals:
      if symex.is_sym(v):
        cnt = cnt + symex.If(v == k, 1, 0)
      elif v == k:
        cnt = cnt + 1
    out.append(cnt)
  return Arr(out)


def isscalar(x):
  return not _is_seq(x)


def __getattr__(name):
  if name == 'sum':
    return sum_
  if name == 'max':
    return max_
  raise Unsupported('numpy.%s is not modelled by np-lite' % name)


class _Random(object):
  """np.random as a nondeterministic stub: `choice(n, p=...)` returns ANY
  index whose probability is positive (a fresh symbolic input)."""

  def choice(self, n, p=None):
    import z3  # pylint: disable=g-import-not-at-top
    from engine import symrandom  # pylint: disable=g-import-not-at-top
    if isinstance(n, Arr) or isinstance(n, (list, tuple)):
      raise Unsupported('random.choice over a population')
    n = int(n)
    t = symrandom._fresh('int', 'np_choice_')
    ex = symex.explorer()
    ex.assume(symex.SymBool(z3.And(t >= 0, t < n)))
    r = symex.SymInt(t)
    if p is not None:
      probs = _to_data(p)
      if len(probs) != n:
        raise ValueError("'a' and 'p' must have same size")
      ok = None
      for i, q in enumerate(probs):
        c_ = (r == i) & (q > 0)
        ok = c_ if ok is None else (ok | c_)
      ex.assume(ok if isinstance(ok, symex.SymBool) else symex.SymBool(
          z3.BoolVal(bool(ok))))
    return r

  def __getattr__(self, name):
    raise Unsupported('np.random.%s is not modelled' % name)


random = _Random()
