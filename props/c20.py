"""C20 -- audio sample helpers are lossless on 16-bit PCM and exact about
lengths (kernels only)."""
from props import common as K

META = {
    'level': 'model_checking',
    'level_text':
        'E2: the int16 -> float32 -> int16 round trip is a single QF_BVFP query '
        'over ALL 65536 sample values, generated from the ASTs of '
        'int16_samples_to_float32 / float_samples_to_int16 with numpy\'s '
        'promotion rules (float32 array op Python int -> float32, astype(int16) '
        '= truncation) written into the translator; L-C20-1b/1c: the float is '
        'fl32(v/32767) for every v (spec written with z3 operators) and '
        '-1.0/0.0/1.0 map to -32767/0/32767; the length arithmetic of '
        'repeat_samples_to_duration (number of copies, the arguments the call '
        'to crop_samples binds, the slice bounds) is an NRA lemma in the '
        'standard model of floating point generated from the ASTs of both '
        'functions, L-C20-3 the same for crop_samples alone with a symbolic '
        'non-zero begin; a counterexample is replayed on the real function. '
        'E1: crop_samples and repeat_samples_to_duration are '
        'executed on short arrays of symbolic samples with symbolic offsets / '
        'durations (np-lite), and the solver shows the result is exactly the '
        'existing samples of the requested window / the cyclic repetition of '
        'the requested length; make_stereo runs on channels of every pair of '
        'lengths 0..M with symbolic sample values (int16 and float channels; '
        'every ordered pair of different data types is rejected). '
        'E0 (enumeration on the real numpy/scipy stack, jobs e0_*): '
        'samples_to_wav_data -> wav_data_to_samples on all 65536 values at the '
        'five rates with the WAV bytes written / parsed by the standard '
        'library (mono, 16-bit PCM, header rate), stereo / float32 WAV / error '
        'classes, crop_wav_data; crop / repeat at the five real rates on 1..10^5 '
        'samples (int16 and float32, int and float rate, keyword calls, result '
        'dtype); dtype guards and result dtypes of the converters and of '
        'make_stereo.',
    'level_note':
        'Trusted: z3 (QF_BVFP, nlsat), the FP translator and its reading of '
        'numpy semantics (validated every run against the real functions on '
        'all 65536 values), np-lite slicing/concatenate (validated per sampled '
        'path against numpy; broadcasting and boolean-mask assignment for '
        'make_stereo likewise). E0 jobs are tests on concrete inputs, not '
        'proofs. librosa resampling / pydub are outside the claim.',
    'engines': ['symex', 'fpk'],
    'technique':
        'QF_BVFP lemmas over all int16 values generated from the function ASTs '
        '+ NRA length / crop lemmas + bounded symbolic execution of crop/repeat '
        '/make_stereo + enumeration on the real stack (WAV container, dtypes, '
        'real rates)',
    'functions': [('audio_io', 'int16_samples_to_float32'),
                  ('audio_io', 'float_samples_to_int16'),
                  ('audio_io', 'crop_samples'),
                  ('audio_io', 'repeat_samples_to_duration'),
                  ('audio_io', 'make_stereo'),
                  ('audio_io', 'samples_to_wav_data'),
                  ('audio_io', 'wav_data_to_samples'),
                  ('audio_io', 'crop_wav_data')],
    'assumptions': [
        'lemmas and E1: inputs have the documented dtype (the dtype guards are '
        'preconditions there; e0_dtypes triggers them)',
        'L-C20-2: 1 <= len(samples) <= 10^5, duration in (0,100] s, sample '
        'rates {8000,16000,22050,44100,48000}, standard model of binary64; '
        'L-C20-3: begin, length in [0,100] s, same rates',
        'E1: arrays of <=4 samples at 2-4 Hz (index domain closed by forking), '
        'doubles as reals',
        'a non-empty signal for repeat_samples_to_duration; lemmas and E1 take '
        'duration > 0, duration == 0 is the concrete job e0_rates '
        'zero_duration (F-C20-a, fixed)',
        'E0: WAV mono 16-bit (plus equal-channel stereo, float32) at the same '
        'rate as requested (no resampling); crop_wav_data at whole-sample '
        'window bounds',
    ],
    'bounds': {'quick': 'as stated; make_stereo: channel lengths 0..3 (int16), '
                        '0..2 (float32), 0..1 x 12 dtype pairs; E0: signals of '
                        '1, 7, 1000, 10^5 samples, 8 begins x 8 lengths, 12 '
                        'durations per rate',
               'thorough': 'arrays of <=6 samples; make_stereo: lengths 0..6 '
                           '(0..4 float64)'},
    'outside': ['librosa resampling (rates different from the WAV header), '
                'wav_data_to_samples_pydub / load_audio (ffmpeg), '
                'normalize_wav_data, jitter_wav_data (float64 path of '
                'float_samples_to_int16: observed, not an anchored function)',
                'the WAV container clause (samples_to_wav_data / '
                'wav_data_to_samples through scipy) is NOT decided by the '
                'solver: scipy cannot be encoded; it is only exercised by the '
                'concrete e0_wav job on all 65536 values x 5 rates'],
}


def _np_translator():
  """fpk.Translator with numpy's element-wise semantics for the two PCM
  helpers (class built lazily: z3 / fpk are imported by the lemma jobs only)."""
  import ast  # pylint: disable=g-import-not-at-top
  import z3  # pylint: disable=g-import-not-at-top
  from engine import fpk  # pylint: disable=g-import-not-at-top

  class NpTranslator(fpk.Translator):
    """numpy element-wise semantics for the two PCM helpers."""

    def expr(self, n, env):
      # np.iinfo(np.int16).max
      if isinstance(n, ast.Attribute) and n.attr == 'max' and isinstance(
          n.value, ast.Call) and ast.unparse(n.value) == 'np.iinfo(np.int16)':
        return fpk.iv(32767)
      # x.astype(np.float32) / x.astype(np.int16)
      if isinstance(n, ast.Call) and isinstance(
          n.func, ast.Attribute) and n.func.attr == 'astype':
        x = self.expr(n.func.value, env)
        target = ast.unparse(n.args[0])
        if target == 'np.float32':
          if x.kind == 'int':
            return fpk.V(z3.fpSignedToFP(fpk.RNE, x.t, fpk.F32), 'fp')
          return x
        if target == 'np.int16':
          if x.kind != 'fp':
            raise fpk.UnsupportedConstruct('astype(int16) of non-float')
          # C cast: truncation toward zero (value range checked by the lemma)
          return fpk.V(z3.fpToSBV(fpk.RTZ, x.t, fpk.BV), 'int')
        raise fpk.UnsupportedConstruct('astype(%s)' % target)
      # np.clip / np.minimum / np.maximum on float samples (element-wise)
      if isinstance(n, ast.Call) and ast.unparse(n.func) in (
          'np.clip', 'np.minimum', 'np.maximum') and not n.keywords:
        args = [fpk.to_fp(self.expr(a, env), self.sort) for a in n.args]
        name = ast.unparse(n.func)
        if name == 'np.clip' and len(args) == 3:
          return fpk.V(z3.fpMin(z3.fpMax(args[0], args[1]), args[2]),
                       'fp')
        if name == 'np.minimum' and len(args) == 2:
          return fpk.V(z3.fpMin(args[0], args[1]), 'fp')
        if name == 'np.maximum' and len(args) == 2:
          return fpk.V(z3.fpMax(args[0], args[1]), 'fp')
      return fpk.Translator.expr(self, n, env)

    def block(self, stmts, env, guard=None):
      # dtype guards are preconditions: `if <dtype test>: raise ...`
      stmts = [s for s in stmts if not (isinstance(s, ast.If) and len(s.body) == 1
                                        and isinstance(s.body[0], ast.Raise))]
      return fpk.Translator.block(self, stmts, env, guard)

  return NpTranslator


def _pcm_lemma(job):
  import ast  # pylint: disable=g-import-not-at-top
  import subprocess  # pylint: disable=g-import-not-at-top
  import sys  # pylint: disable=g-import-not-at-top
  import os  # pylint: disable=g-import-not-at-top
  import json  # pylint: disable=g-import-not-at-top
  import z3  # pylint: disable=g-import-not-at-top
  from engine import fpk  # pylint: disable=g-import-not-at-top

  NpTranslator = _np_translator()
  f1, _ = fpk.get_function('audio_io', 'int16_samples_to_float32')
  f2, _ = fpk.get_function('audio_io', 'float_samples_to_int16')
  v = z3.BitVec('v', 64)
  tr = NpTranslator(sort=fpk.F32)
  mid = tr.function(f1, {'y': fpk.V(v, 'int')})
  back = tr.function(f2, {'y': mid})
  obligations = []
  # ---- translator validation: the real functions on all 65536 values, the
  # translated term on a sample
  verif = os.path.dirname(os.path.dirname(os.path.abspath(__file__)))
  code = ('import sys, json\nsys.path.insert(0, %r)\n'
          'from engine import loader\nenv = loader.RealEnv()\n'
          'import numpy as np\na = env.mod("audio_io")\n'
          'y = np.arange(-32768, 32768, dtype=np.int16)\n'
          'f0 = a.int16_samples_to_float32(y)\nf = f0.copy()\n'
          'z = a.float_samples_to_int16(f0)\n'
          'pts=[-32768,-32767,-12345,-1,0,1,2,3,5,7,100,12345,16383,16384,32766,32767]\n'
          'print(json.dumps({"all_equal": bool((z == y).all()), "dtype": str(f.dtype),'
          ' "mid": [float(f[p+32768]).hex() for p in pts], "pts": pts,'
          ' "bad": [int(x) for x in y[z != y][:5]]}))' % verif)
  p = subprocess.run([sys.executable, '-c', code], stdout=subprocess.PIPE,
                     stderr=subprocess.PIPE, text=True)
  real = json.loads(p.stdout.strip().splitlines()[-1])
  if real['dtype'] != 'float32':
    return {'status': 'error', 'error': 'unexpected dtype %s' % real['dtype']}
  for pt, hx in zip(real['pts'], real['mid']):
    got = fpk.eval_concrete(mid, [(v, pt)])
    if got != float.fromhex(hx):
      return {'status': 'error', 'error': 'FP translator disagrees with numpy '
              'at %d: %r vs %r' % (pt, got, float.fromhex(hx))}
  rng = z3.And(v >= -32768, v <= 32767)
  r = fpk.solve([rng, back.t != v], timeout_s=job.get('budget_s', 600) - 30,
                want_model={'v': v})
  obligations.append({
      'lemma': 'L-C20-1', 'statement':
          'forall v in int16: int16(trunc(fl32(fl32(fl32(v)/32767)*32767))) == v',
      'expect': 'unsat', 'result': r['result'], 'seconds': r['seconds'],
      'backend': r['backend'], 'discharged': r['result'] == 'unsat',
      'validated_against_impl': 'all 65536 values round-trip on the real '
                                'functions: %s' % real['all_equal']})
  t = fpk.solve([rng], timeout_s=10)
  obligations.append({'lemma': 'L-C20-1-twin', 'statement': 'range satisfiable',
                      'expect': 'sat', 'result': t['result'],
                      'discharged': t['result'] == 'sat', 'seconds': t['seconds'],
                      'backend': t['backend']})
  out = {'obligations': obligations, 'status': 'ok',
         'solver_queries': 2,
         'solver_seconds': round(r['seconds'] + t['seconds'], 3)}
  if r['result'] == 'sat':
    out['status'] = 'violation'
    out['violations'] = [{'label': 'L-C20-1 PCM round trip loses a sample value',
                          'values': {'v': r['model']['v']}, 'source': 'solver'}]
  elif r['result'] != 'unsat':
    out['status'] = 'inconclusive'
    out['error'] = 'L-C20-1: %s' % r['result']
  if not real['all_equal'] and out['status'] == 'ok':
    out['status'] = 'error'
    out['error'] = ('real functions lose values %s but the lemma is unsat: '
                    'translator wrong' % real['bad'])
  return out


def h_pcm_witness(c):
  np = c.np
  a = c.mod('audio_io')
  v = int(c.values['v'])
  y = np.array([v], dtype=np.int16)
  z = a.float_samples_to_int16(a.int16_samples_to_float32(y))
  c.check(int(z[0]) == v, 'L-C20-1 PCM round trip loses a sample value')


def _length_terms(rate, tag):
  """Builds, from the ASTs of repeat_samples_to_duration and crop_samples, the
  number of copies, the slice bounds and the specified length in the standard
  model of binary64.  Returns (L, d, reps, lo, hi, spec, side constraints)."""
  import ast  # pylint: disable=g-import-not-at-top
  import z3  # pylint: disable=g-import-not-at-top
  from engine import fpk  # pylint: disable=g-import-not-at-top
  rep, _ = fpk.get_function('audio_io', 'repeat_samples_to_duration')
  crop, _ = fpk.get_function('audio_io', 'crop_samples')
  tr = fpk.StdModel(tag=tag)
  L = z3.Int('L')
  d = z3.Real('d')
  tr.declare_nonneg(L)
  tr.declare_nonneg(d)
  rparams = [a.arg for a in rep.args.args]
  if len(rparams) != 3:
    raise fpk.UnsupportedConstruct('repeat_samples_to_duration signature')
  env = {'len(%s)' % rparams[0]: fpk.V(L, 'int'),
         rparams[1]: fpk.V(z3.IntVal(rate), 'int'),
         rparams[2]: fpk.V(d, 'fp')}
  tr.assigns(rep.body, env)
  if 'num_repeats' not in env:
    raise fpk.UnsupportedConstruct('num_repeats not reached in '
                                   'repeat_samples_to_duration')
  reps = env['num_repeats']
  # the array that is cropped must be the concatenation of num_repeats copies
  conc = [n for n in ast.walk(rep) if isinstance(n, ast.Assign) and
          'concatenate' in ast.unparse(n.value)]
  if len(conc) != 1 or ast.unparse(conc[0].value).replace(' ', '') != (
      'np.concatenate([%s]*num_repeats)' % rparams[0]):
    raise fpk.UnsupportedConstruct('unexpected construction of the repeated '
                                   'signal: %s' % [ast.unparse(c) for c in conc])
  repeated_name = conc[0].targets[0].id
  calls = [n for n in ast.walk(rep) if isinstance(n, ast.Call) and
           ast.unparse(n.func) == 'crop_samples']
  if len(calls) != 1:
    raise fpk.UnsupportedConstruct('expected one call of crop_samples')
  call = calls[0]
  cparams = [a.arg for a in crop.args.args]
  bound = {}
  for pname, node in zip(cparams, call.args):
    bound[pname] = node
  for kw in call.keywords:
    bound[kw.arg] = kw.value
  if ast.unparse(bound[cparams[0]]) != repeated_name:
    raise fpk.UnsupportedConstruct('crop_samples is not applied to the '
                                   'repeated signal')
  cenv = {}
  for pname in cparams[1:]:
    cenv[pname] = tr.expr(bound[pname], env)
  tr.assigns(crop.body, cenv)
  sl = [n for n in ast.walk(crop) if isinstance(n, ast.Subscript) and
        isinstance(n.slice, ast.Slice) and ast.unparse(n.value) == cparams[0]]
  if len(sl) != 1 or sl[0].slice.step is not None:
    raise fpk.UnsupportedConstruct('expected one slice of the samples')
  lo = tr.expr(sl[0].slice.lower, cenv) if sl[0].slice.lower is not None else (
      fpk.V(z3.IntVal(0), 'int'))
  hi = tr.expr(sl[0].slice.upper, cenv)
  rets = [n for n in ast.walk(rep) if isinstance(n, ast.Return)]
  spec = tr.expr(ast.parse('int(%s * %s)' % (rparams[2], rparams[1]),
                           mode='eval').body, env)
  for v in (reps, lo, hi, spec):
    if v.kind != 'int':
      raise fpk.UnsupportedConstruct('a count is not an integer')
  return L, d, reps.t, lo.t, hi.t, spec.t, tr.side, tr


def _length_lemma(job):
  import time  # pylint: disable=g-import-not-at-top
  import z3  # pylint: disable=g-import-not-at-top
  from engine import fpk  # pylint: disable=g-import-not-at-top
  obligations = []
  status = 'ok'
  err = None
  violations = []
  for rate in (8000, 16000, 22050, 44100, 48000):
    try:
      L, d, reps, lo, hi, spec, side, tr_ = _length_terms(rate, 'r%d' % rate)
    except fpk.UnsupportedConstruct as e:
      return {'status': 'inconclusive', 'obligations': obligations,
              'error': 'cannot regenerate L-C20-2 from the source: %s' % e}
    base = [L >= 1, L <= 100000, d > 0, d <= 100] + list(side)
    # the slice [lo:hi] of reps*L samples is exactly the first `spec` samples
    good = z3.And(lo == 0, hi == spec, reps * L >= hi, spec >= 0)
    s = z3.Solver()
    s.set('timeout', 120000)
    s.add(base)
    s.add(z3.Not(good))
    t0 = time.time()
    r = str(s.check())
    dt = time.time() - t0
    obligations.append({
        'lemma': 'L-C20-2[rate=%d]' % rate, 'statement':
            'forall L in [1,1e5], d in (0,100]: the slice bounds computed by '
            'crop_samples inside repeat_samples_to_duration are [0, '
            'int(fl(d*rate))) and num_repeats*L covers them (terms generated '
            'from the two function ASTs, standard model of binary64)',
        'expect': 'unsat', 'result': r, 'seconds': round(dt, 3),
        'backend': 'z3 nlsat', 'discharged': r == 'unsat'})
    if r == 'sat':
      m = s.model()
      # the standard model over-approximates rounding: prefer a candidate
      # that violates the conclusion with every rounding error at zero and
      # by a whole sample (robust against the real rounding); fall back to
      # the first model
      for margin in (True, False):
        s3 = z3.Solver()
        s3.set('timeout', 30000)
        s3.add(base)
        s3.add(z3.Not(good))
        s3.add([dl == 0 for dl in tr_.deltas])
        if margin:
          # well inside a sample: d*rate is not within 1/4 of an integer
          fr = d * rate - z3.ToReal(z3.ToInt(d * rate))
          s3.add(fr > 0.25, fr < 0.75)
        if s3.check() == z3.sat:
          m = s3.model()
          break
      dv = m.eval(d, model_completion=True)
      violations.append({
          'label': 'L-C20-2 repeat_samples_to_duration returns a wrong number '
                   'of samples',
          'values': {'L': m.eval(L, model_completion=True).as_long(),
                     'rate': rate,
                     'd': [dv.numerator_as_long(), dv.denominator_as_long()]},
          'source': 'solver'})
    elif r != 'unsat':
      status, err = 'inconclusive', 'L-C20-2[rate=%d]: %s' % (rate, r)
    s2 = z3.Solver()
    s2.set('timeout', 20000)
    s2.add(base)
    s2.add(good)
    r2 = str(s2.check())
    obligations.append({'lemma': 'L-C20-2-twin[rate=%d]' % rate,
                        'statement': 'assumptions and conclusion jointly '
                                     'satisfiable', 'expect': 'sat',
                        'result': r2, 'discharged': r2 == 'sat', 'seconds': 0,
                        'backend': 'z3 nlsat'})
    if r2 != 'sat':
      status, err = 'inconclusive', 'twin %s' % r2
  out = {'obligations': obligations, 'status': status,
         'solver_queries': len(obligations),
         'solver_seconds': round(sum(o['seconds'] for o in obligations), 3)}
  if violations:
    out['status'] = 'violation'
    out['violations'] = violations[:2]
  if err:
    out['error'] = err
  return out


def h_length_witness(c):
  """Replay of an L-C20-2 counterexample on the real function."""
  from fractions import Fraction  # pylint: disable=g-import-not-at-top
  np = c.np
  a = c.mod('audio_io')
  L, rate = int(c.values['L']), int(c.values['rate'])
  dur = float(Fraction(*c.values['d']))
  x = (np.arange(L) % 251).astype(np.int16)
  out = a.repeat_samples_to_duration(x, rate, dur)
  want = int(dur * rate)
  c.check(len(out) == want and bool((out == x[np.arange(want) % L]).all()),
          'L-C20-2 repeat_samples_to_duration returns a wrong number of '
          'samples')


def _samples(c, n):
  vals = [c.int('x%d' % i, -32768, 32767) for i in range(n)]
  if c.mode == 'sym':
    return vals, c.np.array(list(vals))
  return vals, c.np.array(vals, dtype=c.np.int16)


def h_crop(c):
  a = c.mod('audio_io')
  n, rate = c.params['n'], c.params['rate']
  vals, arr = _samples(c, n)
  begin = c.real('begin', 0, 3)
  length = c.real('length', 0, 3)
  out = a.crop_samples(arr, rate, begin, length)
  got = list(out.data) if hasattr(out, 'data') else [int(x) for x in out]
  lo = c.concretize(c.Floor(begin * rate))
  cnt = c.concretize(c.Floor(length * rate))
  want = [vals[i] for i in range(lo, min(lo + cnt, n)) if i < n]
  c.check(len(got) == len(want) and
          bool(c.And([c.eq(x, y) for x, y in zip(got, want)] or [True])),
          'crop returns exactly the existing samples of the requested window')
  c.cover('window reaches past the end of the signal', lo + cnt > n)
  c.cover('window starts past the end of the signal', lo >= n)


def h_repeat(c):
  a = c.mod('audio_io')
  n, rate = c.params['n'], c.params['rate']
  vals, arr = _samples(c, n)
  dur = c.real('dur')
  c.assume(dur > 0)
  c.assume(dur <= c.params['max_s'])
  out = a.repeat_samples_to_duration(arr, rate, dur)
  got = list(out.data) if hasattr(out, 'data') else [int(x) for x in out]
  cnt = c.concretize(c.Floor(dur * rate))
  c.check(len(got) == cnt, 'exactly int(duration*rate) samples')
  c.check(c.And([c.eq(got[i], vals[i % n]) for i in range(len(got))] or [True]),
          'the input repeated cyclically')
  c.cover('duration longer than the signal', cnt > n)
  c.cover('duration an exact multiple of the signal length', cnt == 2 * n)


def h_stereo(c):
  """make_stereo: lengths forked over 0..M x 0..M, sample values symbolic."""
  a = c.mod('audio_io')
  np = c.np
  M = c.params['M']
  nl = c.concretize(c.int('len_left', 0, M))
  nr = c.concretize(c.int('len_right', 0, M))
  # data types of the two channels: int16/int16 (default), int16/float32
  # (mismatch=True), one float type for both (fdtype=...), or any ordered pair
  # of different types (pairs=True, forked)
  names = ('int16', 'int32', 'float32', 'float64')
  dl, dr = 'int16', ('float32' if c.params.get('mismatch') else 'int16')
  if c.params.get('fdtype'):
    dl = dr = c.params['fdtype']
  if c.params.get('pairs'):
    dl, dr = c.choice('dtype_pair', [(p, q) for p in names for q in names
                                     if p != q])
  if dl.startswith('float') and dl == dr:
    lv = [c.real('l%d' % i, -1, 1) for i in range(nl)]
    rv = [c.real('r%d' % i, -1, 1) for i in range(nr)]
    if c.mode == 'conc':  # the inputs are numbers of that float type
      lv = [float(getattr(np, dl)(v)) for v in lv]
      rv = [float(getattr(np, dr)(v)) for v in rv]
  else:
    lv = [c.int('l%d' % i, -32768, 32767) for i in range(nl)]
    rv = [c.int('r%d' % i, -32768, 32767) for i in range(nr)]
  left = np.array(lv, dtype=getattr(np, dl))
  right = np.array(rv, dtype=getattr(np, dr))
  if c.mode == 'sym':
    if not hasattr(left, 'data'):  # np-lite returns a bare list for []
      left, right = np.Arr(list(lv)), np.Arr(list(rv))
    left.dtype = getattr(np, dl)
    right.dtype = getattr(np, dr)
    if c.params.get('fdtype') or c.params.get('pairs'):
      left.dtype, right.dtype = np.dtype(left.dtype), np.dtype(right.dtype)
  try:  # (AudioIODataTypeError derives from BaseException)
    out, err = a.make_stereo(left, right), None
  except a.AudioIODataTypeError as e:
    out, err = None, e
  if c.params.get('mismatch'):
    c.check(isinstance(err, a.AudioIODataTypeError),
            'channels of different data types are rejected')
    return
  c.check(err is None, 'no error for two channels of one data type')
  # (a numpy array has a .data too -- a memoryview: ask by mode)
  rows = out.data if c.mode == 'sym' and hasattr(out, 'data') else out.tolist()
  n = max(nl, nr)
  c.check(len(rows) == n and all(len(r) == 2 for r in rows),
          'one (left, right) pair per sample of the longer channel')
  ok = []
  for i in range(min(n, len(rows))):
    ok.append(c.eq(rows[i][0], lv[i] if i < nl else 0))
    ok.append(c.eq(rows[i][1], rv[i] if i < nr else 0))
  c.check(c.And(ok or [True]),
          'both channels in order, the shorter one padded with zeros')
  c.cover('left shorter', nl < nr)
  c.cover('right shorter', nr < nl)
  c.cover('an empty channel', min(nl, nr) == 0 and n > 0)


def h_reuse(c):
  """The helpers return new arrays and leave the ones they are given as they
  were: a signal that has been converted, cropped, repeated or packed can be
  used again and gives the same result (a second conversion of the same float
  signal is what samples_to_wav_data at a second rate does)."""
  a = c.mod('audio_io')
  np = c.np
  n = c.params['n']
  vals, arr = _samples(c, n)
  if c.mode == 'sym':
    arr.dtype = np.dtype(np.int16)

  def elems(x):
    return list(x.data) if hasattr(x, 'data') else [v.item() for v in x]

  def same(xs, ys):
    return len(xs) == len(ys) and bool(
        c.And([c.eq(p, q) for p, q in zip(xs, ys)] or [True]))

  f = a.int16_samples_to_float32(arr)
  c.check(same(elems(arr), vals), 'int16 -> float leaves its input unchanged')
  fv = elems(f)
  z1 = elems(a.float_samples_to_int16(f))
  c.check(same(elems(f), fv), 'float -> int16 leaves its input unchanged')
  z2 = elems(a.float_samples_to_int16(f))
  c.check(same(z1, z2), 'converting the same float signal twice gives the '
          'same samples')
  c.check(same(z1, vals), 'PCM -> float -> PCM returns the samples (values as '
          'reals; binary32 rounding is lemma L-C20-1)')
  rate = c.params.get('rate', 2)
  a.crop_samples(arr, rate, 0.5, 1.0)
  a.repeat_samples_to_duration(arr, rate, (n + 1.0) / rate)
  other = np.array(list(vals[:1]), dtype=np.int16)
  if c.mode == 'sym':
    if not hasattr(other, 'data'):
      other = np.Arr(list(vals[:1]))
    other.dtype = np.dtype(np.int16)
  try:  # (AudioIODataTypeError derives from BaseException)
    a.make_stereo(arr, other)
  except a.AudioIODataTypeError:
    c.check(False, 'no error for two channels of one data type')
  c.check(same(elems(arr), vals) and same(elems(other), vals[:1]),
          'crop / repeat / make_stereo leave their inputs unchanged')


# ---------------------------------------------------------------------------
# L-C20-1b: the scale IS 32767 (mechanism "scale by 32767 both ways")


def _scale_lemma(job):
  """forall v in int16: int16_samples_to_float32(v) is the binary32 quotient
  v / 32767 (written here with z3's own operators, not with the translator's
  reading of np.iinfo), so 32767 <-> 1.0, 0 <-> 0.0, -32767 <-> -1.0, and
  float_samples_to_int16 maps -1.0 / 0.0 / 1.0 to -32767 / 0 / 32767."""
  import z3  # pylint: disable=g-import-not-at-top
  from engine import fpk  # pylint: disable=g-import-not-at-top
  f1, _ = fpk.get_function('audio_io', 'int16_samples_to_float32')
  f2, _ = fpk.get_function('audio_io', 'float_samples_to_int16')
  v = z3.BitVec('v', 64)
  x = z3.FP('x', fpk.F32)
  tr = _np_translator()(sort=fpk.F32)
  try:
    mid = tr.function(f1, {'y': fpk.V(v, 'int')})
    back = tr.function(f2, {'y': fpk.V(x, 'fp')})
  except fpk.UnsupportedConstruct as e:
    return {'status': 'inconclusive', 'obligations': [],
            'error': 'cannot regenerate L-C20-1b from the source: %s' % e}
  if mid.kind != 'fp' or back.kind != 'int':
    return {'status': 'inconclusive', 'obligations': [],
            'error': 'L-C20-1b: unexpected result kinds %s/%s' % (mid.kind,
                                                                 back.kind)}
  spec = z3.fpDiv(fpk.RNE, z3.fpSignedToFP(fpk.RNE, v, fpk.F32),
                  z3.FPVal(32767.0, fpk.F32))
  rng = z3.And(v >= -32768, v <= 32767)
  obligations, violations = [], []
  status, err = 'ok', None
  r = fpk.solve([rng, z3.Not(z3.fpEQ(mid.t, spec))], timeout_s=300,
                want_model={'v': v})
  obligations.append({
      'lemma': 'L-C20-1b', 'statement':
          'forall v in int16: int16_samples_to_float32(v) == fl32(fl32(v) / '
          '32767) (full scale 32767 <-> 1.0)',
      'expect': 'unsat', 'result': r['result'], 'seconds': r['seconds'],
      'backend': r['backend'], 'discharged': r['result'] == 'unsat'})
  if r['result'] == 'sat':
    violations.append({'label': 'L-C20-1b the PCM scale is not 32767',
                       'values': {'v': r['model']['v'], 'dir': 'to_float'},
                       'source': 'solver'})
  elif r['result'] != 'unsat':
    status, err = 'inconclusive', 'L-C20-1b: %s' % r['result']
  pts = z3.Or(*[z3.And(z3.fpEQ(x, z3.FPVal(p, fpk.F32)),
                       back.t != z3.BitVecVal(q, 64))
                for p, q in ((-1.0, -32767), (0.0, 0), (1.0, 32767))])
  r2 = fpk.solve([z3.Not(z3.fpIsNaN(x)), pts], timeout_s=120,
                 want_model={'x': x})
  obligations.append({
      'lemma': 'L-C20-1c', 'statement':
          'float_samples_to_int16 maps -1.0, 0.0, 1.0 to -32767, 0, 32767',
      'expect': 'unsat', 'result': r2['result'], 'seconds': r2['seconds'],
      'backend': r2['backend'], 'discharged': r2['result'] == 'unsat'})
  if r2['result'] == 'sat':
    violations.append({'label': 'L-C20-1b the PCM scale is not 32767',
                       'values': {'x': r2['model']['x'], 'dir': 'to_int16'},
                       'source': 'solver'})
  elif r2['result'] != 'unsat':
    status, err = 'inconclusive', 'L-C20-1c: %s' % r2['result']
  t = fpk.solve([rng, z3.fpEQ(mid.t, spec)], timeout_s=20)
  obligations.append({'lemma': 'L-C20-1b-twin', 'statement':
                          'range and conclusion jointly satisfiable',
                      'expect': 'sat', 'result': t['result'],
                      'discharged': t['result'] == 'sat',
                      'seconds': t['seconds'], 'backend': t['backend']})
  if t['result'] != 'sat':
    status, err = 'inconclusive', 'L-C20-1b twin %s' % t['result']
  out = {'obligations': obligations, 'status': status, 'solver_queries': 3,
         'solver_seconds': round(r['seconds'] + r2['seconds'] + t['seconds'],
                                 3)}
  if violations:
    out['status'] = 'violation'
    out['violations'] = violations
  if err:
    out['error'] = err
  return out


def h_scale_witness(c):
  """Replay of an L-C20-1b/1c counterexample (also run by E0 h_dtypes)."""
  np = c.np
  a = c.mod('audio_io')
  if c.values.get('dir') == 'to_int16':
    x = float(c.values['x'])
    z = a.float_samples_to_int16(np.array([x], dtype=np.float32))
    c.check(int(z[0]) == int(x * 32767),
            'L-C20-1b the PCM scale is not 32767')
    return
  v = int(c.values['v'])
  f = a.int16_samples_to_float32(np.array([v], dtype=np.int16))
  c.check(float(f[0]) == float(np.float32(v) / np.float32(32767)),
          'L-C20-1b the PCM scale is not 32767')


# ---------------------------------------------------------------------------
# L-C20-3: crop_samples alone, NON-ZERO begin, real rates, standard model of
# binary64


def _crop_terms(rate, tag):
  """Slice bounds of crop_samples for symbolic begin / length (seconds) from
  its AST; the specification [int(begin*rate), int(begin*rate) +
  int(length*rate)) is written with the parameter names of the signature."""
  import ast  # pylint: disable=g-import-not-at-top
  import z3  # pylint: disable=g-import-not-at-top
  from engine import fpk  # pylint: disable=g-import-not-at-top
  crop, _ = fpk.get_function('audio_io', 'crop_samples')
  cparams = [a.arg for a in crop.args.args]
  if len(cparams) != 4 or crop.args.defaults:
    raise fpk.UnsupportedConstruct('crop_samples signature')
  tr = fpk.StdModel(tag=tag)
  b = z3.Real('b')
  l = z3.Real('l')
  tr.declare_nonneg(b)
  tr.declare_nonneg(l)
  env = {cparams[1]: fpk.V(z3.IntVal(rate), 'int'),
         cparams[2]: fpk.V(b, 'fp'), cparams[3]: fpk.V(l, 'fp')}
  spec_lo = tr.expr(ast.parse('int(%s * %s)' % (cparams[2], cparams[1]),
                              mode='eval').body, dict(env))
  spec_cnt = tr.expr(ast.parse('int(%s * %s)' % (cparams[3], cparams[1]),
                               mode='eval').body, dict(env))
  cenv = dict(env)
  tr.assigns(crop.body, cenv)
  sl = [n for n in ast.walk(crop) if isinstance(n, ast.Subscript) and
        isinstance(n.slice, ast.Slice) and ast.unparse(n.value) == cparams[0]]
  if len(sl) != 1 or sl[0].slice.step is not None or (
      sl[0].slice.upper is None):
    raise fpk.UnsupportedConstruct('expected one slice of the samples')
  lo = tr.expr(sl[0].slice.lower, cenv) if sl[0].slice.lower is not None else (
      fpk.V(z3.IntVal(0), 'int'))
  hi = tr.expr(sl[0].slice.upper, cenv)
  # the value returned must be that slice
  rets = [n for n in ast.walk(crop) if isinstance(n, ast.Return)]
  names = [n.targets[0].id for n in ast.walk(crop)
           if isinstance(n, ast.Assign) and n.value is sl[0] and
           isinstance(n.targets[0], ast.Name)]
  if len(rets) != 1 or not (rets[0].value is sl[0] or (
      isinstance(rets[0].value, ast.Name) and rets[0].value.id in names)):
    raise fpk.UnsupportedConstruct('crop_samples does not return the slice')
  for x in (lo, hi, spec_lo, spec_cnt):
    if x.kind != 'int':
      raise fpk.UnsupportedConstruct('a slice bound is not an integer')
  return b, l, lo.t, hi.t, spec_lo.t, spec_cnt.t, tr.side


def _crop_lemma(job):
  import time  # pylint: disable=g-import-not-at-top
  import z3  # pylint: disable=g-import-not-at-top
  from engine import fpk  # pylint: disable=g-import-not-at-top
  obligations, violations = [], []
  status, err = 'ok', None
  for rate in (8000, 16000, 22050, 44100, 48000):
    try:
      b, l, lo, hi, slo, scnt, side = _crop_terms(rate, 'c%d' % rate)
    except fpk.UnsupportedConstruct as e:
      return {'status': 'inconclusive', 'obligations': obligations,
              'error': 'cannot regenerate L-C20-3 from the source: %s' % e}
    base = [b >= 0, b <= 100, l >= 0, l <= 100] + list(side)
    good = z3.And(lo == slo, hi == slo + scnt, slo >= 0, scnt >= 0)
    s = z3.Solver()
    s.set('timeout', 120000)
    s.add(base)
    s.add(z3.Not(good))
    t0 = time.time()
    r = str(s.check())
    dt = time.time() - t0
    obligations.append({
        'lemma': 'L-C20-3[rate=%d]' % rate, 'statement':
            'forall begin, length in [0,100] s: crop_samples slices '
            '[int(fl(begin*rate)), int(fl(begin*rate)) + '
            'int(fl(length*rate))) and returns that slice (terms generated '
            'from the AST, standard model of binary64)',
        'expect': 'unsat', 'result': r, 'seconds': round(dt, 3),
        'backend': 'z3 nlsat', 'discharged': r == 'unsat'})
    if r == 'sat':
      m = s.model()
      bv = m.eval(b, model_completion=True)
      lv = m.eval(l, model_completion=True)
      violations.append({
          'label': 'L-C20-3 crop_samples returns a wrong window',
          'values': {'rate': rate,
                     'b': [bv.numerator_as_long(), bv.denominator_as_long()],
                     'l': [lv.numerator_as_long(), lv.denominator_as_long()]},
          'source': 'solver'})
    elif r != 'unsat':
      status, err = 'inconclusive', 'L-C20-3[rate=%d]: %s' % (rate, r)
    s2 = z3.Solver()
    s2.set('timeout', 20000)
    s2.add(base)
    s2.add(good)
    s2.add(slo > 0, scnt > 0)
    r2 = str(s2.check())
    obligations.append({'lemma': 'L-C20-3-twin[rate=%d]' % rate,
                        'statement': 'assumptions and conclusion jointly '
                                     'satisfiable with a non-zero begin',
                        'expect': 'sat', 'result': r2,
                        'discharged': r2 == 'sat', 'seconds': 0,
                        'backend': 'z3 nlsat'})
    if r2 != 'sat':
      status, err = 'inconclusive', 'L-C20-3 twin %s' % r2
  out = {'obligations': obligations, 'status': status,
         'solver_queries': len(obligations),
         'solver_seconds': round(sum(o['seconds'] for o in obligations), 3)}
  if violations:
    # a sat answer of the standard model is a candidate only (the deltas are
    # existential): besides the model point, ordinary windows at that rate are
    # replayed on the real function; only a concrete failure is reported
    from fractions import Fraction  # pylint: disable=g-import-not-at-top
    rate0 = violations[0]['values']['rate']
    fr = lambda x: list(Fraction(x).as_integer_ratio())
    probes = [{'label': violations[0]['label'], 'source': 'probe',
               'values': {'rate': rate0, 'b': fr(pb), 'l': fr(pl)}}
              for pb, pl in ((1.0 / 3, 1.0 / 3), (2.0 / 3, 2.0 / 3),
                             (0.00017, 1.0 / 3))]
    out['status'] = 'violation'
    out['violations'] = violations[:1] + probes
  if err:
    out['error'] = err
  return out


def h_crop_witness(c):
  """Replay of an L-C20-3 counterexample on the real function."""
  from fractions import Fraction  # pylint: disable=g-import-not-at-top
  np = c.np
  a = c.mod('audio_io')
  rate = int(c.values['rate'])
  b = float(Fraction(*c.values['b']))
  l = float(Fraction(*c.values['l']))
  lo, cnt = int(b * rate), int(l * rate)
  n = lo + cnt + 3
  x = (np.arange(n) % 32749).astype(np.int16)
  out = a.crop_samples(x, rate, b, l)
  idx = np.arange(n)
  want = x[(idx >= lo) & (idx < lo + cnt)]
  c.check(len(out) == len(want) and bool((out == want).all()),
          'L-C20-3 crop_samples returns a wrong window')


# ---------------------------------------------------------------------------
# E0: enumeration on the REAL stack (numpy, scipy WAV container) -- what the
# shims cannot carry: the WAV bytes, result dtypes, dtype guards, real rates
# and long signals.  These harnesses only run under ConcCtx (func jobs that
# call the real worker); a failure is replayed like any counterexample.

_RATES = (8000, 16000, 22050, 44100, 48000)


def _real_run(job):
  """Runs HARNESSES[job harness] once on the unmodified stack."""
  from engine import runner  # pylint: disable=g-import-not-at-top
  cl = runner.RealClient()
  try:
    r = cl.call({'prop': job['prop'], 'harness': job['harness'],
                 'params': job.get('params') or {}, 'values': {},
                 'known': job.get('known') or []})
  finally:
    cl.close()
  ob = {'lemma': 'E0 %s %s' % (job['harness'], job.get('params') or ''),
        'statement': (HARNESSES[job['harness']].__doc__ or '').strip(),
        'expect': 'pass', 'result': r.get('status'),
        'checks': r.get('checks'), 'discharged': r.get('status') == 'ok',
        'seconds': 0, 'backend': 'real stack (numpy, scipy)'}
  out = {'obligations': [ob], 'status': 'ok'}
  if r.get('status') == 'fail':
    out['status'] = 'violation'
    out['violations'] = [{'label': r.get('label'), 'values': {},
                          'source': 'real run', 'note': r.get('error')}]
  elif r.get('status') != 'ok' or not r.get('checks'):
    out['status'] = 'error'
    out['error'] = 'real run of %s: %s' % (job['harness'], r)
  return out


def _wav16(frames, rate, channels=1, width=2):
  """WAV bytes written with the standard library (not scipy)."""
  import io  # pylint: disable=g-import-not-at-top
  import wave  # pylint: disable=g-import-not-at-top
  b = io.BytesIO()
  w = wave.open(b, 'wb')
  w.setnchannels(channels)
  w.setsampwidth(width)
  w.setframerate(rate)
  w.writeframes(frames.astype('<i2' if width == 2 else 'u1').tobytes())
  w.close()
  return b.getvalue()


def _wav_float32(frames, rate):
  import struct  # pylint: disable=g-import-not-at-top
  data = frames.astype('<f4').tobytes()
  return (b'RIFF' + struct.pack('<I', 36 + len(data)) + b'WAVEfmt ' +
          struct.pack('<IHHIIHH', 16, 3, 1, rate, rate * 4, 4, 32) + b'data' +
          struct.pack('<I', len(data)) + data)


def _wav_parse(np, data):
  """(channels, bytes per sample, rate, int16 frames) read with the standard
  library; `wave` accepts integer PCM only."""
  import io  # pylint: disable=g-import-not-at-top
  import wave  # pylint: disable=g-import-not-at-top
  try:
    w = wave.open(io.BytesIO(data), 'rb')
    raw = w.readframes(w.getnframes())
    return (w.getnchannels(), w.getsampwidth(), w.getframerate(),
            np.frombuffer(raw, dtype='<i2') if w.getsampwidth() == 2 else None)
  except (wave.Error, EOFError):
    return (None, None, None, None)


def h_wav(c):
  """samples_to_wav_data followed by wav_data_to_samples at the same rate
  reproduces a mono 16-bit signal exactly: all 65536 sample values, the five
  rates, WAV bytes written / parsed independently with the standard library
  (header: mono, 16-bit PCM, the given rate); stereo with equal channels,
  32-bit float WAV, the documented error classes, crop_wav_data."""
  np = c.np
  a = c.mod('audio_io')
  y = np.arange(-32768, 32768, dtype=np.int16)
  same = lambda p, q: p.shape == q.shape and bool((p == q).all())
  if c.params.get('jitter'):
    # not in the jobs list (outside the anchors of C20): jitter_wav_data
    rate = 16000
    sig = np.array([3, 100, -5, 12345], dtype=np.int16)
    out = _wav_parse(np, a.jitter_wav_data(_wav16(sig, rate), rate, 0.001))
    c.check(out[3] is not None and same(
        out[3], np.concatenate([np.zeros(16, dtype=np.int16), sig])),
            'jitter_wav_data prepends silence and keeps the samples')
    return
  g = None
  for rate in _RATES:
    wav = _wav16(y, rate)
    g = a.wav_data_to_samples(wav, rate)
    c.check(g.dtype == np.float32 and g.shape == y.shape and float(np.abs(
        g.astype(np.float64) * 32767.0 - y).max()) <= 2.0**-9,
            'wav_data_to_samples returns the mono signal as float32, '
            'sample/32767')
    wav2 = a.samples_to_wav_data(g, rate)
    g2 = a.wav_data_to_samples(wav2, rate)
    c.check(g2.dtype == np.float32 and same(g2, g),
            'samples_to_wav_data -> wav_data_to_samples at the same rate '
            'reproduces the signal exactly')
    ch, width, hrate, frames = _wav_parse(np, wav2)
    c.check((ch, width, hrate) == (1, 2, rate) and frames is not None and
            same(frames, y),
            'samples_to_wav_data writes mono 16-bit PCM at the given rate '
            'holding the samples')
    st = a.wav_data_to_samples(
        _wav16(np.stack([y, y], axis=1), rate, channels=2), rate)
    c.check(st.dtype == np.float32 and same(st, g),
            'a stereo WAV with equal channels is read as that mono signal')
    fl = a.wav_data_to_samples(_wav_float32(g, rate), rate)
    c.check(fl.dtype == np.float32 and same(fl, g),
            'a 32-bit float WAV is returned unchanged')
  err = None
  try:
    a.wav_data_to_samples(b'RIFFnot a wav file at all', 16000)
  except a.AudioIOError as e:
    err = e
  c.check(isinstance(err, a.AudioIOReadError),
          'unreadable WAV data raises AudioIOReadError')
  err = None
  try:
    a.wav_data_to_samples(_wav16(np.arange(256), 8000, width=1), 8000)
  except a.AudioIOError as e:
    err = e
  c.check(isinstance(err, a.AudioIOError) and not isinstance(
      err, a.AudioIOReadError),
          'a WAV that is neither 16-bit nor 32-bit float raises AudioIOError')
  # crop_wav_data (second copy of the crop arithmetic): windows whose bounds
  # are whole samples, so that no reading of the rounding matters
  for rate, b, l in ((16000, 0.5, 0.25), (8000, 0.0, 1.0), (48000, 1.0, 2.0),
                     (44100, 1.0, 0.0)):
    lo, cnt = int(b * rate), int(l * rate)
    ch, width, hrate, frames = _wav_parse(
        np, a.crop_wav_data(_wav16(y, rate), rate, b, l))
    idx = np.arange(len(y))
    c.check((ch, width, hrate) == (1, 2, rate) and same(
        frames, y[(idx >= lo) & (idx < lo + cnt)]),
            'crop_wav_data returns the WAV of the requested window')


def h_rates(c):
  """crop_samples / repeat_samples_to_duration on the real stack at the five
  real rates (int and float rate objects), signals of 1 .. 10^5 samples (int16
  and float32), non-zero begins, windows past the end, durations shorter /
  longer than / exact multiples of the signal; positional and keyword calls;
  the result has the dtype of the input."""
  np = c.np
  a = c.mod('audio_io')
  if c.params.get('zero_duration'):
    # duration == 0 (F-C20-a, fixed)
    x = np.arange(5, dtype=np.int16)
    out = a.repeat_samples_to_duration(x, 44100, 0.0)
    c.check(len(out) == 0, 'exactly int(duration*rate) samples')
    return
  secs = (0.0, 0.001, 0.1, 0.29, 1.0 / 3, 0.7, 1.0, 2.5)
  k = 0
  for L in (1, 7, 1000, 100000):
    base = ((np.arange(L) * 7919) % 65536 - 32768).astype(np.int16)
    for rate in _RATES:
      idx = np.arange(L)
      for b in secs:
        for l in secs:
          k += 1
          x = base if k % 2 else (base.astype(np.float32) / np.float32(32767))
          r = float(rate) if k % 5 == 0 else rate
          if k % 3:
            out = a.crop_samples(x, r, b, l)
          else:
            out = a.crop_samples(samples=x, sample_rate=r,
                                 crop_beginning_seconds=b,
                                 total_length_seconds=l)
          lo, cnt = int(b * rate), int(l * rate)
          want = x[(idx >= lo) & (idx < lo + cnt)]
          c.check(out.shape == want.shape and bool((out == want).all()),
                  'crop returns exactly the existing samples of the requested '
                  'window')
          c.check(out.dtype == x.dtype, 'crop keeps the sample data type')
      durs = [0.001, 0.1, 0.29, 1.0 / 3, 1.0, 3.7, L / rate, 2.0 * L / rate,
              2.5 * L / rate, (L + 1.0) / rate, 1.0 / rate, 0.5 / rate]
      for d in durs:
        cnt = int(d * rate)
        if d <= 0 or cnt > 400000:
          continue
        k += 1
        x = base if k % 2 else (base.astype(np.float32) / np.float32(32767))
        r = float(rate) if k % 5 == 0 else rate
        if k % 3:
          out = a.repeat_samples_to_duration(x, r, d)
        else:
          out = a.repeat_samples_to_duration(samples=x, sample_rate=r,
                                             duration=d)
        c.check(len(out) == cnt, 'exactly int(duration*rate) samples')
        c.check(out.shape == (cnt,) and bool(
            (out == x[np.arange(cnt) % L]).all()),
                'the input repeated cyclically')
        c.check(out.dtype == x.dtype, 'repeat keeps the sample data type')


def h_dtypes(c):
  """Data types on the real stack: the converters return float32 / int16 and
  reject any other input type (ValueError), full scale is 32767 <-> 1.0 (also
  for float64 samples), make_stereo returns an (n, 2) array of the channels'
  data type for int and float channels and rejects every pair of different
  types."""
  np = c.np
  a = c.mod('audio_io')
  y = np.array([-32768, -32767, -1, 0, 1, 12345, 32767], dtype=np.int16)
  f = a.int16_samples_to_float32(y)
  c.check(f.dtype == np.float32 and f.shape == y.shape,
          'int16 -> float returns float32')
  c.check([float(v) for v in f[[1, 3, 6]]] == [-1.0, 0.0, 1.0],
          'full scale is 32767 <-> 1.0')
  for dt in (np.float32, np.float64):
    z = a.float_samples_to_int16(np.array([-1.0, 0.0, 1.0], dtype=dt))
    c.check(z.dtype == np.int16, 'float -> int16 returns int16')
    c.check([int(v) for v in z] == [-32767, 0, 32767],
            'full scale is 32767 <-> 1.0')
  z = a.float_samples_to_int16(f)
  c.check(z.dtype == np.int16 and bool((z == y).all()),
          'float -> int16 returns int16')
  for bad in (np.int8, np.uint8, np.uint16, np.int32, np.int64, np.float32,
              np.float64):
    _, e = c.raises(a.int16_samples_to_float32, np.array([1, 0], dtype=bad))
    c.check(isinstance(e, ValueError),
            'int16 -> float rejects samples that are not int16')
  for bad in (np.int16, np.int32, np.uint8, np.int64, np.bool_):
    _, e = c.raises(a.float_samples_to_int16, np.array([1, 0], dtype=bad))
    c.check(isinstance(e, ValueError),
            'float -> int16 rejects samples that are not floating-point')
  types = (np.int16, np.int32, np.uint8, np.float32, np.float64)
  for dt in types:
    for nl, nr in ((0, 0), (0, 3), (3, 0), (2, 5), (5, 2), (4, 4), (1, 1)):
      left = (np.arange(nl) + 1).astype(dt)
      right = (np.arange(nr) + 11).astype(dt)
      keep = (left.copy(), right.copy())
      try:  # (AudioIODataTypeError derives from BaseException)
        out = a.make_stereo(left, right)
      except a.AudioIODataTypeError:
        out = None
      c.check(out is not None, 'no error for two channels of one data type')
      n = max(nl, nr)
      c.check(out.shape == (n, 2),
              'one (left, right) pair per sample of the longer channel')
      c.check(out.dtype == np.dtype(dt),
              'the stereo signal has the data type of the channels')
      want = [[i + 1 if i < nl else 0, i + 11 if i < nr else 0]
              for i in range(n)]
      c.check(out.tolist() == want,
              'both channels in order, the shorter one padded with zeros')
      c.check(bool((left == keep[0]).all()) and bool(
          (right == keep[1]).all()),
              'crop / repeat / make_stereo leave their inputs unchanged')
    for dt2 in types:
      if dt2 is dt:
        continue
      err = None
      try:
        a.make_stereo(np.zeros(2, dtype=dt), np.zeros(2, dtype=dt2))
      except a.AudioIODataTypeError as e:
        err = e
      c.check(isinstance(err, a.AudioIODataTypeError),
              'channels of different data types are rejected')


HARNESSES = {'h_crop': h_crop, 'h_reuse': h_reuse, 'h_repeat': h_repeat, 'lemma_pcm': h_pcm_witness,
             'lemma_length': h_length_witness,
             'h_stereo': h_stereo,
             'lemma_scale': h_scale_witness, 'lemma_crop': h_crop_witness,
             'e0_wav': h_wav, 'e0_rates': h_rates, 'e0_dtypes': h_dtypes}
FUNCS = {'lemma_pcm': _pcm_lemma, 'lemma_length': _length_lemma,
         'lemma_scale': _scale_lemma, 'lemma_crop': _crop_lemma,
         'e0_wav': _real_run, 'e0_rates': _real_run, 'e0_dtypes': _real_run}


def jobs(tier):
  J = []

  def add(h, budget=300, required=True, jobkind='symex', **params):
    J.append({'harness': h, 'params': params, 'budget_s': budget,
              'required': required, 'kind': jobkind})

  deep = tier == 'thorough'
  add('lemma_pcm', jobkind='func', budget=900)
  add('lemma_length', jobkind='func', budget=600)
  add('lemma_scale', jobkind='func', budget=600)
  add('lemma_crop', jobkind='func', budget=600)
  add('e0_wav', jobkind='func', budget=600)
  add('e0_rates', jobkind='func', budget=600)
  add('e0_dtypes', jobkind='func', budget=300)
  # a zero target duration gives zero samples (F-C20-a, fixed: ValueError
  # 'need at least one array to concatenate')
  add('e0_rates', jobkind='func', zero_duration=True)
  # NOT CLAIMED (function outside the anchors of C20): jitter_wav_data(<mono
  # 16-bit WAV of [3, 100, -5, 12345] at 16000 Hz>, 16000, 0.001) returns
  # 16 zeros + [2, 99, -4, 12345]: np.zeros() is float64, so
  # float_samples_to_int16 gets float64 and truncates fl32(v/32767)*32767 in
  # binary64 (33279 of the 65536 values come back changed by one):
  # add('e0_wav', jobkind='func', jitter=True)
  add('h_crop', n=3, rate=2)
  add('h_crop', n=4, rate=4)
  add('h_repeat', n=2, rate=2, max_s=3)
  add('h_repeat', n=3, rate=4, max_s=2)
  add('h_repeat', n=1, rate=4, max_s=2)
  add('h_stereo', M=3)
  add('h_stereo', M=2, mismatch=True)
  add('h_stereo', M=2, fdtype='float32')
  add('h_stereo', M=1, mismatch=True, pairs=True)
  add('h_reuse', n=2)
  add('h_reuse', n=3, rate=4)
  if deep:
    add('h_crop', n=6, rate=4, budget=900)
    add('h_repeat', n=4, rate=4, max_s=4, budget=900)
    add('h_repeat', n=1, rate=8, max_s=2, budget=900)
    add('h_stereo', M=6, budget=900)
    add('h_stereo', M=4, fdtype='float64', budget=900)
  return J
