"""C20 -- audio sample helpers are lossless on 16-bit PCM and exact about
lengths (kernels only)."""
from props import common as K

META = {
    'level': 'model_checking',
    'level_text':
        'E2: the int16 -> float32 -> int16 round trip is a single QF_BVFP query '
        'over ALL 65536 sample values, generated from the ASTs of '
        'int16_samples_to_float32 / float_samples_to_int16 with numpy\'s '
        'promotion rules (float32 array op Python int -> float32, astype(int16) '
        '= truncation) written into the translator; the length arithmetic of '
        'repeat_samples_to_duration (number of copies, the arguments the call '
        'to crop_samples binds, the slice bounds) is an NRA lemma in the '
        'standard model of floating point generated from the ASTs of both '
        'functions; a counterexample is replayed on the real function. E1: crop_samples and repeat_samples_to_duration are '
        'executed on short arrays of symbolic samples with symbolic offsets / '
        'durations (np-lite), and the solver shows the result is exactly the '
        'existing samples of the requested window / the cyclic repetition of '
        'the requested length; make_stereo runs on channels of every pair of '
        'lengths 0..M with symbolic sample values.',
    'level_note':
        'Trusted: z3 (QF_BVFP, nlsat), the FP translator and its reading of '
        'numpy semantics (validated every run against the real functions on '
        'all 65536 values), np-lite slicing/concatenate (validated per sampled '
        'path against numpy; broadcasting and boolean-mask assignment for '
        'make_stereo likewise). The WAV container / resampling (scipy, '
        'librosa) are outside the claim.',
    'engines': ['symex', 'fpk'],
    'technique':
        'QF_BVFP lemma over all int16 values generated from the function ASTs '
        '+ NRA length lemma + bounded symbolic execution of crop/repeat',
    'functions': [('audio_io', 'int16_samples_to_float32'),
                  ('audio_io', 'float_samples_to_int16'),
                  ('audio_io', 'crop_samples'),
                  ('audio_io', 'repeat_samples_to_duration'),
                  ('audio_io', 'make_stereo')],
    'assumptions': [
        'inputs have the documented dtype (the dtype guards are preconditions)',
        'L-C20-2: 1 <= len(samples) <= 10^5, duration in (0,100] s, sample '
        'rates {8000,16000,22050,44100,48000}, standard model of binary64',
        'E1: arrays of <=4 samples at 2-4 Hz (index domain closed by forking), '
        'doubles as reals',
    ],
    'bounds': {'quick': 'as stated; make_stereo: channel lengths 0..3',
               'thorough': 'arrays of <=6 samples; make_stereo: lengths 0..6'},
    'outside': ['samples_to_wav_data / wav_data_to_samples '
                '(scipy WAV container, librosa resampling)'],
}


def _pcm_lemma(job):
  import ast  # pylint: disable=g-import-not-at-top
  import subprocess  # pylint: disable=g-import-not-at-top
  import sys  # pylint: disable=g-import-not-at-top
  import os  # pylint: disable=g-import-not-at-top
  import json  # pylint: disable=g-import-not-at-top
  import z3  # pylint: disable=g-import-not-at-top
  from engine import fpk  # pylint: disable=g-import-not-at-top

  class NpTranslator(fpk.Translator):
    """numpy element-wise semantics for the two PCM helpers."""

    def expr(self, n, env):
      # np.iinfo(np.int16).max
      if isinstance(n, ast.Attribute) and n.attr == 'max' and isinstance(
          n.value, ast.Call) and ast.unparse(n.value) == 'np.iinfo(np.int16)':
        return fpk.iv(32767)
      # x.astype(np.float32) / x.astype(np.int16)
      if isinstance(n, ast.Call) and isinstance(
          n.func, ast.Attribute) and n.func.attr == 'astype':
        x = self.expr(n.func.value, env)
        target = ast.unparse(n.args[0])
        if target == 'np.float32':
          if x.kind == 'int':
            return fpk.V(z3.fpSignedToFP(fpk.RNE, x.t, fpk.F32), 'fp')
          return x
        if target == 'np.int16':
          if x.kind != 'fp':
            raise fpk.UnsupportedConstruct('astype(int16) of non-float')
          # C cast: truncation toward zero (value range checked by the lemma)
          return fpk.V(z3.fpToSBV(fpk.RTZ, x.t, fpk.BV), 'int')
        raise fpk.UnsupportedConstruct('astype(%s)' % target)
      # np.clip / np.minimum / np.maximum on float samples (element-wise)
      if isinstance(n, ast.Call) and ast.unparse(n.func) in (
          'np.clip', 'np.minimum', 'np.maximum') and not n.keywords:
        args = [fpk.to_fp(self.expr(a, env), self.sort) for a in n.args]
        name = ast.unparse(n.func)
        if name == 'np.clip' and len(args) == 3:
          return fpk.V(z3.fpMin(z3.fpMax(args[0], args[1]), args[2]),
                       'fp')
        if name == 'np.minimum' and len(args) == 2:
          return fpk.V(z3.fpMin(args[0], args[1]), 'fp')
        if name == 'np.maximum' and len(args) == 2:
          return fpk.V(z3.fpMax(args[0], args[1]), 'fp')
      return fpk.Translator.expr(self, n, env)

    def block(self, stmts, env, guard=None):
      # dtype guards are preconditions: `if <dtype test>: raise ...`
      stmts = [s for s in stmts if not (isinstance(s, ast.If) and len(s.body) == 1
                                        and isinstance(s.body[0], ast.Raise))]
      return fpk.Translator.block(self, stmts, env, guard)

  f1, _ = fpk.get_function('audio_io', 'int16_samples_to_float32')
  f2, _ = fpk.get_function('audio_io', 'float_samples_to_int16')
  v = z3.BitVec('v', 64)
  tr = NpTranslator(sort=fpk.F32)
  mid = tr.function(f1, {'y': fpk.V(v, 'int')})
  back = tr.function(f2, {'y': mid})
  obligations = []
  # ---- translator validation: the real functions on all 65536 values, the
  # translated term on a sample
  verif = os.path.dirname(os.path.dirname(os.path.abspath(__file__)))
  code = ('import sys, json\nsys.path.insert(0, %r)\n'
          'from engine import loader\nenv = loader.RealEnv()\n'
          'import numpy as np\na = env.mod("audio_io")\n'
          'y = np.arange(-32768, 32768, dtype=np.int16)\n'
          'f0 = a.int16_samples_to_float32(y)\nf = f0.copy()\n'
          'z = a.float_samples_to_int16(f0)\n'
          'pts=[-32768,-32767,-12345,-1,0,1,2,3,5,7,100,12345,16383,16384,32766,32767]\n'
          'print(json.dumps({"all_equal": bool((z == y).all()), "dtype": str(f.dtype),'
          ' "mid": [float(f[p+32768]).hex() for p in pts], "pts": pts,'
          ' "bad": [int(x) for x in y[z != y][:5]]}))' % verif)
  p = subprocess.run([sys.executable, '-c', code], stdout=subprocess.PIPE,
                     stderr=subprocess.PIPE, text=True)
  real = json.loads(p.stdout.strip().splitlines()[-1])
  if real['dtype'] != 'float32':
    return {'status': 'error', 'error': 'unexpected dtype %s' % real['dtype']}
  for pt, hx in zip(real['pts'], real['mid']):
    got = fpk.eval_concrete(mid, [(v, pt)])
    if got != float.fromhex(hx):
      return {'status': 'error', 'error': 'FP translator disagrees with numpy '
              'at %d: %r vs %r' % (pt, got, float.fromhex(hx))}
  rng = z3.And(v >= -32768, v <= 32767)
  r = fpk.solve([rng, back.t != v], timeout_s=job.get('budget_s', 600) - 30,
                want_model={'v': v})
  obligations.append({
      'lemma': 'L-C20-1', 'statement':
          'forall v in int16: int16(trunc(fl32(fl32(fl32(v)/32767)*32767))) == v',
      'expect': 'unsat', 'result': r['result'], 'seconds': r['seconds'],
      'backend': r['backend'], 'discharged': r['result'] == 'unsat',
      'validated_against_impl': 'all 65536 values round-trip on the real '
                                'functions: %s' % real['all_equal']})
  t = fpk.solve([rng], timeout_s=10)
  obligations.append({'lemma': 'L-C20-1-twin', 'statement': 'range satisfiable',
                      'expect': 'sat', 'result': t['result'],
                      'discharged': t['result'] == 'sat', 'seconds': t['seconds'],
                      'backend': t['backend']})
  out = {'obligations': obligations, 'status': 'ok',
         'solver_queries': 2,
         'solver_seconds': round(r['seconds'] + t['seconds'], 3)}
  if r['result'] == 'sat':
    out['status'] = 'violation'
    out['violations'] = [{'label': 'L-C20-1 PCM round trip loses a sample value',
                          'values': {'v': r['model']['v']}, 'source': 'solver'}]
  elif r['result'] != 'unsat':
    out['status'] = 'inconclusive'
    out['error'] = 'L-C20-1: %s' % r['result']
  if not real['all_equal'] and out['status'] == 'ok':
    out['status'] = 'error'
    out['error'] = ('real functions lose values %s but the lemma is unsat: '
                    'translator wrong' % real['bad'])
  return out


def h_pcm_witness(c):
  np = c.np
  a = c.mod('audio_io')
  v = int(c.values['v'])
  y = np.array([v], dtype=np.int16)
  z = a.float_samples_to_int16(a.int16_samples_to_float32(y))
  c.check(int(z[0]) == v, 'L-C20-1 PCM round trip loses a sample value')


def _length_terms(rate, tag):
  """Builds, from the ASTs of repeat_samples_to_duration and crop_samples, the
  number of copies, the slice bounds and the specified length in the standard
  model of binary64.  Returns (L, d, reps, lo, hi, spec, side constraints)."""
  import ast  # pylint: disable=g-import-not-at-top
  import z3  # pylint: disable=g-import-not-at-top
  from engine import fpk  # pylint: disable=g-import-not-at-top
  rep, _ = fpk.get_function('audio_io', 'repeat_samples_to_duration')
  crop, _ = fpk.get_function('audio_io', 'crop_samples')
  tr = fpk.StdModel(tag=tag)
  L = z3.Int('L')
  d = z3.Real('d')
  tr.declare_nonneg(L)
  tr.declare_nonneg(d)
  rparams = [a.arg for a in rep.args.args]
  if len(rparams) != 3:
    raise fpk.UnsupportedConstruct('repeat_samples_to_duration signature')
  env = {'len(%s)' % rparams[0]: fpk.V(L, 'int'),
         rparams[1]: fpk.V(z3.IntVal(rate), 'int'),
         rparams[2]: fpk.V(d, 'fp')}
  tr.assigns(rep.body, env)
  if 'num_repeats' not in env:
    raise fpk.UnsupportedConstruct('num_repeats not reached in '
                                   'repeat_samples_to_duration')
  reps = env['num_repeats']
  # the array that is cropped must be the concatenation of num_repeats copies
  conc = [n for n in ast.walk(rep) if isinstance(n, ast.Assign) and
          'concatenate' in ast.unparse(n.value)]
  if len(conc) != 1 or ast.unparse(conc[0].value).replace(' ', '') != (
      'np.concatenate([%s]*num_repeats)' % rparams[0]):
    raise fpk.UnsupportedConstruct('unexpected construction of the repeated '
                                   'signal: %s' % [ast.unparse(c) for c in conc])
  repeated_name = conc[0].targets[0].id
  calls = [n for n in ast.walk(rep) if isinstance(n, ast.Call) and
           ast.unparse(n.func) == 'crop_samples']
  if len(calls) != 1:
    raise fpk.UnsupportedConstruct('expected one call of crop_samples')
  call = calls[0]
  cparams = [a.arg for a in crop.args.args]
  bound = {}
  for pname, node in zip(cparams, call.args):
    bound[pname] = node
  for kw in call.keywords:
    bound[kw.arg] = kw.value
  if ast.unparse(bound[cparams[0]]) != repeated_name:
    raise fpk.UnsupportedConstruct('crop_samples is not applied to the '
                                   'repeated signal')
  cenv = {}
  for pname in cparams[1:]:
    cenv[pname] = tr.expr(bound[pname], env)
  tr.assigns(crop.body, cenv)
  sl = [n for n in ast.walk(crop) if isinstance(n, ast.Subscript) and
        isinstance(n.slice, ast.Slice) and ast.unparse(n.value) == cparams[0]]
  if len(sl) != 1 or sl[0].slice.step is not None:
    raise fpk.UnsupportedConstruct('expected one slice of the samples')
  lo = tr.expr(sl[0].slice.lower, cenv) if sl[0].slice.lower is not None else (
      fpk.V(z3.IntVal(0), 'int'))
  hi = tr.expr(sl[0].slice.upper, cenv)
  rets = [n for n in ast.walk(rep) if isinstance(n, ast.Return)]
  spec = tr.expr(ast.parse('int(%s * %s)' % (rparams[2], rparams[1]),
                           mode='eval').body, env)
  for v in (reps, lo, hi, spec):
    if v.kind != 'int':
      raise fpk.UnsupportedConstruct('a count is not an integer')
  return L, d, reps.t, lo.t, hi.t, spec.t, tr.side, len(rets)


def _length_lemma(job):
  import time  # pylint: disable=g-import-not-at-top
  import z3  # pylint: disable=g-import-not-at-top
  from engine import fpk  # pylint: disable=g-import-not-at-top
  obligations = []
  status = 'ok'
  err = None
  violations = []
  for rate in (8000, 16000, 22050, 44100, 48000):
    try:
      L, d, reps, lo, hi, spec, side, _ = _length_terms(rate, 'r%d' % rate)
    except fpk.UnsupportedConstruct as e:
      return {'status': 'inconclusive', 'obligations': obligations,
              'error': 'cannot regenerate L-C20-2 from the source: %s' % e}
    base = [L >= 1, L <= 100000, d > 0, d <= 100] + list(side)
    # the slice [lo:hi] of reps*L samples is exactly the first `spec` samples
    good = z3.And(lo == 0, hi == spec, reps * L >= hi, spec >= 0)
    s = z3.Solver()
    s.set('timeout', 120000)
    s.add(base)
    s.add(z3.Not(good))
    t0 = time.time()
    r = str(s.check())
    dt = time.time() - t0
    obligations.append({
        'lemma': 'L-C20-2[rate=%d]' % rate, 'statement':
            'forall L in [1,1e5], d in (0,100]: the slice bounds computed by '
            'crop_samples inside repeat_samples_to_duration are [0, '
            'int(fl(d*rate))) and num_repeats*L covers them (terms generated '
            'from the two function ASTs, standard model of binary64)',
        'expect': 'unsat', 'result': r, 'seconds': round(dt, 3),
        'backend': 'z3 nlsat', 'discharged': r == 'unsat'})
    if r == 'sat':
      m = s.model()
      dv = m.eval(d, model_completion=True)
      violations.append({
          'label': 'L-C20-2 repeat_samples_to_duration returns a wrong number '
                   'of samples',
          'values': {'L': m.eval(L, model_completion=True).as_long(),
                     'rate': rate,
                     'd': [dv.numerator_as_long(), dv.denominator_as_long()]},
          'source': 'solver'})
    elif r != 'unsat':
      status, err = 'inconclusive', 'L-C20-2[rate=%d]: %s' % (rate, r)
    s2 = z3.Solver()
    s2.set('timeout', 20000)
    s2.add(base)
    s2.add(good)
    r2 = str(s2.check())
    obligations.append({'lemma': 'L-C20-2-twin[rate=%d]' % rate,
                        'statement': 'assumptions and conclusion jointly '
                                     'satisfiable', 'expect': 'sat',
                        'result': r2, 'discharged': r2 == 'sat', 'seconds': 0,
                        'backend': 'z3 nlsat'})
    if r2 != 'sat':
      status, err = 'inconclusive', 'twin %s' % r2
  out = {'obligations': obligations, 'status': status,
         'solver_queries': len(obligations),
         'solver_seconds': round(sum(o['seconds'] for o in obligations), 3)}
  if violations:
    out['status'] = 'violation'
    out['violations'] = violations[:2]
  if err:
    out['error'] = err
  return out


def h_length_witness(c):
  """Replay of an L-C20-2 counterexample on the real function."""
  from fractions import Fraction  # pylint: disable=g-import-not-at-top
  np = c.np
  a = c.mod('audio_io')
  L, rate = int(c.values['L']), int(c.values['rate'])
  dur = float(Fraction(*c.values['d']))
  x = (np.arange(L) % 251).astype(np.int16)
  out = a.repeat_samples_to_duration(x, rate, dur)
  want = int(dur * rate)
  c.check(len(out) == want and bool((out == x[np.arange(want) % L]).all()),
          'L-C20-2 repeat_samples_to_duration returns a wrong number of '
          'samples')


def _samples(c, n):
  vals = [c.int('x%d' % i, -32768, 32767) for i in range(n)]
  if c.mode == 'sym':
    return vals, c.np.array(list(vals))
  return vals, c.np.array(vals, dtype=c.np.int16)


def h_crop(c):
  a = c.mod('audio_io')
  n, rate = c.params['n'], c.params['rate']
  vals, arr = _samples(c, n)
  begin = c.real('begin', 0, 3)
  length = c.real('length', 0, 3)
  out = a.crop_samples(arr, rate, begin, length)
  got = list(out.data) if hasattr(out, 'data') else [int(x) for x in out]
  lo = c.concretize(c.Floor(begin * rate))
  cnt = c.concretize(c.Floor(length * rate))
  want = [vals[i] for i in range(lo, min(lo + cnt, n)) if i < n]
  c.check(len(got) == len(want) and
          bool(c.And([c.eq(x, y) for x, y in zip(got, want)] or [True])),
          'crop returns exactly the existing samples of the requested window')
  c.cover('window reaches past the end of the signal', lo + cnt > n)
  c.cover('window starts past the end of the signal', lo >= n)


def h_repeat(c):
  a = c.mod('audio_io')
  n, rate = c.params['n'], c.params['rate']
  vals, arr = _samples(c, n)
  dur = c.real('dur')
  c.assume(dur > 0)
  c.assume(dur <= c.params['max_s'])
  out = a.repeat_samples_to_duration(arr, rate, dur)
  got = list(out.data) if hasattr(out, 'data') else [int(x) for x in out]
  cnt = c.concretize(c.Floor(dur * rate))
  c.check(len(got) == cnt, 'exactly int(duration*rate) samples')
  c.check(c.And([c.eq(got[i], vals[i % n]) for i in range(len(got))] or [True]),
          'the input repeated cyclically')
  c.cover('duration longer than the signal', cnt > n)
  c.cover('duration an exact multiple of the signal length', cnt == 2 * n)


def h_stereo(c):
  """make_stereo: lengths forked over 0..M x 0..M, sample values symbolic."""
  a = c.mod('audio_io')
  np = c.np
  M = c.params['M']
  nl = c.concretize(c.int('len_left', 0, M))
  nr = c.concretize(c.int('len_right', 0, M))
  lv = [c.int('l%d' % i, -32768, 32767) for i in range(nl)]
  rv = [c.int('r%d' % i, -32768, 32767) for i in range(nr)]
  left = np.array(lv, dtype=np.int16)
  right = np.array(rv, dtype=np.float32 if c.params.get('mismatch') else np.int16)
  if c.mode == 'sym':
    if not hasattr(left, 'data'):  # np-lite returns a bare list for []
      left, right = np.Arr(list(lv)), np.Arr(list(rv))
    left.dtype = np.int16
    right.dtype = np.float32 if c.params.get('mismatch') else np.int16
  try:  # (AudioIODataTypeError derives from BaseException)
    out, err = a.make_stereo(left, right), None
  except a.AudioIODataTypeError as e:
    out, err = None, e
  if c.params.get('mismatch'):
    c.check(isinstance(err, a.AudioIODataTypeError),
            'channels of different data types are rejected')
    return
  c.check(err is None, 'no error for two channels of one data type')
  rows = out.data if hasattr(out, 'data') else out.tolist()
  n = max(nl, nr)
  c.check(len(rows) == n and all(len(r) == 2 for r in rows),
          'one (left, right) pair per sample of the longer channel')
  ok = []
  for i in range(min(n, len(rows))):
    ok.append(c.eq(rows[i][0], lv[i] if i < nl else 0))
    ok.append(c.eq(rows[i][1], rv[i] if i < nr else 0))
  c.check(c.And(ok or [True]),
          'both channels in order, the shorter one padded with zeros')
  c.cover('left shorter', nl < nr)
  c.cover('right shorter', nr < nl)
  c.cover('an empty channel', min(nl, nr) == 0 and n > 0)


def h_reuse(c):
  """The helpers return new arrays and leave the ones they are given as they
  were: a signal that has been converted, cropped, repeated or packed can be
  used again and gives the same result (a second conversion of the same float
  signal is what samples_to_wav_data at a second rate does)."""
  a = c.mod('audio_io')
  np = c.np
  n = c.params['n']
  vals, arr = _samples(c, n)
  if c.mode == 'sym':
    arr.dtype = np.dtype(np.int16)

  def elems(x):
    return list(x.data) if hasattr(x, 'data') else [v.item() for v in x]

  def same(xs, ys):
    return len(xs) == len(ys) and bool(
        c.And([c.eq(p, q) for p, q in zip(xs, ys)] or [True]))

  f = a.int16_samples_to_float32(arr)
  c.check(same(elems(arr), vals), 'int16 -> float leaves its input unchanged')
  fv = elems(f)
  z1 = elems(a.float_samples_to_int16(f))
  c.check(same(elems(f), fv), 'float -> int16 leaves its input unchanged')
  z2 = elems(a.float_samples_to_int16(f))
  c.check(same(z1, z2), 'converting the same float signal twice gives the '
          'same samples')
  c.check(same(z1, vals), 'PCM -> float -> PCM returns the samples (values as '
          'reals; binary32 rounding is lemma L-C20-1)')
  rate = c.params.get('rate', 2)
  a.crop_samples(arr, rate, 0.5, 1.0)
  a.repeat_samples_to_duration(arr, rate, (n + 1.0) / rate)
  other = np.array(list(vals[:1]), dtype=np.int16)
  if c.mode == 'sym':
    if not hasattr(other, 'data'):
      other = np.Arr(list(vals[:1]))
    other.dtype = np.dtype(np.int16)
  try:  # (AudioIODataTypeError derives from BaseException)
    a.make_stereo(arr, other)
  except a.AudioIODataTypeError:
    c.check(False, 'no error for two channels of one data type')
  c.check(same(elems(arr), vals) and same(elems(other), vals[:1]),
          'crop / repeat / make_stereo leave their inputs unchanged')


HARNESSES = {'h_crop': h_crop, 'h_reuse': h_reuse, 'h_repeat': h_repeat, 'lemma_pcm': h_pcm_witness,
             'lemma_length': h_length_witness,
             'h_stereo': h_stereo}
FUNCS = {'lemma_pcm': _pcm_lemma, 'lemma_length': _length_lemma}


def jobs(tier):
  J = []

  def add(h, budget=300, required=True, jobkind='symex', **params):
    J.append({'harness': h, 'params': params, 'budget_s': budget,
              'required': required, 'kind': jobkind})

  deep = tier == 'thorough'
  add('lemma_pcm', jobkind='func', budget=900)
  add('lemma_length', jobkind='func', budget=600)
  add('h_crop', n=3, rate=2)
  add('h_crop', n=4, rate=4)
  add('h_repeat', n=2, rate=2, max_s=3)
  add('h_repeat', n=3, rate=4, max_s=2)
  add('h_stereo', M=3)
  add('h_stereo', M=2, mismatch=True)
  add('h_reuse', n=2)
  add('h_reuse', n=3, rate=4)
  if deep:
    add('h_crop', n=6, rate=4, budget=900)
    add('h_repeat', n=4, rate=4, max_s=4, budget=900)
    add('h_repeat', n=1, rate=8, max_s=2, budget=900)
    add('h_stereo', M=6, budget=900)
  return J
