"""C18 -- frame pianorolls and note sequences convert back and forth without
drift."""
from fractions import Fraction

from props import common as K

META = {
    'level': 'model_checking',
    'level_text':
        'E1: the real sequence_to_pianoroll runs on symbolic notes (times, '
        'velocities, pitches free) through np-lite and every cell of the '
        'active / onset / velocity rolls is compared by the solver with the '
        'frame arithmetic of the docstring; the real '
        'pianoroll_to_note_sequence / pianoroll_onsets_to_note_sequence run on '
        'matrices of SYMBOLIC BITS (all 2^(T*K) frame, onset and offset '
        'matrices up to the bound at once) and the notes are compared with '
        'the maximal-run specification; the composition is checked on the '
        'frame grid. E2: the binary64 grid round trip int(fl(fl(k*fl(1/fps))'
        '*fps)) = k is a QF_FP lemma generated from the ASTs of end_pitch and '
        'frames_from_times.',
    'level_note':
        'Trusted: z3, reals for doubles in E1 (float constants enter with '
        'their exact binary value), np-lite and symproto (validated per '
        'sampled path against numpy/upb), the FP translator (validated on '
        'concrete inputs each run).',
    'engines': ['symex', 'fpk'],
    'technique':
        'bounded symbolic execution of the real functions with z3 (symbolic '
        'times and symbolic frame bits) + QF_FP lemma from the AST of the '
        'frame arithmetic',
    'functions': [('sequences_lib', 'sequence_to_pianoroll'),
                  ('sequences_lib', 'pianoroll_to_note_sequence'),
                  ('sequences_lib', 'pianoroll_onsets_to_note_sequence'),
                  ('sequences_lib', '_unscale_velocity')],
    'assumptions': [
        'E1: doubles are exact reals; rolls of at most 8 frames',
        'velocities in 1..127, max_velocity 127',
        'composition H3 only for power-of-two frame rates (1/fps exact); the '
        'other rates are the subject of lemma L-C18',
        'L-C18: frame index k in [0, 10^5]',
    ],
    'bounds': {
        'quick': 'painting: N<=2 notes, <=6 frames; decoding: T<=3 frames x '
                 'K<=2 pitches of symbolic bits (with onset / offset matrices '
                 'T<=2)',
        'thorough': 'painting <=8 frames, all listed frame rates; decoding '
                    'T<=5 x K<=2',
    },
    'outside': ['rolls larger than the bounds', 'weights roll', 'offsets roll',
                'onsets delayed to before time 0 (negative onset_delay_ms)'],
}

_FPS = {'8': 8, '16': 16, '32': 32, '31.25': 31.25, '50': 50, '62.5': 62.5,
        '100': 100}


def _fps(c):
  # a plain Python number in both modes: 1/fps and 1.0/fps are then the same
  # binary64 values the real code computes (the symbolic model takes their
  # exact rational value)
  return _FPS[c.params['fps']]


def h_paint(c):
  sl = c.mod('sequences_lib')
  pb = c.pb
  N = c.params['N']
  fps = _fps(c)
  fmax = c.params['frames']
  lo, hi = 60, 61
  mode = c.params['mode']
  delay = c.params.get('delay_ms', 0.0)
  occ = c.params.get('occupancy', 0.0)
  ns = pb.NoteSequence()
  notes = []
  for i in range(N):
    s = c.real('n%d_s' % i, 0)
    e = c.real('n%d_e' % i)
    c.assume(e >= s)
    p = c.int('n%d_p' % i, 59, 62)
    v = c.int('n%d_v' % i, 1, 127)
    ns.notes.add(start_time=s, end_time=e, pitch=p, velocity=v)
    notes.append(dict(s=s, e=e, p=p, v=v))
  tt = c.real('tt', 0)
  for n in notes:
    c.assume(n['e'] <= tt)
    if delay < 0:
      # an onset delayed to before time 0 is outside the claim (the property
      # speaks of the note's own first frame; int() truncates towards zero
      # there while floor() would not)
      c.assume(n['s'] + delay / 1000. >= 0)
  c.assume(tt * fps + 1 < fmax + 1)
  ns.total_time = tt
  cc_t = c.real('cc_t', 0)
  ns.control_changes.add(time=cc_t, control_number=64, control_value=c.int(
      'cc_v', 0, 127))
  before = c.snapshot(ns)
  kw = dict(onset_mode=mode, onset_delay_ms=delay,
            min_frame_occupancy_for_label=occ)
  ow = c.params.get('onset_window')
  if ow is not None:
    kw['onset_window'] = ow
  else:
    ow = 1
  maxv = c.params.get('max_velocity', 127)
  if 'max_velocity' in c.params:
    kw['max_velocity'] = maxv
  if mode == 'length_ms':
    kw['onset_length_ms'] = c.params.get('onset_len_ms', 30)
  blank = c.params.get('blank', False)
  if blank:
    kw['add_blank_frame_before_onset'] = True
  if maxv < 127:
    # a note of the window louder than max_velocity is an error; a note
    # OUTSIDE the window is ignored whatever its velocity
    roll, err = c.raises(sl.sequence_to_pianoroll, ns, fps, lo, hi, **kw)
    loud = c.Or([c.And(n['p'] >= lo, n['p'] <= hi, n['v'] > maxv)
                 for n in notes])
    if err is not None:
      c.check(isinstance(err, ValueError) and bool(loud),
              'ValueError only for an in-window note louder than max_velocity')
      c.cover('too loud note rejected')
      return
    c.check(c.Not(loud), 'a too loud in-window note was accepted')
    c.cover('loud note outside the pitch window ignored',
            c.Or([c.And(c.Or(n['p'] < lo, n['p'] > hi), n['v'] > maxv)
                  for n in notes]))
  else:
    roll = sl.sequence_to_pianoroll(ns, fps, lo, hi, **kw)
  c.check(c.msg_eq(ns, before), 'input unchanged')
  T = c.concretize(c.Floor(tt * fps + 1))
  act, ons, vel = roll.active, roll.onsets, roll.active_velocities
  c.check(len(act) == T and len(ons) == T and len(vel) == T and
          len(roll.control_changes) == T,
          'every roll has floor(total_time*fps + 1) frames')
  c.check(len(act[0]) == hi - lo + 1, 'one column per in-range pitch')

  def frames(s, e):
    sf = c.Floor(s * fps)
    if occ > 0:
      sf = c.If(sf + 1 - s * fps < occ, sf + 1, sf)
    ef = c.Ceil(e * fps)
    if occ > 0:
      ef = c.If(e * fps - sf - 1 < occ, ef - 1, ef)
    ef = c.Max(sf + 1, ef)
    return sf, ef

  # one query per roll: the per-cell conditions are collected and conjoined
  acc = {'a': [], 'v': [], 'o': [], 'c': []}

  class _Acc(object):

    def __init__(self, key):
      self.key = key

    def __call__(self, cond, label):
      acc[self.key].append(cond)

  chk_a, chk_v, chk_o, chk_c = _Acc('a'), _Acc('v'), _Acc('o'), _Acc('c')
  # the notes in the order the implementation paints them (by start time,
  # storage order on ties)
  for f in range(T):
    for p in range(lo, hi + 1):
      covering = []
      for i, n in enumerate(notes):
        sf, ef = frames(n['s'], n['e'])
        covering.append(c.And(c.eq(n['p'], p), sf <= f, f < ef))
      on = c.Or(covering)
      on_v = on
      if blank:
        # the frame before an onset (if there is one) is forced silent; no
        # note painted later can cover it (notes are painted by start time)
        blanked = []
        for n in notes:
          sf, _ = frames(n['s'], n['e'])
          blanked.append(c.And(c.eq(n['p'], p), sf >= 1, c.eq(sf - 1, f)))
        on = c.And(on, c.Not(c.Or(blanked)))
      chk_a(c.eq(act[f][p - lo] if c.mode == 'sym' else float(act[f][p - lo]),
                 c.If(on, 1.0, 0.0) if c.mode == 'sym' else
                 (1.0 if on else 0.0)),
              'active exactly from floor(start*fps) up to ceil(end*fps) (at '
              'least one frame)')
      # velocity of the covering note painted last
      expv = 0
      for i, n in enumerate(notes):
        later = [c.And(covering[j], c.Or(notes[j]['s'] > n['s'],
                                         c.And(c.eq(notes[j]['s'], n['s']),
                                               j > i)))
                 for j in range(N) if j != i]
        last = c.And(covering[i], c.Not(c.Or(later or [False])))  # (on_v)
        expv = c.If(last, n['v'] / maxv, expv)
      chk_v(c.approx(vel[f][p - lo], expv),
            'velocity scaled into (0,1] on active frames, 0 elsewhere')
      if maxv >= 127:
        chk_v(c.Implies(on_v, c.And(expv > 0, expv <= 1)), 'velocity in (0,1]')
      # onsets
      want = []
      for n in notes:
        os_, oe_ = n['s'] + delay / 1000., n['e'] + delay / 1000.
        if mode == 'window':
          sf, _ = frames(os_, oe_)
          a = c.Max(0, sf - ow)
          b = c.Min(T, sf + ow + 1)
        else:
          oe2 = c.Min(oe_, os_ + kw['onset_length_ms'] / 1000.)
          a, b = frames(os_, oe2)
        want.append(c.And(c.eq(n['p'], p), a <= f, f < b))
      won = c.Or(want)
      chk_o(c.eq(ons[f][p - lo] if c.mode == 'sym' else float(ons[f][p - lo]),
                 c.If(won, 1.0, 0.0) if c.mode == 'sym' else
                 (1.0 if won else 0.0)),
            'onset in the first frame +- the onset window (clipped)')
  # control change row
  cf, _ = frames(cc_t, 0)
  for f in range(T):
    got = roll.control_changes[f][64]
    chk_c(c.eq(got if c.mode == 'sym' else int(got),
               c.If(c.eq(cf, f), ns.control_changes[0].control_value + 1, 0)),
          'control change marked in its frame as value+1')
  c.check(c.And(acc['a']), 'active exactly from floor(start*fps) up to '
          'ceil(end*fps) (at least one frame)')
  c.check(c.And(acc['v']), 'velocity scaled into (0,1] on active frames, 0 '
          'elsewhere')
  c.check(c.And(acc['o']), 'onset in the first frame +- the onset window '
          '(clipped)')
  c.check(c.And(acc['c']), 'control change marked in its frame as value+1')
  c.cover('out-of-range pitch ignored', c.eq(notes[0]['p'], 59))
  c.cover('note shorter than one frame',
          c.And(c.eq(c.Floor(notes[0]['s'] * fps),
                     c.Ceil(notes[0]['e'] * fps)), c.eq(notes[0]['p'], 60)))
  c.cover('note end exactly on a frame boundary',
          c.And(c.eq(notes[0]['e'] * fps, 2), c.eq(notes[0]['p'], 60)))


def _bits(c, name, T, Kp):
  rows = []
  for t in range(T):
    rows.append([c.bool('%s_%d_%d' % (name, t, k)) for k in range(Kp)])
  return rows


def _to_np(c, rows):
  if c.mode == 'sym':
    return c.np.array([[x for x in r] for r in rows])
  return c.np.array([[1.0 if x else 0.0 for x in r] for r in rows])


def _runs(col, ons=None, offs=None):
  """Reference run decoder on concrete booleans for one pitch column (with the
  implementation's trailing silent frame)."""
  T = len(col)
  col = list(col) + [False]
  if ons is not None:
    ons = list(ons) + [False]
    col = [a or b for a, b in zip(col, ons)]
  if offs is not None:
    offs = list(offs) + [False]
    col = [a and not b for a, b in zip(col, offs)]
  notes = []
  start = None
  for i, a in enumerate(col):
    if a:
      if start is None:
        if ons is None or ons[i]:
          start = i
      elif ons is not None and ons[i] and not ons[i - 1]:
        notes.append((start, i))
        start = i
    elif start is not None:
      notes.append((start, i))
      start = None
  return notes


def h_decode(c):
  sl = c.mod('sequences_lib')
  T, Kp = c.params['T'], c.params['K']
  fps = _fps(c)
  use_on, use_off = c.params.get('onsets'), c.params.get('offsets')
  fr = _bits(c, 'f', T, Kp)
  on = _bits(c, 'o', T, Kp) if use_on else None
  of = _bits(c, 'x', T, Kp) if use_off else None
  min_ms = c.real('min_ms', 0, 100)
  use_vel = c.params.get('velocities')
  vv = None
  kw = {}
  if use_vel:
    # velocity estimates at the onsets (only read when onsets are supplied)
    vv = [[c.real('v_%d_%d' % (t, k), 0, 1) for k in range(Kp)]
          for t in range(T)]
    kw = dict(velocity_values=c.np.array([list(r) for r in vv]),
              velocity_scale=100, velocity_bias=5)
  seq = sl.pianoroll_to_note_sequence(
      _to_np(c, fr), fps, min_ms,
      min_midi_pitch=21,
      onset_predictions=_to_np(c, on) if use_on else None,
      offset_predictions=_to_np(c, of) if use_off else None, **kw)
  exp = []
  # sym mode: frame length is the Python float 1/fps, as in the implementation
  fl_sec = 1 / fps
  for k in range(Kp):
    col = [bool(fr[t][k]) for t in range(T)]
    oc = [bool(on[t][k]) for t in range(T)] if use_on else None
    fc = [bool(of[t][k]) for t in range(T)] if use_off else None
    for (a, b) in _runs(col, oc, fc):
      s, e = a * fl_sec, b * fl_sec
      if use_vel and use_on:
        vel = c.Floor(vv[a][k] * 100 + 5)  # the estimate at the note's onset
      else:
        vel = 70
      exp.append((c.Not((e - s) * 1000 < min_ms), (s, e, k + 21, vel)))
  got = [(n.start_time, n.end_time, n.pitch, n.velocity) for n in seq.notes]
  c.check(K.multiset_eq(c, got, exp),
          'notes = maximal runs of active frames (minus those shorter than '
          'min_duration_ms), each with the velocity of its own onset')
  c.check(c.eq(seq.total_time, (T + 1) * fl_sec), 'total_time covers the roll')
  for n in seq.notes:
    c.check(n.end_time <= seq.total_time, 'notes inside the sequence')
  c.cover('a run is dropped for being too short',
          c.Or([c.Not(cd) for cd, _ in exp] or [False]))


def h_onsets_only(c):
  sl = c.mod('sequences_lib')
  T, Kp = c.params['T'], c.params['K']
  fps = _fps(c)
  on = _bits(c, 'o', T, Kp)
  dur = c.real('dur', 0, 1)
  seq = sl.pianoroll_onsets_to_note_sequence(
      _to_np(c, on), fps, dur,
      min_midi_pitch=21)
  fl_sec = 1 / fps
  exp = [(on[t][k], (t * fl_sec, t * fl_sec + dur, k + 21))
         for t in range(T) for k in range(Kp)]
  got = [(n.start_time, n.end_time, n.pitch) for n in seq.notes]
  c.check(K.multiset_eq(c, got, exp), 'one note per set onset bit')
  c.check(c.eq(seq.total_time, T * fl_sec + dur), 'total_time')


def h_inverse(c):
  """On the frame grid (power-of-two rates): decode(paint(seq)) == seq."""
  sl = c.mod('sequences_lib')
  pb = c.pb
  fps = _fps(c)
  N = c.params['N']
  F = c.params['frames']
  fl_sec = 1 / fps
  ns = pb.NoteSequence()
  notes = []
  for i in range(N):
    a = c.int('n%d_a' % i, 0, F - 1)
    b = c.int('n%d_b' % i, 1, F)
    c.assume(a < b)
    p = c.int('n%d_p' % i, 60, 61)
    ns.notes.add(start_time=a * fl_sec, end_time=b * fl_sec, pitch=p,
                 velocity=70)
    notes.append((a, b, p))
  for i in range(N):
    for j in range(i + 1, N):
      A, B = notes[i], notes[j]
      # at least one silent frame between same-pitch notes
      c.assume(c.Or(c.Not(c.eq(A[2], B[2])), A[1] < B[0], B[1] < A[0]))
  ns.total_time = F * fl_sec
  roll = sl.sequence_to_pianoroll(ns, fps, 60, 61)
  back = sl.pianoroll_to_note_sequence(roll.active, fps, 0, min_midi_pitch=60)
  got = [(n.start_time, n.end_time, n.pitch) for n in back.notes]
  exp = [(True, (a * fl_sec, b * fl_sec, p)) for a, b, p in notes]
  c.check(K.multiset_eq(c, got, exp),
          'decode(paint(notes on the grid)) gives the same notes back')


HARNESSES = {
    'h_paint': h_paint,
    'h_decode': h_decode,
    'h_onsets_only': h_onsets_only,
    'h_inverse': h_inverse,
}

# ---------------------------------------------------------------------------
# E2 lemma


def _grid_terms(fps_value):
  """Builds, from the repo's ASTs, int(start*fps) and ceil(end*fps) for a time
  produced by end_pitch from frame index k."""
  import ast  # pylint: disable=g-import-not-at-top
  import z3  # pylint: disable=g-import-not-at-top
  from engine import fpk  # pylint: disable=g-import-not-at-top
  dec, _ = fpk.get_function('sequences_lib', 'pianoroll_to_note_sequence')
  enc, _ = fpk.get_function('sequences_lib', 'sequence_to_pianoroll')
  end_pitch = [n for n in dec.body if isinstance(n, ast.FunctionDef) and
               n.name == 'end_pitch'][0]
  fft = [n for n in enc.body if isinstance(n, ast.FunctionDef) and
         n.name == 'frames_from_times'][0]
  fl_assign = [n for n in dec.body if isinstance(n, ast.Assign) and
               getattr(n.targets[0], 'id', '') == 'frame_length_seconds'][0]
  k = z3.BitVec('k', 64)
  fps = fpk.fp(float(fps_value)) if isinstance(fps_value, float) else fpk.iv(
      fps_value)
  tr = fpk.Translator()
  env = {'frames_per_second': fps}
  env['frame_length_seconds'] = tr.expr(fl_assign.value, env)
  env['pitch_start_step[pitch]'] = fpk.V(k, 'int')
  env['end_frame'] = fpk.V(k, 'int')
  st = [n for n in end_pitch.body if isinstance(n, ast.Assign) and
        getattr(n.targets[0], 'id', '') == 'start_time'][0]
  en = [n for n in end_pitch.body if isinstance(n, ast.Assign) and
        getattr(n.targets[0], 'id', '') == 'end_time'][0]
  t_start = tr.expr(st.value, env)
  t_end = tr.expr(en.value, env)
  tr2 = fpk.Translator(consts={'frames_per_second': fps,
                               'min_frame_occupancy_for_label': 0.0})
  res_s = tr2.function(fft, {'start_time': t_start, 'end_time': t_start})
  res_e = tr2.function(fft, {'start_time': t_end, 'end_time': t_end})
  # start frame of a note starting at grid index k; end frame (before the
  # at-least-one-frame rule) of a note ending at grid index k
  start_frame = res_s[0]
  # recompute the raw ceil for the end time
  ce = [n for n in fft.body if isinstance(n, ast.Assign) and
        getattr(n.targets[0], 'id', '') == 'end_frame'][0]
  raw_end = tr2.expr(ce.value, {'end_time': t_end})
  return k, start_frame, raw_end


def _lemma(job):
  import z3  # pylint: disable=g-import-not-at-top
  from engine import fpk  # pylint: disable=g-import-not-at-top
  known = set(job.get('known') or [])
  obligations = []
  viol = []
  status = 'ok'
  err = None
  # translator validation against the real arithmetic
  for name, v in _FPS.items():
    k, sf, ef = _grid_terms(v)
    for kk in (0, 1, 7, 29, 100, 7424, 99999):
      got_s = fpk.eval_concrete(sf, [(k, kk)])
      got_e = fpk.eval_concrete(ef, [(k, kk)])
      import math  # pylint: disable=g-import-not-at-top
      t = kk * (1 / v)
      if got_s != int(t * v) or got_e != int(math.ceil(t * v)):
        return {'status': 'error', 'error': 'FP translator disagrees with the '
                'frame arithmetic at fps=%s k=%d' % (name, kk)}
  for name, v in _FPS.items():
    k, sf, ef = _grid_terms(v)
    rng = z3.And(k >= 0, k <= 100000)
    r = fpk.solve([rng, z3.Or(sf.t != k, ef.t != k)], timeout_s=120,
                  want_model={'k': k})
    pow2 = name in ('8', '16', '32')
    o = {'lemma': 'L-C18[fps=%s]' % name,
         'statement': 'forall k in [0,1e5]: int(fl(fl(k*fl(1/fps))*fps)) == k '
                      'and ceil(...) == k (binary64)',
         'expect': 'unsat', 'result': r['result'], 'seconds': r['seconds'],
         'backend': r['backend'], 'discharged': r['result'] == 'unsat'}
    if r['result'] == 'sat':
      o['counterexample_k'] = r['model']['k']
      if 'F-C18-a' in known and not pow2:
        o['known_finding'] = 'F-C18-a'
        o['discharged'] = True
      else:
        viol.append({'label': 'L-C18 frame grid drifts in binary64',
                     'values': {'fps': name, 'k': r['model']['k']},
                     'source': 'solver'})
    elif r['result'] != 'unsat':
      status, err = 'inconclusive', 'L-C18[fps=%s]: %s' % (name, r['result'])
    obligations.append(o)
  r = fpk.solve([z3.BitVec('k', 64) >= 0], timeout_s=10)
  obligations.append({'lemma': 'L-C18-twin', 'statement': 'range satisfiable',
                      'expect': 'sat', 'result': r['result'],
                      'discharged': r['result'] == 'sat', 'seconds': r['seconds'],
                      'backend': r['backend']})
  out = {'obligations': obligations, 'status': status,
         'solver_queries': len(obligations),
         'solver_seconds': round(sum(o['seconds'] for o in obligations), 3)}
  if err:
    out['error'] = err
  if viol:
    out['violations'] = viol
    out['status'] = 'violation'
  return out


def h_lemma_witness(c):
  """Concrete replay: a note on frame k of the grid comes back on frame k."""
  sl = c.mod('sequences_lib')
  np = c.np
  fps = float(_FPS[c.values['fps']])
  k = int(c.values['k'])
  frames = np.zeros((k + 2, 1))
  frames[k, 0] = 1
  seq = sl.pianoroll_to_note_sequence(frames, fps, 0, min_midi_pitch=60)
  # same total_time for painting: make the roll long enough
  seq.total_time = (k + 3) * (1 / fps)
  roll = sl.sequence_to_pianoroll(seq, fps, 60, 60)
  act = [int(roll.active[i][0]) for i in range(len(roll.active))]
  want = [1 if i == k else 0 for i in range(len(act))]
  c.check(act == want, 'L-C18 frame grid drifts in binary64')


HARNESSES['lemma_grid'] = h_lemma_witness
FUNCS = {'lemma_grid': _lemma}


def jobs(tier):
  J = []

  def add(h, budget=300, required=True, jobkind='symex', **params):
    J.append({'harness': h, 'params': params, 'budget_s': budget,
              'required': required, 'kind': jobkind})

  deep = tier == 'thorough'
  add('lemma_grid', jobkind='func', budget=900)
  add('h_paint', N=1, fps='8', frames=4, mode='window')
  add('h_paint', N=2, fps='16', frames=3, mode='window', budget=600)
  add('h_paint', N=1, fps='50', frames=5, mode='length_ms', onset_len_ms=30)
  add('h_paint', N=1, fps='31.25', frames=4, mode='window', delay_ms=20.0)
  # non-default onset window sizes and velocity normalisation
  add('h_paint', N=1, fps='16', frames=4, mode='window', onset_window=0)
  add('h_paint', N=1, fps='16', frames=5, mode='window', onset_window=2,
      max_velocity=200)
  add('h_paint', N=1, fps='16', frames=3, mode='window', max_velocity=64)
  # onset length longer than the note, with a delay
  add('h_paint', N=1, fps='32', frames=5, mode='length_ms', onset_len_ms=62.5,
      delay_ms=31.25, budget=600)
  add('h_paint', N=1, fps='100', frames=4, mode='window', occupancy=0.5)
  # add_blank_frame_before_onset: only the frame before an onset is silenced
  add('h_paint', N=1, fps='8', frames=4, mode='window', blank=True)
  add('h_paint', N=2, fps='16', frames=3, mode='window', blank=True, budget=600)
  add('h_decode', T=3, K=1, fps='50')
  add('h_decode', T=3, K=2, fps='31.25', budget=600)
  add('h_decode', T=2, K=1, fps='16', onsets=True)
  # a fresh onset inside a run splits it; each half keeps its own velocity
  add('h_decode', T=3, K=1, fps='16', onsets=True, velocities=True, budget=900)
  add('h_decode', T=4, K=1, fps='32', onsets=True, offsets=True,
      velocities=True, budget=900)
  add('h_decode', T=3, K=2, fps='16', onsets=True, velocities=True, budget=900)
  add('h_decode', T=2, K=1, fps='100', onsets=True, offsets=True)
  add('h_onsets_only', T=2, K=2, fps='62.5')
  add('h_inverse', N=1, fps='16', frames=4)
  add('h_inverse', N=2, fps='32', frames=4, budget=600)
  if deep:
    for fps in _FPS:
      add('h_paint', N=2, fps=fps, frames=6, mode='window', budget=2400,
          required=fps in ('8', '50'))
      add('h_paint', N=1, fps=fps, frames=8, mode='length_ms', onset_len_ms=30,
          budget=1800)
    add('h_paint', N=2, fps='62.5', frames=5, mode='window', delay_ms=-20.0,
        occupancy=0.25, budget=2400, required=False)
    add('h_decode', T=5, K=1, fps='50', budget=1800)
    add('h_decode', T=5, K=2, fps='8', budget=3000, required=False)
    add('h_decode', T=4, K=2, fps='62.5', budget=2400)
    add('h_decode', T=3, K=1, fps='16', onsets=True, budget=1800)
    add('h_decode', T=3, K=1, fps='100', onsets=True, offsets=True, budget=2400)
    add('h_decode', T=2, K=2, fps='32', onsets=True, offsets=True, budget=2400,
        required=False)
    add('h_onsets_only', T=3, K=2, fps='100', budget=900)
    for fps in ('8', '16', '32'):
      add('h_inverse', N=2, fps=fps, frames=6, budget=2400)
  return J
