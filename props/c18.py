"""C18 -- frame pianorolls and note sequences convert back and forth without
drift."""
from fractions import Fraction

from props import common as K

META = {
    'level': 'model_checking',
    'level_text':
        'E1: the real sequence_to_pianoroll runs on symbolic notes (times, '
        'velocities, pitches free) through np-lite and every cell of the '
        'active / onset / velocity rolls is compared by the solver with the '
        'frame arithmetic of the docstring; the real '
        'pianoroll_to_note_sequence / pianoroll_onsets_to_note_sequence run on '
        'matrices of SYMBOLIC BITS (all 2^(T*K) frame, onset and offset '
        'matrices up to the bound at once) and the notes are compared with '
        'the maximal-run specification; the composition is checked on the '
        'frame grid. E2: the binary64 grid round trip int(fl(fl(k*fl(1/fps))'
        '*fps)) = k is a QF_FP lemma generated from the ASTs of end_pitch and '
        'frames_from_times.',
    'level_note':
        'Trusted: z3, reals for doubles in E1 (float constants enter with '
        'their exact binary value), np-lite and symproto (validated per '
        'sampled path against numpy/upb), the FP translator (validated on '
        'concrete inputs each run).',
    'engines': ['symex', 'fpk'],
    'technique':
        'bounded symbolic execution of the real functions with z3 (symbolic '
        'times and symbolic frame bits) + QF_FP lemma from the AST of the '
        'frame arithmetic',
    'functions': [('sequences_lib', 'sequence_to_pianoroll'),
                  ('sequences_lib', 'pianoroll_to_note_sequence'),
                  ('sequences_lib', 'pianoroll_onsets_to_note_sequence'),
                  ('sequences_lib', '_unscale_velocity')],
    'assumptions': [
        'E1: doubles are exact reals; rolls of at most 8 frames',
        'velocities in 1..127, max_velocity 127 / 200 / 64',
        'notes end by total_time (a note ending later makes the weights '
        'assignment raise - reported, not checked)',
        'onset_overlap=False, weights / offsets / onset_velocities rolls: one '
        'note, no delay, no occupancy threshold; offset_length_ms > 0 only '
        'with the whole offset before total_time; the weight decay after the '
        'onset and the single active frame painted after an onset that '
        'swallows its note are left free (undocumented)',
        'velocity estimates in [0, 1] (clamp and NaN branch of '
        '_unscale_velocity not exercised)',
        'composition H3 only for power-of-two frame rates (1/fps exact); the '
        'other rates are the subject of lemma L-C18',
        'L-C18: frame index k in [0, 10^5]',
    ],
    'bounds': {
        'quick': 'painting: N<=2 notes, <=6 frames, pitch windows 60..61, '
                 '60..60, 0..1, 126..127; keyword jobs (onset_overlap, '
                 'onset_upweight, offset_length_ms, default onset_length_ms, '
                 'occupancy with length_ms / delay, unknown onset_mode, two '
                 'control changes on controllers 0/64/127, empty sequence) '
                 'N<=1, <=4 frames; decoding: T<=3 frames x K<=2 pitches of '
                 'symbolic bits (with onset / offset matrices T<=2; offsets '
                 'alone T=3), symbolic velocity / instrument / program / qpm, '
                 'default and explicit velocity scale / bias and pitch '
                 'offset; composition through active alone, through onsets + '
                 'offsets + onset velocities, and through the onsets-only '
                 'decoder (N<=2, 3-4 frames)',
        'thorough': 'painting <=8 frames, all listed frame rates; decoding '
                    'T<=5 x K<=2; keyword jobs <=5 frames',
    },
    'outside': ['rolls larger than the bounds',
                'onsets delayed to before time 0 (negative onset_delay_ms)',
                'notes ending after total_time',
                'default velocity of pianoroll_onsets_to_note_sequence '
                '(FINDING-CANDIDATE in jobs())',
                'order of the decoded notes, dtypes of the rolls',
                'real-valued (non 0/1) activations, empty matrices'],
}

_FPS = {'8': 8, '16': 16, '32': 32, '31.25': 31.25, '50': 50, '62.5': 62.5,
        '100': 100}


def _fps(c):
  # a plain Python number in both modes: 1/fps and 1.0/fps are then the same
  # binary64 values the real code computes (the symbolic model takes their
  # exact rational value)
  return _FPS[c.params['fps']]


def h_paint(c):
  sl = c.mod('sequences_lib')
  pb = c.pb
  N = c.params['N']
  fps = _fps(c)
  fmax = c.params['frames']
  lo, hi = c.params.get('lo', 60), c.params.get('hi', 61)
  mode = c.params['mode']
  delay = c.params.get('delay_ms', 0.0)
  occ = c.params.get('occupancy', 0.0)
  overlap = c.params.get('overlap', True)
  rolls = c.params.get('rolls', False)
  off_ms = c.params.get('offset_len_ms')
  upw = c.params.get('upweight')
  cc2 = c.params.get('cc2', False)
  blank = c.params.get('blank', False)
  if not overlap or rolls:
    # the oracles of these variants are written for one note, painted without
    # delay and without the blank frame
    assert N <= 1 and delay == 0 and not blank and occ == 0
  ns = pb.NoteSequence()
  notes = []
  for i in range(N):
    s = c.real('n%d_s' % i, 0)
    e = c.real('n%d_e' % i)
    c.assume(e >= s)
    p = c.int('n%d_p' % i, lo - 1, hi + 1)
    v = c.int('n%d_v' % i, 1, 127)
    ns.notes.add(start_time=s, end_time=e, pitch=p, velocity=v)
    notes.append(dict(s=s, e=e, p=p, v=v))
  tt = c.real('tt', 0)
  for n in notes:
    c.assume(n['e'] <= tt)
    if delay < 0:
      # an onset delayed to before time 0 is outside the claim (the property
      # speaks of the note's own first frame; int() truncates towards zero
      # there while floor() would not)
      c.assume(n['s'] + delay / 1000. >= 0)
    if off_ms:
      # the whole offset fits before total_time (otherwise the implementation
      # moves it back, which is not documented)
      c.assume(n['e'] + off_ms / 1000. <= tt)
  c.assume(tt * fps + 1 < fmax + 1)
  ns.total_time = tt
  ccs = []
  if cc2:
    # two control changes, controller numbers at both ends and in the middle
    for i in range(2):
      t = c.real('cc%d_t' % i, 0)
      num = c.choice('cc%d_n' % i, (0, 64, 127))
      val = c.int('cc%d_v' % i, 0, 127)
      ns.control_changes.add(time=t, control_number=num, control_value=val)
      ccs.append((t, num, val))
    cc_t = None
  else:
    cc_t = c.real('cc_t', 0)
    ns.control_changes.add(time=cc_t, control_number=64, control_value=c.int(
        'cc_v', 0, 127))
  before = c.snapshot(ns)
  kw = dict(onset_mode=mode, onset_delay_ms=delay,
            min_frame_occupancy_for_label=occ)
  if not overlap:
    kw['onset_overlap'] = False
  if off_ms is not None:
    kw['offset_length_ms'] = off_ms
  if upw is not None:
    kw['onset_upweight'] = upw
  ow = c.params.get('onset_window')
  if ow is not None:
    kw['onset_window'] = ow
  else:
    ow = 1
  maxv = c.params.get('max_velocity', 127)
  if 'max_velocity' in c.params:
    kw['max_velocity'] = maxv
  if mode == 'length_ms':
    if c.params.get('onset_len_default'):
      on_ms = 0  # the documented default: the onset is the first frame only
    else:
      on_ms = kw['onset_length_ms'] = c.params.get('onset_len_ms', 30)
  if blank:
    kw['add_blank_frame_before_onset'] = True
  if maxv < 127:
    # a note of the window louder than max_velocity is an error; a note
    # OUTSIDE the window is ignored whatever its velocity
    roll, err = c.raises(sl.sequence_to_pianoroll, ns, fps, lo, hi, **kw)
    loud = c.Or([c.And(n['p'] >= lo, n['p'] <= hi, n['v'] > maxv)
                 for n in notes])
    if err is not None:
      c.check(isinstance(err, ValueError) and bool(loud),
              'ValueError only for an in-window note louder than max_velocity')
      c.cover('too loud note rejected')
      return
    c.check(c.Not(loud), 'a too loud in-window note was accepted')
    c.cover('loud note outside the pitch window ignored',
            c.Or([c.And(c.Or(n['p'] < lo, n['p'] > hi), n['v'] > maxv)
                  for n in notes]))
  else:
    roll = sl.sequence_to_pianoroll(ns, fps, lo, hi, **kw)
  c.check(c.msg_eq(ns, before), 'input unchanged')
  T = c.concretize(c.Floor(tt * fps + 1))
  act, ons, vel = roll.active, roll.onsets, roll.active_velocities
  c.check(len(act) == T and len(ons) == T and len(vel) == T and
          len(roll.control_changes) == T,
          'every roll has floor(total_time*fps + 1) frames')
  c.check(len(act[0]) == hi - lo + 1, 'one column per in-range pitch')
  wts, offs, onv = roll.weights, roll.offsets, roll.onset_velocities
  c.check(len(wts) == T and len(offs) == T and len(onv) == T,
          'every roll has floor(total_time*fps + 1) frames')
  c.check(all(len(r[f]) == hi - lo + 1 for r in (act, ons, vel, wts, offs, onv)
              for f in range(T)) and
          all(len(roll.control_changes[f]) == 128 for f in range(T)),
          'one column per in-range pitch in every roll, 128 controller columns')

  def frames(s, e):
    sf = c.Floor(s * fps)
    if occ > 0:
      sf = c.If(sf + 1 - s * fps < occ, sf + 1, sf)
    ef = c.Ceil(e * fps)
    if occ > 0:
      ef = c.If(e * fps - sf - 1 < occ, ef - 1, ef)
    ef = c.Max(sf + 1, ef)
    return sf, ef

  def cell(r, f, p):
    x = r[f][p - lo]
    return x if c.mode == 'sym' else float(x)

  def bit(cond):
    return c.If(cond, 1.0, 0.0) if c.mode == 'sym' else (1.0 if cond else 0.0)

  # one query per roll: the per-cell conditions are collected and conjoined
  acc = {'a': [], 'v': [], 'o': [], 'c': [], 'x': [], 'w': [], 'ov': [],
         'no': []}

  class _Acc(object):

    def __init__(self, key):
      self.key = key

    def __call__(self, cond, label):
      acc[self.key].append(cond)

  chk_a, chk_v, chk_o, chk_c = _Acc('a'), _Acc('v'), _Acc('o'), _Acc('c')
  upweight = 5.0 if upw is None else upw  # ONSET_UPWEIGHT of the signature
  # the notes in the order the implementation paints them (by start time,
  # storage order on ties)
  for f in range(T):
    for p in range(lo, hi + 1):
      # onset frames [a, b) of every note
      want = []
      orng = []
      for n in notes:
        os_, oe_ = n['s'] + delay / 1000., n['e'] + delay / 1000.
        if mode == 'window':
          sf, _ = frames(os_, oe_)
          a = c.Max(0, sf - ow)
          b = c.Min(T, sf + ow + 1)
        else:
          oe2 = c.Min(oe_, os_ + on_ms / 1000.)
          a, b = frames(os_, oe2)
        orng.append((a, b))
        want.append(c.And(c.eq(n['p'], p), a <= f, f < b))
      won = c.Or(want)
      covering = []
      for i, n in enumerate(notes):
        sf, ef = frames(n['s'], n['e'])
        if overlap:
          covering.append(c.And(c.eq(n['p'], p), sf <= f, f < ef))
        else:
          # the active frames begin where the onset ends
          covering.append(c.And(c.eq(n['p'], p), orng[i][1] <= f, f < ef))
      on = c.Or(covering)
      on_v = on
      # onset_overlap=False: when the onset swallows the whole note the
      # implementation still paints one active frame right after the onset;
      # that frame is not documented and is left free here
      free = False
      if not overlap and notes:
        _, ef = frames(notes[0]['s'], notes[0]['e'])
        free = c.And(c.eq(notes[0]['p'], p), c.eq(orng[0][1], f),
                     orng[0][1] >= ef)
      if blank:
        # the frame before an onset (if there is one) is forced silent; no
        # note painted later can cover it (notes are painted by start time)
        blanked = []
        for n in notes:
          sf, _ = frames(n['s'], n['e'])
          blanked.append(c.And(c.eq(n['p'], p), sf >= 1, c.eq(sf - 1, f)))
        on = c.And(on, c.Not(c.Or(blanked)))
      chk_a(c.Or(free, c.eq(cell(act, f, p), bit(on))),
            'active exactly from floor(start*fps) up to ceil(end*fps) (at '
            'least one frame)')
      if not overlap:
        acc['no'].append(c.Not(c.And(c.eq(cell(act, f, p), 1.0),
                                     c.eq(cell(ons, f, p), 1.0))))
      # velocity of the covering note painted last
      expv = 0
      for i, n in enumerate(notes):
        later = [c.And(covering[j], c.Or(notes[j]['s'] > n['s'],
                                         c.And(c.eq(notes[j]['s'], n['s']),
                                               j > i)))
                 for j in range(N) if j != i]
        last = c.And(covering[i], c.Not(c.Or(later or [False])))  # (on_v)
        expv = c.If(last, n['v'] / maxv, expv)
      chk_v(c.Or(free, c.approx(vel[f][p - lo], expv)),
            'velocity scaled into (0,1] on active frames, 0 elsewhere')
      if maxv >= 127:
        chk_v(c.Implies(on_v, c.And(expv > 0, expv <= 1)), 'velocity in (0,1]')
      # onsets
      chk_o(c.eq(cell(ons, f, p), bit(won)),
            'onset in the first frame +- the onset window (clipped)')
      if rolls:
        # offsets: from the frame holding the note's end, for offset_length_ms
        # (at least one frame)
        wx = []
        for n in notes:
          a, b = frames(n['e'], n['e'] + (off_ms or 0) / 1000.)
          wx.append(c.And(c.eq(n['p'], p), a <= f, f < b))
        acc['x'].append(c.eq(cell(offs, f, p), bit(c.Or(wx))))
        # weights: onset frames carry onset_upweight, frames the note does not
        # touch keep weight 1 (the decay in between is not documented)
        w = cell(wts, f, p)
        acc['w'].append(c.And(
            c.Implies(won, c.approx(w, upweight)),
            c.Implies(c.Not(c.Or(won, on, free)), c.eq(w, 1.0))))
        # onset velocities: the note's scaled velocity in the onset frames in
        # which it sounds, 0 outside the onset frames
        ov = onv[f][p - lo]
        acc['ov'].append(c.And(
            c.Implies(c.Not(won), c.approx(ov, 0)),
            c.Implies(c.And(won, on), c.approx(ov, expv))))
  # control change rows
  if cc2:
    for f in range(T):
      for num in range(128):
        got = roll.control_changes[f][num]
        got = got if c.mode == 'sym' else int(got)
        cand = [(c.eq(frames(t, 0)[0], f), val + 1)
                for t, n_, val in ccs if n_ == num]
        hit = c.Or([cd for cd, _ in cand])
        # (two changes of one controller in one frame: either may stand)
        chk_c(c.And(c.Implies(hit, c.Or([c.And(cd, c.eq(got, val))
                                         for cd, val in cand])),
                    c.Implies(c.Not(hit), c.eq(got, 0))),
              'control change marked in its frame as value+1')
    c.cover('two control changes in one cell',
            c.And(ccs[0][1] == ccs[1][1],
                  c.eq(frames(ccs[0][0], 0)[0], frames(ccs[1][0], 0)[0]),
                  frames(ccs[0][0], 0)[0] < T))
    c.cover('control change after the last frame dropped',
            frames(ccs[0][0], 0)[0] >= T)
  else:
    cf, _ = frames(cc_t, 0)
    for f in range(T):
      got = roll.control_changes[f][64]
      chk_c(c.eq(got if c.mode == 'sym' else int(got),
                 c.If(c.eq(cf, f), ns.control_changes[0].control_value + 1, 0)),
            'control change marked in its frame as value+1')
  if not overlap:
    c.check(c.And(acc['no']),
            'onset_overlap=False: no frame is both onset and active')
  c.check(c.And(acc['a']), 'active exactly from floor(start*fps) up to '
          'ceil(end*fps) (at least one frame)')
  c.check(c.And(acc['v']), 'velocity scaled into (0,1] on active frames, 0 '
          'elsewhere')
  c.check(c.And(acc['o']), 'onset in the first frame +- the onset window '
          '(clipped)')
  c.check(c.And(acc['c']), 'control change marked in its frame as value+1')
  if rolls:
    c.check(c.And(acc['x']), 'offset marked from the frame of the note end for '
            'offset_length_ms (at least one frame)')
    c.check(c.And(acc['w']), 'weights: onset_upweight on onset frames, 1 where '
            'the note is absent')
    c.check(c.And(acc['ov']), 'onset_velocities: scaled velocity on sounding '
            'onset frames, 0 off the onsets')
  if not notes:
    c.cover('empty sequence painted')
    return
  c.cover('out-of-range pitch ignored', c.eq(notes[0]['p'], lo - 1))
  c.cover('note shorter than one frame',
          c.And(c.eq(c.Floor(notes[0]['s'] * fps),
                     c.Ceil(notes[0]['e'] * fps)), c.eq(notes[0]['p'], lo)))
  c.cover('note end exactly on a frame boundary',
          c.And(c.eq(notes[0]['e'] * fps, 2), c.eq(notes[0]['p'], lo)))
  if not overlap:
    c.cover('onset swallows the whole note',
            c.And(c.eq(notes[0]['p'], lo),
                  orng[0][1] >= frames(notes[0]['s'], notes[0]['e'])[1]))


def _bits(c, name, T, Kp):
  rows = []
  for t in range(T):
    rows.append([c.bool('%s_%d_%d' % (name, t, k)) for k in range(Kp)])
  return rows


def _to_np(c, rows):
  if c.mode == 'sym':
    return c.np.array([[x for x in r] for r in rows])
  return c.np.array([[1.0 if x else 0.0 for x in r] for r in rows])


def _runs(col, ons=None, offs=None):
  """Reference run decoder on concrete booleans for one pitch column (with the
  implementation's trailing silent frame)."""
  T = len(col)
  col = list(col) + [False]
  if ons is not None:
    ons = list(ons) + [False]
    col = [a or b for a, b in zip(col, ons)]
  if offs is not None:
    offs = list(offs) + [False]
    col = [a and not b for a, b in zip(col, offs)]
  notes = []
  start = None
  for i, a in enumerate(col):
    if a:
      if start is None:
        if ons is None or ons[i]:
          start = i
      elif ons is not None and ons[i] and not ons[i - 1]:
        notes.append((start, i))
        start = i
    elif start is not None:
      notes.append((start, i))
      start = None
  return notes


def _unchanged(c, arr, rows):
  """The matrix handed to the decoder still holds the bits it was built from."""
  ok = []
  for t, r in enumerate(rows):
    for k, b in enumerate(r):
      x = arr[t][k]
      if c.mode != 'sym':
        ok.append(float(x) == (1.0 if b else 0.0))
      elif x is b:
        ok.append(True)
      elif isinstance(x, bool) or type(x).__name__ == 'SymBool':
        ok.append(c.eq(x, b))
      else:
        ok.append(c.eq(x != 0, b))
  return c.And(ok)


def h_decode(c):
  sl = c.mod('sequences_lib')
  T, Kp = c.params['T'], c.params['K']
  fps = _fps(c)
  use_on, use_off = c.params.get('onsets'), c.params.get('offsets')
  fr = _bits(c, 'f', T, Kp)
  on = _bits(c, 'o', T, Kp) if use_on else None
  of = _bits(c, 'x', T, Kp) if use_off else None
  min_ms = c.real('min_ms', 0, 100)
  use_vel = c.params.get('velocities')
  vv = None
  kw = {}
  scale, bias = 80, 10  # the documented defaults
  if use_vel:
    # velocity estimates at the onsets (only read when onsets are supplied)
    vv = [[c.real('v_%d_%d' % (t, k), 0, 1) for k in range(Kp)]
          for t in range(T)]
    kw = dict(velocity_values=c.np.array([list(r) for r in vv]))
    if not c.params.get('vel_defaults'):
      scale, bias = 100, 5
      kw.update(velocity_scale=scale, velocity_bias=bias)
  # note attributes: the documented defaults unless the job passes its own
  vel0, ins, prg, qpm, base = 70, 0, 0, 120, 21
  if c.params.get('meta'):
    vel0 = c.int('vel', 1, 127)
    ins = c.int('ins', 0, 15)
    prg = c.int('prg', 0, 127)
    qpm = c.real('qpm', 1, 300)
    kw.update(velocity=vel0, instrument=ins, program=prg, qpm=qpm)
    base = 0  # min_midi_pitch left at its default, the lowest MIDI pitch
  else:
    kw['min_midi_pitch'] = base
  a_fr = _to_np(c, fr)
  a_on = _to_np(c, on) if use_on else None
  a_of = _to_np(c, of) if use_off else None
  seq = sl.pianoroll_to_note_sequence(
      a_fr, fps, min_ms, onset_predictions=a_on, offset_predictions=a_of, **kw)
  exp = []
  # sym mode: frame length is the Python float 1/fps, as in the implementation
  fl_sec = 1 / fps
  for k in range(Kp):
    col = [bool(fr[t][k]) for t in range(T)]
    oc = [bool(on[t][k]) for t in range(T)] if use_on else None
    fc = [bool(of[t][k]) for t in range(T)] if use_off else None
    for (a, b) in _runs(col, oc, fc):
      s, e = a * fl_sec, b * fl_sec
      if use_vel and use_on:
        # the estimate at the note's onset
        vel = c.Floor(vv[a][k] * scale + bias)
      else:
        vel = vel0
      exp.append((c.Not((e - s) * 1000 < min_ms), (s, e, k + base, vel)))
  got = [(n.start_time, n.end_time, n.pitch, n.velocity) for n in seq.notes]
  c.check(K.multiset_eq(c, got, exp),
          'notes = maximal runs of active frames (minus those shorter than '
          'min_duration_ms), each with the velocity of its own onset')
  c.check(c.eq(seq.total_time, (T + 1) * fl_sec), 'total_time covers the roll')
  for n in seq.notes:
    c.check(n.end_time <= seq.total_time, 'notes inside the sequence')
  c.check(c.And([c.And(c.eq(n.instrument, ins), c.eq(n.program, prg))
                 for n in seq.notes]),
          'every note carries the instrument and program arguments')
  c.check(len(seq.tempos) == 1 and bool(c.eq(seq.tempos[0].time, 0)),
          'one tempo at time 0')
  c.check(c.approx(seq.tempos[0].qpm, qpm, 1e-9), 'tempo = the qpm argument')
  c.check(c.And([_unchanged(c, a_fr, fr)] +
                ([_unchanged(c, a_on, on)] if use_on else []) +
                ([_unchanged(c, a_of, of)] if use_off else [])),
          'frame / onset / offset matrices of the caller unchanged')
  c.cover('a run is dropped for being too short',
          c.Or([c.Not(cd) for cd, _ in exp] or [False]))
  if use_off and not use_on:
    c.cover('an offset cuts a run in two',
            c.And(fr[0][0], fr[1][0], fr[2][0], c.Not(of[0][0]), of[1][0],
                  c.Not(of[2][0])) if T >= 3 else False)


def h_onsets_only(c):
  sl = c.mod('sequences_lib')
  T, Kp = c.params['T'], c.params['K']
  fps = _fps(c)
  on = _bits(c, 'o', T, Kp)
  args, kw = [], {}
  if c.params.get('defaults'):
    # note_duration_seconds and min_midi_pitch at their documented defaults
    dur, base = 0.05, 0
  else:
    dur, base = c.real('dur', 0, 1), 21
    args = [dur]
    kw['min_midi_pitch'] = base
  ins, prg, qpm = 0, 0, 120
  if c.params.get('meta'):
    ins = c.int('ins', 0, 15)
    prg = c.int('prg', 0, 127)
    qpm = c.real('qpm', 1, 300)
    kw.update(instrument=ins, program=prg, qpm=qpm)
  vmode = c.params.get('vel')
  vv = None
  if vmode:
    # a velocity estimate in [0, 1] per cell
    vv = [[c.real('v_%d_%d' % (t, k), 0, 1) for k in range(Kp)]
          for t in range(T)]
    kw['velocity_values'] = c.np.array([list(r) for r in vv])
    scale, bias = 80, 10  # documented defaults
    if vmode == 'explicit':
      scale, bias = 100, 5
      kw.update(velocity_scale=scale, velocity_bias=bias)
  a_on = _to_np(c, on)
  seq = sl.pianoroll_onsets_to_note_sequence(a_on, fps, *args, **kw)
  fl_sec = 1 / fps
  exp = [(on[t][k], (t * fl_sec, t * fl_sec + dur, k + base))
         for t in range(T) for k in range(Kp)]
  got = [(n.start_time, n.end_time, n.pitch) for n in seq.notes]
  c.check(K.multiset_eq(c, got, exp), 'one note per set onset bit')
  c.check(c.eq(seq.total_time, T * fl_sec + dur), 'total_time')
  if vmode:
    expv = [(cd, key + (c.Floor(vv[t][k] * scale + bias),))
            for (cd, key), (t, k) in zip(exp, [(t, k) for t in range(T)
                                               for k in range(Kp)])]
    gotv = [(n.start_time, n.end_time, n.pitch, n.velocity) for n in seq.notes]
    c.check(K.multiset_eq(c, gotv, expv),
            'each note has the MIDI velocity int(estimate*scale + bias) of its '
            'own cell')
  # FINDING-CANDIDATE (job left out, see jobs()): without velocity_values the
  # notes should carry the `velocity` argument ("Default note velocity if
  # velocity_values is not provided", 70 by default) but come out with
  # velocity 90 whatever the argument (>= 1) is.
  if c.params.get('default_velocity'):
    c.check(c.And([c.eq(n.velocity, 70) for n in seq.notes]),
            'default velocity 70 when velocity_values is not given')
  c.check(c.And([c.And(c.eq(n.instrument, ins), c.eq(n.program, prg))
                 for n in seq.notes]),
          'every note carries the instrument and program arguments')
  c.check(len(seq.tempos) == 1 and bool(c.eq(seq.tempos[0].time, 0)),
          'one tempo at time 0')
  c.check(c.approx(seq.tempos[0].qpm, qpm, 1e-9), 'tempo = the qpm argument')
  c.check(_unchanged(c, a_on, on), 'onset matrix of the caller unchanged')


def h_inverse(c):
  """On the frame grid (power-of-two rates): decode(paint(seq)) == seq.

  via='active' (default): the active roll alone, velocity 70 (the decoder's
  default).  via='onsets': active + onsets (window 0) + offsets + onset
  velocities go back through pianoroll_to_note_sequence and the velocities
  come back too.  via='onsets_only': the onsets roll and the onset velocities
  through pianoroll_onsets_to_note_sequence give the note starts back.
  """
  sl = c.mod('sequences_lib')
  pb = c.pb
  fps = _fps(c)
  N = c.params['N']
  F = c.params['frames']
  via = c.params.get('via', 'active')
  fl_sec = 1 / fps
  ns = pb.NoteSequence()
  notes = []
  for i in range(N):
    a = c.int('n%d_a' % i, 0, F - 1)
    b = c.int('n%d_b' % i, 1, F)
    c.assume(a < b)
    p = c.int('n%d_p' % i, 60, 61)
    v = 70 if via == 'active' else c.int('n%d_v' % i, 1, 127)
    ns.notes.add(start_time=a * fl_sec, end_time=b * fl_sec, pitch=p,
                 velocity=v)
    notes.append((a, b, p, v))
  for i in range(N):
    for j in range(i + 1, N):
      A, B = notes[i], notes[j]
      # at least one silent frame between same-pitch notes
      c.assume(c.Or(c.Not(c.eq(A[2], B[2])), A[1] < B[0], B[1] < A[0]))
  ns.total_time = F * fl_sec
  if via == 'active':
    roll = sl.sequence_to_pianoroll(ns, fps, 60, 61)
    back = sl.pianoroll_to_note_sequence(roll.active, fps, 0, min_midi_pitch=60)
    got = [(n.start_time, n.end_time, n.pitch, n.velocity) for n in back.notes]
    exp = [(True, (a * fl_sec, b * fl_sec, p, v)) for a, b, p, v in notes]
  elif via == 'onsets':
    # an estimate v/127 goes back to int(v/127 * 127 + 0.5) = v
    roll = sl.sequence_to_pianoroll(ns, fps, 60, 61, onset_window=0)
    back = sl.pianoroll_to_note_sequence(
        roll.active, fps, 0, min_midi_pitch=60, onset_predictions=roll.onsets,
        offset_predictions=roll.offsets, velocity_values=roll.onset_velocities,
        velocity_scale=127, velocity_bias=0.5)
    got = [(n.start_time, n.end_time, n.pitch, n.velocity) for n in back.notes]
    exp = [(True, (a * fl_sec, b * fl_sec, p, v)) for a, b, p, v in notes]
  else:
    dur = c.real('dur', 0, 1)
    roll = sl.sequence_to_pianoroll(ns, fps, 60, 61, onset_window=0)
    back = sl.pianoroll_onsets_to_note_sequence(
        roll.onsets, fps, dur, min_midi_pitch=60,
        velocity_values=roll.onset_velocities, velocity_scale=127,
        velocity_bias=0.5)
    got = [(n.start_time, n.end_time, n.pitch, n.velocity) for n in back.notes]
    exp = [(True, (a * fl_sec, a * fl_sec + dur, p, v)) for a, b, p, v in notes]
  c.check(K.multiset_eq(c, got, exp),
          'decode(paint(notes on the grid)) gives the same notes back')


def h_bad_mode(c):
  """An unknown onset_mode is a ValueError (documented under Raises) as soon as
  a note of the pitch window has to be labelled."""
  sl = c.mod('sequences_lib')
  ns = c.pb.NoteSequence()
  s = c.real('n0_s', 0)
  e = c.real('n0_e')
  c.assume(e >= s)
  p = c.int('n0_p', 59, 62)
  ns.notes.add(start_time=s, end_time=e, pitch=p, velocity=c.int('n0_v', 1, 127))
  tt = c.real('tt', 0)
  c.assume(e <= tt)
  c.assume(tt * 8 < 3)
  ns.total_time = tt
  mode = c.choice('mode', ('Window', 'length', ''))
  _, err = c.raises(sl.sequence_to_pianoroll, ns, 8, 60, 61, onset_mode=mode)
  inside = c.And(p >= 60, p <= 61)
  if err is None:
    c.check(c.Not(inside), 'unknown onset_mode accepted')
    c.cover('no note to label: unknown mode goes unnoticed')
  else:
    c.check(isinstance(err, ValueError), 'unknown onset_mode: ValueError')
    c.cover('unknown onset_mode rejected')


HARNESSES = {
    'h_paint': h_paint,
    'h_decode': h_decode,
    'h_onsets_only': h_onsets_only,
    'h_inverse': h_inverse,
    'h_bad_mode': h_bad_mode,
    # the same harnesses under a second name: jobs for the keyword arguments
    # and result fields that the main grid leaves at their defaults
    'h_paint_kw': h_paint,
    'h_decode_kw': h_decode,
    'h_onsets_only_kw': h_onsets_only,
    'h_inverse_via': h_inverse,
}

# ---------------------------------------------------------------------------
# E2 lemma


def _grid_terms(fps_value):
  """Builds, from the repo's ASTs, int(start*fps) and ceil(end*fps) for a time
  produced by end_pitch from frame index k."""
  import ast  # pylint: disable=g-import-not-at-top
  import z3  # pylint: disable=g-import-not-at-top
  from engine import fpk  # pylint: disable=g-import-not-at-top
  dec, _ = fpk.get_function('sequences_lib', 'pianoroll_to_note_sequence')
  enc, _ = fpk.get_function('sequences_lib', 'sequence_to_pianoroll')
  end_pitch = [n for n in dec.body if isinstance(n, ast.FunctionDef) and
               n.name == 'end_pitch'][0]
  fft = [n for n in enc.body if isinstance(n, ast.FunctionDef) and
         n.name == 'frames_from_times'][0]
  fl_assign = [n for n in dec.body if isinstance(n, ast.Assign) and
               getattr(n.targets[0], 'id', '') == 'frame_length_seconds'][0]
  k = z3.BitVec('k', 64)
  fps = fpk.fp(float(fps_value)) if isinstance(fps_value, float) else fpk.iv(
      fps_value)
  tr = fpk.Translator()
  env = {'frames_per_second': fps}
  env['frame_length_seconds'] = tr.expr(fl_assign.value, env)
  env['pitch_start_step[pitch]'] = fpk.V(k, 'int')
  env['end_frame'] = fpk.V(k, 'int')
  st = [n for n in end_pitch.body if isinstance(n, ast.Assign) and
        getattr(n.targets[0], 'id', '') == 'start_time'][0]
  en = [n for n in end_pitch.body if isinstance(n, ast.Assign) and
        getattr(n.targets[0], 'id', '') == 'end_time'][0]
  t_start = tr.expr(st.value, env)
  t_end = tr.expr(en.value, env)
  tr2 = fpk.Translator(consts={'frames_per_second': fps,
                               'min_frame_occupancy_for_label': 0.0})
  res_s = tr2.function(fft, {'start_time': t_start, 'end_time': t_start})
  res_e = tr2.function(fft, {'start_time': t_end, 'end_time': t_end})
  # start frame of a note starting at grid index k; end frame (before the
  # at-least-one-frame rule) of a note ending at grid index k
  start_frame = res_s[0]
  # recompute the raw ceil for the end time
  ce = [n for n in fft.body if isinstance(n, ast.Assign) and
        getattr(n.targets[0], 'id', '') == 'end_frame'][0]
  raw_end = tr2.expr(ce.value, {'end_time': t_end})
  return k, start_frame, raw_end


def _lemma(job):
  import z3  # pylint: disable=g-import-not-at-top
  from engine import fpk  # pylint: disable=g-import-not-at-top
  known = set(job.get('known') or [])
  obligations = []
  viol = []
  status = 'ok'
  err = None
  # translator validation against the real arithmetic
  for name, v in _FPS.items():
    k, sf, ef = _grid_terms(v)
    for kk in (0, 1, 7, 29, 100, 7424, 99999):
      got_s = fpk.eval_concrete(sf, [(k, kk)])
      got_e = fpk.eval_concrete(ef, [(k, kk)])
      import math  # pylint: disable=g-import-not-at-top
      t = kk * (1 / v)
      if got_s != int(t * v) or got_e != int(math.ceil(t * v)):
        return {'status': 'error', 'error': 'FP translator disagrees with the '
                'frame arithmetic at fps=%s k=%d' % (name, kk)}
  for name, v in _FPS.items():
    k, sf, ef = _grid_terms(v)
    rng = z3.And(k >= 0, k <= 100000)
    r = fpk.solve([rng, z3.Or(sf.t != k, ef.t != k)], timeout_s=120,
                  want_model={'k': k})
    pow2 = name in ('8', '16', '32')
    o = {'lemma': 'L-C18[fps=%s]' % name,
         'statement': 'forall k in [0,1e5]: int(fl(fl(k*fl(1/fps))*fps)) == k '
                      'and ceil(...) == k (binary64)',
         'expect': 'unsat', 'result': r['result'], 'seconds': r['seconds'],
         'backend': r['backend'], 'discharged': r['result'] == 'unsat'}
    if r['result'] == 'sat':
      o['counterexample_k'] = r['model']['k']
      if 'F-C18-a' in known and not pow2:
        o['known_finding'] = 'F-C18-a'
        o['discharged'] = True
      else:
        viol.append({'label': 'L-C18 frame grid drifts in binary64',
                     'values': {'fps': name, 'k': r['model']['k']},
                     'source': 'solver'})
    elif r['result'] != 'unsat':
      status, err = 'inconclusive', 'L-C18[fps=%s]: %s' % (name, r['result'])
    obligations.append(o)
  r = fpk.solve([z3.BitVec('k', 64) >= 0], timeout_s=10)
  obligations.append({'lemma': 'L-C18-twin', 'statement': 'range satisfiable',
                      'expect': 'sat', 'result': r['result'],
                      'discharged': r['result'] == 'sat', 'seconds': r['seconds'],
                      'backend': r['backend']})
  out = {'obligations': obligations, 'status': status,
         'solver_queries': len(obligations),
         'solver_seconds': round(sum(o['seconds'] for o in obligations), 3)}
  if err:
    out['error'] = err
  if viol:
    out['violations'] = viol
    out['status'] = 'violation'
  return out


def h_lemma_witness(c):
  """Concrete replay: a note on frame k of the grid comes back on frame k."""
  sl = c.mod('sequences_lib')
  np = c.np
  fps = float(_FPS[c.values['fps']])
  k = int(c.values['k'])
  frames = np.zeros((k + 2, 1))
  frames[k, 0] = 1
  seq = sl.pianoroll_to_note_sequence(frames, fps, 0, min_midi_pitch=60)
  # same total_time for painting: make the roll long enough
  seq.total_time = (k + 3) * (1 / fps)
  roll = sl.sequence_to_pianoroll(seq, fps, 60, 60)
  act = [int(roll.active[i][0]) for i in range(len(roll.active))]
  want = [1 if i == k else 0 for i in range(len(act))]
  c.check(act == want, 'L-C18 frame grid drifts in binary64')


HARNESSES['lemma_grid'] = h_lemma_witness
FUNCS = {'lemma_grid': _lemma}


def jobs(tier):
  J = []

  def add(h, budget=300, required=True, jobkind='symex', **params):
    J.append({'harness': h, 'params': params, 'budget_s': budget,
              'required': required, 'kind': jobkind})

  deep = tier == 'thorough'
  add('lemma_grid', jobkind='func', budget=900)
  add('h_paint', N=1, fps='8', frames=4, mode='window')
  add('h_paint', N=2, fps='16', frames=3, mode='window', budget=600)
  add('h_paint', N=1, fps='50', frames=5, mode='length_ms', onset_len_ms=30)
  add('h_paint', N=1, fps='31.25', frames=4, mode='window', delay_ms=20.0)
  # non-default onset window sizes and velocity normalisation
  add('h_paint', N=1, fps='16', frames=4, mode='window', onset_window=0)
  add('h_paint', N=1, fps='16', frames=5, mode='window', onset_window=2,
      max_velocity=200)
  add('h_paint', N=1, fps='16', frames=3, mode='window', max_velocity=64)
  # onset length longer than the note, with a delay
  add('h_paint', N=1, fps='32', frames=5, mode='length_ms', onset_len_ms=62.5,
      delay_ms=31.25, budget=600)
  add('h_paint', N=1, fps='100', frames=4, mode='window', occupancy=0.5)
  # add_blank_frame_before_onset: only the frame before an onset is silenced
  add('h_paint', N=1, fps='8', frames=4, mode='window', blank=True)
  add('h_paint', N=2, fps='16', frames=3, mode='window', blank=True, budget=600)
  add('h_decode', T=3, K=1, fps='50')
  add('h_decode', T=3, K=2, fps='31.25', budget=600)
  add('h_decode', T=2, K=1, fps='16', onsets=True)
  # a fresh onset inside a run splits it; each half keeps its own velocity
  add('h_decode', T=3, K=1, fps='16', onsets=True, velocities=True, budget=900)
  add('h_decode', T=4, K=1, fps='32', onsets=True, offsets=True,
      velocities=True, budget=900)
  add('h_decode', T=3, K=2, fps='16', onsets=True, velocities=True, budget=900)
  add('h_decode', T=2, K=1, fps='100', onsets=True, offsets=True)
  add('h_onsets_only', T=2, K=2, fps='62.5')
  add('h_inverse', N=1, fps='16', frames=4)
  add('h_inverse', N=2, fps='32', frames=4, budget=600)
  # --- keyword arguments and result fields away from their defaults
  # onset_overlap=False in both onset modes (+ weights / offsets / onset
  # velocities, non-default onset_upweight, window at the top of the range)
  add('h_paint_kw', N=1, fps='16', frames=3, mode='window', overlap=False,
      rolls=True, upweight=3.0, lo=126, hi=127)
  add('h_paint_kw', N=1, fps='8', frames=3, mode='length_ms', onset_len_ms=200,
      overlap=False)
  # onset_length_ms at its default 0, single-pitch window, the other rolls
  add('h_paint_kw', N=1, fps='50', frames=3, mode='length_ms',
      onset_len_default=True, rolls=True, lo=60, hi=60)
  # offset_length_ms, window at the bottom of the MIDI range
  add('h_paint_kw', N=1, fps='16', frames=4, mode='window', offset_len_ms=100.0,
      rolls=True, lo=0, hi=1)
  # empty sequence; two control changes on controllers 0 / 64 / 127
  add('h_paint_kw', N=0, fps='8', frames=3, mode='window', cc2=True, rolls=True)
  # min_frame_occupancy_for_label together with length_ms onsets / a delay
  add('h_paint_kw', N=1, fps='100', frames=3, mode='length_ms', onset_len_ms=15,
      occupancy=0.25)
  add('h_paint_kw', N=1, fps='62.5', frames=3, mode='window', delay_ms=8.0,
      occupancy=0.25)
  add('h_bad_mode')
  # offsets without onsets
  add('h_decode_kw', T=3, K=1, fps='50', offsets=True)
  # velocity / instrument / program / qpm arguments, default pitch offset
  add('h_decode_kw', T=2, K=2, fps='16', meta=True)
  # default velocity_scale / velocity_bias
  add('h_decode_kw', T=2, K=1, fps='16', onsets=True, velocities=True,
      vel_defaults=True, meta=True)
  add('h_onsets_only_kw', T=2, K=1, fps='16', defaults=True, vel='default',
      meta=True)
  add('h_onsets_only_kw', T=2, K=2, fps='62.5', vel='explicit')
  # FINDING-CANDIDATE: pianoroll_onsets_to_note_sequence(np.array([[1.0]]), 16)
  # (no velocity_values) returns a note of velocity 90, not the documented
  # default 70; velocity=100 gives 90 too, velocity=0 gives 10: the argument
  # goes through _unscale_velocity as if it were an estimate in [0, 1].
  # add('h_onsets_only_kw', T=1, K=1, fps='16', default_velocity=True)
  # FINDING-CANDIDATE (input outside the well-formedness assumption e <= tt):
  # one note [0.0, 1.0] pitch 60, total_time=0.5, fps=8, window 60..61 makes
  # sequence_to_pianoroll raise ValueError (could not broadcast input array
  # from shape (6,) into shape (3,)) in the weights assignment, so no job
  # lets notes end after total_time.
  # the composition through the onset / offset / onset-velocity rolls
  add('h_inverse_via', N=2, fps='16', frames=3, via='onsets', budget=600)
  add('h_inverse_via', N=2, fps='32', frames=3, via='onsets_only', budget=600)
  add('h_inverse_via', N=1, fps='8', frames=4, via='onsets')
  if deep:
    for fps in _FPS:
      # two notes over six frames: 40+ min per rate with full witness
      # validation: optional (N=2 over three frames is in the quick tier)
      add('h_paint', N=2, fps=fps, frames=6, mode='window', budget=2400,
          required=False)
      add('h_paint', N=1, fps=fps, frames=8, mode='length_ms', onset_len_ms=30,
          budget=1800)
    add('h_paint', N=2, fps='62.5', frames=5, mode='window', delay_ms=-20.0,
        occupancy=0.25, budget=2400, required=False)
    add('h_decode', T=5, K=1, fps='50', budget=1800)
    add('h_decode', T=5, K=2, fps='8', budget=3000, required=False)
    add('h_decode', T=4, K=2, fps='62.5', budget=2400)
    add('h_decode', T=3, K=1, fps='16', onsets=True, budget=1800)
    add('h_decode', T=3, K=1, fps='100', onsets=True, offsets=True, budget=2400)
    add('h_decode', T=2, K=2, fps='32', onsets=True, offsets=True, budget=2400,
        required=False)
    add('h_onsets_only', T=3, K=2, fps='100', budget=900)
    add('h_paint_kw', N=1, fps='32', frames=5, mode='window', overlap=False,
        rolls=True, upweight=2.5, onset_window=2, budget=1800)
    add('h_paint_kw', N=1, fps='62.5', frames=5, mode='length_ms',
        onset_len_ms=40, overlap=False, rolls=True, offset_len_ms=20.0,
        budget=1800)
    add('h_paint_kw', N=1, fps='50', frames=3, mode='window', cc2=True,
        rolls=True, lo=0, hi=0, budget=1800)
    add('h_decode_kw', T=4, K=1, fps='31.25', offsets=True, meta=True,
        budget=1800)
    add('h_decode_kw', T=3, K=1, fps='8', onsets=True, offsets=True,
        velocities=True, vel_defaults=True, meta=True, budget=1800)
    add('h_onsets_only_kw', T=3, K=2, fps='50', defaults=True, vel='default',
        meta=True, budget=900)
    add('h_inverse_via', N=2, fps='8', frames=5, via='onsets', budget=2400)
    add('h_inverse_via', N=2, fps='16', frames=5, via='onsets_only',
        budget=2400)
    for fps in ('8', '16', '32'):
      add('h_inverse', N=2, fps=fps, frames=6, budget=2400)
  return J
