"""C02 -- extracting / splitting partitions notes and carries state over."""
from props import common as K

META = {
    'level': 'model_checking',
    'level_text':
        'Bounded symbolic execution of the real extraction/splitting functions: '
        'every path of the code for up to N notes / K state events / S split '
        'times with all times, values and the query instant free real '
        'variables is enumerated by the solver and on each path the negated '
        'partition / state-in-effect / split-choice oracle is shown unsat. '
        'Coincidences (event exactly on a split, equal times) are branch sides '
        'the explorer must take, so they are decided, not sampled.',
    'level_note':
        'Trusted: z3, the proxy semantics (reals for doubles), symproto as a '
        'model of upb protobuf (checked per sampled path by re-running the '
        'path witness on the real stack). Nothing is claimed beyond the bounds '
        'or about float rounding.',
    'functions': [('sequences_lib', '_extract_subsequences'),
                  ('sequences_lib', 'extract_subsequence'),
                  ('sequences_lib', 'split_note_sequence'),
                  ('sequences_lib', 'split_note_sequence_on_time_changes'),
                  ('sequences_lib', 'split_note_sequence_on_silence'),
                  ('sequences_lib', 'trim_note_sequence')],
    'assumptions': [
        'double fields are exact reals (no rounding claim)',
        'well-formed input: 0 <= start <= end <= total_time',
        'H1-H4 assume a valid split vector (sorted, non-final < total_time; '
        'first split >= 0 except in the neg jobs, where it is < 0); '
        'H1e decides the ValueError clause for invalid vectors',
        'H5 recorder jobs replace _extract_subsequences by a recorder and '
        'check the split vector, the sequence and the preserve argument it '
        'receives; H5 real jobs run the real extractor and check the returned '
        'pieces (a ValueError is accepted only when a chosen non-final time '
        'is >= total_time)',
        'symproto models upb protobuf (validated per sampled path on the real '
        'stack)',
    ],
    'bounds': {
        'quick': 'H1 N<=3 notes x S<=3 splits (instrument 0..15, any program, '
                 'drum flag; one job with pitch_name/numerator/denominator/'
                 'part/voice, one with a negative first split); H2 K<=3 state '
                 'events of one kind x S=3, K=2 through extract_subsequence, '
                 'H2-mixed one event of each of <=3 kinds / chord+beat+chord; '
                 'H3 P<=2 pedal events, controller number any of 0..127, '
                 'default and explicit preserve lists ([1,64], [], [66,7], '
                 '[64]), instruments {0,1} / {1,15}, P=2 x S=3 with [64]; '
                 'H4 K<=2 annotations; H5 N<=2 notes (drum flag, instrument '
                 '0..15; also N=0), <=2 list times / <=4 hops (real or int '
                 'hop) / 1+1 time changes, skip False/True/omitted, gap '
                 'symbolic or omitted; real-extractor jobs N<=2; H6 N=2 '
                 '(a >= 0 and a < 0), trim on a fully populated sequence '
                 'with any a, b',
        'thorough': 'H1 N<=3 x S<=4; H2 K<=3 x S<=4, 4 kinds mixed; H3 P<=3; '
                    'H4 K<=3; H5 N<=3, <=3 candidates, real extractor N<=3',
    },
    'outside': ['more notes/events/splits than the bounds', 'float rounding',
                'quantized input', 'split times given as tuple / numpy array',
                'pass-through of metadata fields by the extractor (only id '
                'and ticks_per_quarter are compared)',
                'multiplicity of redundant state events inside a piece'],
}


def _splits(c, S, tt):
  if c.params.get('neg'):
    # the first split time lies before time 0 (nothing in the statement or
    # the docstrings restricts split times to be non-negative)
    sp = [c.real('sp0')] + [c.real('sp%d' % i, 0) for i in range(1, S)]
    c.assume(sp[0] < 0)
  else:
    sp = [c.real('sp%d' % i, 0) for i in range(S)]
  for a, b in zip(sp, sp[1:]):
    c.assume(a <= b)
  for a in sp[:-1]:
    c.assume(a < tt)
  return sp


def h1_partition(c):
  """Every note lands exactly once in the piece containing its start."""
  N, S = c.params['N'], c.params['S']
  pb, sl = c.pb, c.mod('sequences_lib')
  ns = pb.NoteSequence()
  ns.ticks_per_quarter = c.int('tpq', 1, 960)
  ns.id = 'some-id'
  notes = K.add_notes(c, ns, N, instruments=(0, 15), drums=True,
                      programs=(0, 127))
  fields = ('pitch', 'velocity', 'instrument', 'program', 'is_drum')
  if c.params.get('attrs'):
    # "every other attribute intact": the score-derived note attributes too
    extra = (('pitch_name', 0, 34), ('numerator', 0, 64), ('denominator', 0, 64),
             ('part', 0, 9), ('voice', 0, 9))
    for i, n in enumerate(notes):
      for f, lo_, hi_ in extra:
        n[f] = c.int('n%d_%s' % (i, f), lo_, hi_)
        setattr(ns.notes[i], f, n[f])
    fields += tuple(f for f, _, _ in extra)
  tt = K.well_formed_total(c, ns, notes)
  sp = _splits(c, S, tt)
  before = c.snapshot(ns)
  spl = list(sp)
  subs = sl._extract_subsequences(ns, spl)
  c.check(c.And([len(spl) == S] + [c.eq(x, y) for x, y in zip(spl, sp)]),
          'caller\'s split list unchanged')
  c.check(len(subs) == S - 1, 'number of pieces')
  for k in range(S - 1):
    lo, hi = sp[k], sp[k + 1]
    exp = []
    for n in notes:
      cond = c.And(n['start_time'] >= lo, n['start_time'] < hi)
      key = (n['start_time'] - lo, c.Min(n['end_time'], hi) - lo) + tuple(
          n[f] for f in fields)
      exp.append((cond, key))
    got = [(m.start_time, m.end_time) + tuple(getattr(m, f) for f in fields)
           for m in subs[k].notes]
    c.check(K.multiset_eq(c, got, exp), 'piece notes = notes starting in piece')
    ends = [c.If(cd, key[1], 0) for cd, key in exp]
    c.check(c.eq(subs[k].total_time, c.Max([0] + ends)), 'piece total_time')
    c.check(c.eq(subs[k].subsequence_info.start_time_offset, lo),
            'start_time_offset')
    c.check(
        c.eq(subs[k].subsequence_info.end_time_offset,
             tt - lo - subs[k].total_time), 'end_time_offset')
    c.check(c.eq(subs[k].ticks_per_quarter, ns.ticks_per_quarter),
            'ticks_per_quarter kept')
    c.check(subs[k].id == 'some-id', 'id kept')
  c.check(c.msg_eq(ns, before), 'input unchanged')
  if N >= 1 and S >= 3:
    c.cover('note starts exactly on an inner split',
            c.eq(notes[0]['start_time'], sp[1]))
    c.cover('note ends exactly on a split',
            c.And(c.eq(notes[0]['end_time'], sp[1]),
                  notes[0]['start_time'] < sp[1]))
    c.cover('note crosses a split',
            c.And(notes[0]['end_time'] > sp[1], notes[0]['start_time'] < sp[1]))


def h1e_errors(c):
  """ValueError exactly for unsorted / past-the-end split vectors."""
  N, S = 1, c.params['S']
  pb, sl = c.pb, c.mod('sequences_lib')
  ns = pb.NoteSequence()
  notes = K.add_notes(c, ns, N)
  tt = K.well_formed_total(c, ns, notes)
  sp = [c.real('sp%d' % i) for i in range(S)]
  before = c.snapshot(ns)
  res, err = c.raises(sl._extract_subsequences, ns, list(sp))
  bad = c.Or([a > b for a, b in zip(sp, sp[1:])] +
             [a >= tt for a in sp[:-1]] + [S < 2])
  if err is not None:
    c.check(isinstance(err, ValueError), 'only ValueError')
    c.check(bad, 'raised only for an invalid split vector')
    c.cover('raised')
  else:
    c.check(c.Not(bad), 'invalid split vector accepted')
    c.cover('accepted')
  c.check(c.msg_eq(ns, before), 'input unchanged')


_KINDS = ('tempo', 'timesig', 'key', 'chord')
_CHORDS = ['C', 'G7', 'Am', 'N.C.']


def _add_state_events(c, ns, kind, K_, ev='ev', first_chord=0):
  """Adds K_ events of `kind`; returns [(time, payload)] in storage order."""
  pb = c.pb
  evs = []
  for i in range(K_):
    t = c.real('%s%d_t' % (ev, i), 0)
    if kind == 'tempo':
      q = c.real('%s%d_q' % (ev, i), 10, 480)
      ns.tempos.add(time=t, qpm=q)
      evs.append((t, (q,)))
    elif kind == 'timesig':
      nu = c.int('%s%d_n' % (ev, i), 1, 12)
      de = c.int('%s%d_d' % (ev, i), 1, 16)
      ns.time_signatures.add(time=t, numerator=nu, denominator=de)
      evs.append((t, (nu, de)))
    elif kind == 'key':
      k = c.int('%s%d_k' % (ev, i), 0, 11)
      m = c.int('%s%d_m' % (ev, i), 0, 1)
      ns.key_signatures.add(time=t, key=k, mode=m)
      evs.append((t, (k, m)))
    else:
      # chord texts are concrete and distinct per index (text is never
      # computed on); the step field is carried along symbolically
      q = c.int('%s%d_qs' % (ev, i), 0, 1000)
      ns.text_annotations.add(
          time=t,
          text=_CHORDS[first_chord + i],
          quantized_step=q,
          annotation_type=pb.NoteSequence.TextAnnotation.CHORD_SYMBOL)
      evs.append((t, (first_chord + i, q)))
  return evs


def _piece_events(c, piece, kind):
  if kind == 'tempo':
    return [(e.time, (e.qpm,)) for e in piece.tempos]
  if kind == 'timesig':
    return [(e.time, (e.numerator, e.denominator)) for e in piece.time_signatures]
  if kind == 'key':
    return [(e.time, (e.key, e.mode)) for e in piece.key_signatures]
  out = []
  for e in piece.text_annotations:
    if e.annotation_type == c.pb.NoteSequence.TextAnnotation.CHORD_SYMBOL:
      out.append((e.time, (_CHORDS.index(e.text), e.quantized_step)))
  return out


def _extract(c, sl, ns, sp, **kw):
  """The pieces of `ns` cut at `sp`: through the private worker, or (two split
  times, params via='public') through the public extract_subsequence."""
  if c.params.get('via') == 'public':
    assert len(sp) == 2
    return [sl.extract_subsequence(ns, sp[0], sp[1], **kw)]
  return sl._extract_subsequences(ns, list(sp), **kw)


def _check_state(c, subs, sp, evs, kind, tau):
  ident = lambda p: p
  for k in range(len(sp) - 1):
    lo, hi = sp[k], sp[k + 1]
    pe = _piece_events(c, subs[k], kind)
    for tm, _ in pe:
      c.check(c.And(tm >= 0, c.Or(tm < hi - lo, tm == 0)),
              'piece event time inside the piece')
    ex_o, v_o = K.in_effect(c, evs, tau + lo, ident)
    ex_p, v_p = K.in_effect(c, pe, tau, ident)
    inside = tau < hi - lo
    if pe:
      same = c.And(c.eq(ex_o, ex_p),
                   c.Implies(ex_p, K.key_eq(c, v_o, v_p)))
    else:
      same = c.Not(ex_o)
    c.check(c.Implies(inside, same), 'state in effect at tau (%s)' % kind)


def h2_state(c):
  """State in effect at a symbolic instant of each piece = original's."""
  kind, K_, S = c.params['kind'], c.params['K'], c.params['S']
  pb, sl = c.pb, c.mod('sequences_lib')
  ns = pb.NoteSequence()
  notes = K.add_notes(c, ns, 1)
  tt = K.well_formed_total(c, ns, notes)
  evs = _add_state_events(c, ns, kind, K_)
  sp = _splits(c, S, tt)
  tau = c.real('tau', 0)
  before = c.snapshot(ns)
  subs = _extract(c, sl, ns, sp)
  c.check(len(subs) == S - 1, 'number of pieces')
  _check_state(c, subs, sp, evs, kind, tau)
  c.check(c.msg_eq(ns, before), 'input unchanged')
  if K_ >= 1 and S >= 3:
    c.cover('event exactly on an inner split', c.eq(evs[0][0], sp[1]))
    c.cover('event before the first split', evs[0][0] < sp[0])
  if K_ >= 2:
    c.cover('two events at the same time', c.eq(evs[0][0], evs[1][0]))


def h2_mixed(c):
  """Several kinds of state event (and a beat) in one sequence: every kind is
  carried independently of the others."""
  kinds, S = c.params['kinds'], c.params['S']
  pb, sl = c.pb, c.mod('sequences_lib')
  TA = pb.NoteSequence.TextAnnotation
  ns = pb.NoteSequence()
  notes = K.add_notes(c, ns, 1)
  tt = K.well_formed_total(c, ns, notes)
  evs = {}
  for kind in kinds:
    evs[kind] = _add_state_events(c, ns, kind, 1, ev=kind[:3])
  bt = None
  if c.params.get('beat'):
    # stored between / after the chords in the shared text_annotations list
    bt = c.real('beat_t', 0)
    ns.text_annotations.add(time=bt, annotation_type=TA.BEAT, text='b')
    if 'chord' in kinds:
      evs['chord'] += _add_state_events(c, ns, 'chord', 1, ev='ch2_',
                                        first_chord=1)
  sp = _splits(c, S, tt)
  tau = c.real('tau', 0)
  before = c.snapshot(ns)
  subs = _extract(c, sl, ns, sp)
  c.check(len(subs) == S - 1, 'number of pieces')
  for kind in kinds:
    _check_state(c, subs, sp, evs[kind], kind, tau)
  for k in range(S - 1):
    lo, hi = sp[k], sp[k + 1]
    if bt is not None:
      got = [(e.time,) for e in subs[k].text_annotations
             if e.annotation_type == TA.BEAT]
      c.check(K.multiset_eq(c, got, [(c.And(bt >= lo, bt < hi), (bt - lo,))]),
              'beats land in the piece containing them')
    for kind in _KINDS:
      if kind not in kinds:
        c.check(len(_piece_events(c, subs[k], kind)) == 0,
                'no state event invented (%s)' % kind)
  c.check(c.msg_eq(ns, before), 'input unchanged')
  c.cover('every kind has its event before the first split',
          c.And([evs[kind][0][0] < sp[0] for kind in kinds]))
  c.cover('events of two kinds at the same instant',
          c.eq(evs[kinds[0]][0][0], evs[kinds[-1]][0][0]))


_PEDALS = (64, 66, 67)


def h3_pedals(c):
  """Per-(instrument, controller) pedal state at a symbolic instant.

  params: P events, S split times; INS the two instruments used (default
  (0, 1)); preserve = list passed as preserve_control_numbers (absent: the
  argument is omitted and the documented default 64/66/67 applies); via.
  The controller number is any of 0..127 (the code's membership test closes
  the domain: one branch per preserved number plus "any other").
  """
  P, S = c.params['P'], c.params['S']
  INS = list(c.params.get('INS', (0, 1)))
  preserve = c.params.get('preserve')
  kept = _PEDALS if preserve is None else tuple(preserve)
  pb, sl = c.pb, c.mod('sequences_lib')
  ns = pb.NoteSequence()
  notes = K.add_notes(c, ns, 1)
  tt = K.well_formed_total(c, ns, notes)
  ccs = []
  for i in range(P):
    t = c.real('cc%d_t' % i, 0)
    num = c.int('cc%d_num' % i, 0, 127)
    ins = c.choice('cc%d_ins' % i, INS)
    val = c.int('cc%d_val' % i, 0, 127)
    ns.control_changes.add(time=t, control_number=num, control_value=val,
                           instrument=ins)
    ccs.append((t, num, ins, val))
  sp = _splits(c, S, tt)
  tau = c.real('tau', 0)
  before = c.snapshot(ns)
  if preserve is None:
    subs = _extract(c, sl, ns, sp)
  else:
    plist = list(preserve)
    subs = _extract(c, sl, ns, sp, preserve_control_numbers=plist)
    c.check(plist == list(preserve), 'caller\'s preserve list unchanged')
  c.check(len(subs) == S - 1, 'number of pieces')
  for k in range(S - 1):
    lo, hi = sp[k], sp[k + 1]
    inside = tau < hi - lo
    pcs = list(subs[k].control_changes)
    for e in pcs:
      if preserve is None:
        c.check(e.control_number != 1, 'non-pedal controller dropped')
      c.check(c.Or([c.eq(e.control_number, n_) for n_ in kept] or [False]),
              'controller outside the preserved set dropped')
      c.check(c.Or([c.eq(e.instrument, i_) for i_ in INS]),
              'pedal event instrument is one of the original\'s')
      c.check(c.And(e.time >= 0, c.Or(e.time < hi - lo, e.time == 0)),
              'pedal event time inside the piece')
    for num in kept:
      for ins in INS:
        orig = [(t, (v,)) for (t, n_, i_, v) in ccs
                if i_ == ins and bool(c.eq(n_, num))]
        got = [(e.time, (e.control_value,)) for e in pcs
               if e.instrument == ins and bool(c.eq(e.control_number, num))]
        ex_o, v_o = K.in_effect(c, orig, tau + lo, lambda p: p)
        ex_p, v_p = K.in_effect(c, got, tau, lambda p: p)
        if got and orig:
          same = c.And(c.eq(ex_o, ex_p), c.Implies(ex_p, K.key_eq(c, v_o, v_p)))
        elif orig:
          same = c.Not(ex_o)
        elif got:
          same = False
        else:
          same = True
        c.check(c.Implies(inside, same), 'pedal state in effect at tau')
  c.check(c.msg_eq(ns, before), 'input unchanged')
  if S >= 3:
    c.cover('pedal event exactly on an inner split', c.eq(ccs[0][0], sp[1]))
  if kept:
    c.cover('a preserved controller', c.eq(ccs[0][1], kept[-1]))
  c.cover('a controller outside the preserved set',
          c.And([ccs[0][1] != n_ for n_ in kept] or [True]))
  if P >= 2:
    c.cover('same controller on two instruments',
            c.And(c.eq(ccs[0][1], ccs[1][1]), ccs[0][2] != ccs[1][2]))


def h4_stateless(c):
  """Beats land in their piece; other annotations, bends, non-pedal CCs drop."""
  K_, S = c.params['K'], c.params['S']
  pb, sl = c.pb, c.mod('sequences_lib')
  TA = pb.NoteSequence.TextAnnotation
  ns = pb.NoteSequence()
  notes = K.add_notes(c, ns, 1)
  tt = K.well_formed_total(c, ns, notes)
  anns = []
  for i in range(K_):
    t = c.real('a%d_t' % i, 0)
    ty = c.int('a%d_ty' % i, 0, 2)
    ns.text_annotations.add(time=t, annotation_type=ty, text='x%d' % i)
    anns.append((t, ty, i))
  ns.pitch_bends.add(time=c.real('pb_t', 0), bend=c.int('pb_b', -8192, 8191))
  sp = _splits(c, S, tt)
  before = c.snapshot(ns)
  subs = sl._extract_subsequences(ns, list(sp))
  for k in range(S - 1):
    lo, hi = sp[k], sp[k + 1]
    c.check(len(subs[k].pitch_bends) == 0, 'pitch bends dropped')
    got, other = [], []
    for e in subs[k].text_annotations:
      if e.annotation_type == TA.BEAT:
        got.append((e.time, int(e.text[1:])))
      elif e.annotation_type == TA.CHORD_SYMBOL:
        pass
      else:
        other.append(e)
    c.check(len(other) == 0, 'non-beat non-chord annotations dropped')
    exp = [(c.And(ty == TA.BEAT, t >= lo, t < hi), (t - lo, i))
           for (t, ty, i) in anns]
    c.check(K.multiset_eq(c, got, exp), 'beats land in the piece containing them')
  c.check(c.msg_eq(ns, before), 'input unchanged')
  c.cover('beat exactly on an inner split',
          c.And(c.eq(anns[0][0], sp[1]), anns[0][1] == TA.BEAT))


class _Recorder(object):
  """Stands in for _extract_subsequences in the split-point harnesses (the
  extraction itself is H1-H4's subject; `real` jobs run the real one)."""

  def __init__(self, c):
    self.c = c
    self.calls = []
    self.seqs = []
    self.preserve = []

  def __call__(self, sequence, split_times, preserve_control_numbers=None):
    self.calls.append(list(split_times))
    self.seqs.append(self.c.snapshot(sequence))
    self.preserve.append(preserve_control_numbers)
    return ['PIECES']


class _Raised(object):

  def __init__(self, err):
    self.err = err


def _run_split(c, sl, fn, *a, **k):
  """Runs a split_* function: against the recorder, or (params real=True) with
  the real extractor.  Returns (recorder or None, result)."""
  if c.params.get('real'):
    res, err = c.raises(fn, *a, **k)
    return None, (_Raised(err) if err is not None else res)
  rec = _Recorder(c)
  orig = sl._extract_subsequences
  sl._extract_subsequences = rec
  try:
    out = fn(*a, **k)
  finally:
    sl._extract_subsequences = orig
  return rec, out


def _check_split_vector(c, rec, out, exp, label, before=None):
  if len(exp) > 1:
    c.check(len(rec.calls) == 1 and out == ['PIECES'], label + ': extraction called once')
    got = rec.calls[0]
    c.check(len(got) == len(exp), label + ': number of split points')
    c.check(c.And([c.eq(g, e) for g, e in zip(got, exp)]),
            label + ': split points')
    # the decomposition (H1-H4 prove the extractor) needs the extractor to
    # see the caller's sequence and the default 64/66/67 pedal set
    if before is not None:
      c.check(c.msg_eq(rec.seqs[0], before),
              label + ': extraction gets the caller\'s sequence')
    pr = rec.preserve[0]
    c.check(pr is None or sorted(pr) == [64, 66, 67],
            label + ': extraction keeps the default pedal controllers')
  else:
    c.check(len(rec.calls) == 0 and out == [], label + ': no pieces')


def _check_pieces(c, out, exp, notes, tt, label):
  """End to end: the list a split_* function returns is the partition of the
  notes at the expected split vector `exp` (statement: note starting in
  [t_i, t_i+1) appears once, in piece i, shifted, end clipped)."""
  n_exp = len(exp) - 1 if len(exp) > 1 else 0
  if isinstance(out, _Raised):
    # FINDING-CANDIDATE (reported, not claimed either way): with a LIST of
    # times split_note_sequence lets the extractor's documented ValueError
    # ("a subsequence would start past the end") escape when a chosen time
    # that is not the last one is >= total_time, e.g. total_time = 0 with
    # times [1/16] (split vector [0, 1/16]), or total_time = 4 with [5, 6].
    # Pinned here: nothing else is ever raised, and never for another reason.
    c.check(isinstance(out.err, ValueError), label + ': only ValueError')
    c.check(c.Or([t >= tt for t in exp[:-1]] + [len(exp) < 2]),
            label + ': raised only when a piece would start at/after the end')
    c.cover(label + ': ValueError for a time at/after total_time')
    return
  c.check(isinstance(out, list) and len(out) == n_exp,
          label + ': number of pieces returned')
  if len(out) != n_exp:
    return
  for k in range(n_exp):
    lo, hi = exp[k], exp[k + 1]
    want = []
    for n in notes:
      cond = c.And(n['start_time'] >= lo, n['start_time'] < hi)
      want.append((cond, (n['start_time'] - lo, c.Min(n['end_time'], hi) - lo,
                          n['pitch'], n['velocity'], n['instrument'],
                          n['is_drum'])))
    got = [(m.start_time, m.end_time, m.pitch, m.velocity, m.instrument,
            m.is_drum) for m in out[k].notes]
    c.check(K.multiset_eq(c, got, want), label + ': piece notes')
    ends = [c.If(cd, key[1], 0) for cd, key in want]
    c.check(c.eq(out[k].total_time, c.Max([0] + ends)),
            label + ': piece total_time')
    c.check(c.eq(out[k].subsequence_info.start_time_offset, lo),
            label + ': piece start_time_offset')
    c.check(c.eq(out[k].subsequence_info.end_time_offset,
                 tt - lo - out[k].total_time),
            label + ': piece end_time_offset')


def _check_split(c, rec, out, exp, label, before, notes, tt):
  if rec is None:
    _check_pieces(c, out, exp, notes, tt, label)
  else:
    _check_split_vector(c, rec, out, exp, label, before)


def _split_notes(c, ns, N):
  # drum notes and notes of any instrument sound like any other note when a
  # split is tested for lying inside a note / silence is measured
  return K.add_notes(c, ns, N, instruments=(0, 15), drums=True)


def _skip_args(c):
  """params skip: False / True are passed explicitly; 'default' omits the
  argument (documented default: False)."""
  skip = c.params['skip']
  if skip == 'default':
    return (), False
  return (skip,), skip


def h5_list(c):
  """split_note_sequence with a list of times."""
  N, M = c.params['N'], c.params['M']
  sargs, skip = _skip_args(c)
  pb, sl = c.pb, c.mod('sequences_lib')
  ns = pb.NoteSequence()
  notes = _split_notes(c, ns, N)
  tt = K.well_formed_total(c, ns, notes)
  times = [c.real('t%d' % i, 0) for i in range(M)]
  before = c.snapshot(ns)
  lst = list(times)
  rec, out = _run_split(c, sl, sl.split_note_sequence, ns, lst, *sargs)
  c.check(c.And([len(lst) == M] + [c.eq(x, y) for x, y in zip(lst, times)]),
          'caller\'s list of times unchanged')
  # oracle (declarative per candidate; may fork, all forks are decided by the
  # path already)
  cand = sorted(times)
  exp = [0.0]
  for t in cand:
    crossing = any(
        bool(c.And(n['start_time'] < t, n['end_time'] > t)) for n in notes)
    if not (skip and crossing):
      exp.append(t)
  if tt > exp[-1]:
    exp.append(tt)
  _check_split(c, rec, out, exp, 'list', before, notes, tt)
  c.check(c.msg_eq(ns, before), 'input unchanged')
  if N and M:
    c.cover('candidate strictly inside a note',
            c.And(notes[0]['start_time'] < times[0],
                  notes[0]['end_time'] > times[0]))
    c.cover('candidate exactly at a note end',
            c.eq(notes[0]['end_time'], times[0]))


def h5_hop(c):
  """split_note_sequence with a scalar hop: exactly the hop multiples."""
  N = c.params['N']
  sargs, skip = _skip_args(c)
  pb, sl = c.pb, c.mod('sequences_lib')
  ns = pb.NoteSequence()
  notes = _split_notes(c, ns, N)
  tt = K.well_formed_total(c, ns, notes)
  if c.params.get('int_hop'):
    hop = c.int('hop', 1, 4)  # a whole number of seconds given as an int
  else:
    hop = c.real('hop')
  c.assume(hop > 0)
  c.assume(tt <= c.params['max_hops'] * hop)
  before = c.snapshot(ns)
  rec, out = _run_split(c, sl, sl.split_note_sequence, ns, hop, *sargs)
  exp = [0.0]
  k = 1
  while k * hop < tt:
    t = k * hop
    crossing = any(
        bool(c.And(n['start_time'] < t, n['end_time'] > t)) for n in notes)
    if not (skip and crossing):
      exp.append(t)
    k += 1
  if tt > exp[-1]:
    exp.append(tt)
  _check_split(c, rec, out, exp, 'hop', before, notes, tt)
  c.check(c.msg_eq(ns, before), 'input unchanged')
  c.cover('total_time an exact multiple of the hop', c.eq(tt, 2 * hop))


def h5_time_changes(c):
  """split_note_sequence_on_time_changes: exactly the genuine changes."""
  N = c.params['N']
  sargs, skip = _skip_args(c)
  nts, ntp = c.params['TS'], c.params['TP']
  pb, sl = c.pb, c.mod('sequences_lib')
  ns = pb.NoteSequence()
  notes = _split_notes(c, ns, N)
  tt = K.well_formed_total(c, ns, notes)
  changes = []  # (time, kind, value) storage order: time signatures then tempos
  for i in range(nts):
    t = c.real('ts%d_t' % i, 0)
    nu = c.int('ts%d_n' % i, 1, 12)
    de = c.choice('ts%d_d' % i, [4, 8])
    ns.time_signatures.add(time=t, numerator=nu, denominator=de)
    changes.append((t, 'ts', (nu, de)))
  for i in range(ntp):
    t = c.real('tp%d_t' % i, 0)
    q = c.real('tp%d_q' % i, 10, 480)
    ns.tempos.add(time=t, qpm=q)
    changes.append((t, 'tp', (q,)))
  before = c.snapshot(ns)
  rec, out = _run_split(c, sl, sl.split_note_sequence_on_time_changes, ns,
                        *sargs)
  # oracle: walk the changes in stable time order
  order = sorted(range(len(changes)), key=lambda i: changes[i][0])
  cur = {'ts': (4, 4), 'tp': (120.0,)}
  exp = [0.0]
  for i in order:
    t, kind, val = changes[i]
    if not t < tt:
      continue
    if bool(K.key_eq(c, val, cur[kind])):
      continue
    crossing = any(
        bool(c.And(n['start_time'] < t, n['end_time'] > t)) for n in notes)
    if t > exp[-1] and not (skip and crossing):
      exp.append(t)
    cur[kind] = val
  if tt > exp[-1]:
    exp.append(tt)
  _check_split(c, rec, out, exp, 'time changes', before, notes, tt)
  c.check(c.msg_eq(ns, before), 'input unchanged')
  if changes:
    c.cover('a repeated (non-genuine) change is skipped',
            K.key_eq(c, changes[0][2], (4, 4) if changes[0][1] == 'ts' else
                     (120.0,)))


def h5_silence(c):
  """split_note_sequence_on_silence: onsets after more than gap of silence."""
  N = c.params['N']
  pb, sl = c.pb, c.mod('sequences_lib')
  ns = pb.NoteSequence()
  notes = _split_notes(c, ns, N)
  tt = K.well_formed_total(c, ns, notes)
  before = c.snapshot(ns)
  if c.params.get('gap') == 'default':
    # gap_seconds omitted: the documented default is 3.0 seconds
    gap = 3.0
    rec, out = _run_split(c, sl, sl.split_note_sequence_on_silence, ns)
  else:
    gap = c.real('gap', 0)
    rec, out = _run_split(c, sl, sl.split_note_sequence_on_silence, ns, gap)
  # declarative: onset s_i is a split point iff s_i > gap + max(0, ends of
  # notes starting strictly earlier)
  pts = []
  for n in notes:
    last = c.Max([0] + [
        c.If(m['start_time'] < n['start_time'], m['end_time'], 0)
        for m in notes if m is not n
    ])
    if n['start_time'] > last + gap:
      pts.append(n['start_time'])
  exp = [0.0]
  for t in sorted(pts):
    if not bool(c.eq(t, exp[-1])):
      exp.append(t)
  if tt > exp[-1]:
    exp.append(tt)
  _check_split(c, rec, out, exp, 'silence', before, notes, tt)
  c.check(c.msg_eq(ns, before), 'input unchanged')
  if N >= 2:
    c.cover('gap exactly equal to gap_seconds (no split)',
            c.eq(notes[1]['start_time'], notes[0]['end_time'] + gap))


def h6_trim_extract(c):
  """extract_subsequence / trim_note_sequence on [a, b)."""
  N = c.params['N']
  pb, sl = c.pb, c.mod('sequences_lib')
  ns = pb.NoteSequence()
  notes = K.add_notes(c, ns, N, instruments=(0, 15), drums=True,
                      programs=(0, 127))
  tt = K.well_formed_total(c, ns, notes)
  if c.params.get('neg'):
    a = c.real('a')  # a range starting before time 0
    c.assume(a < 0)
  else:
    a = c.real('a', 0)
  b = c.real('b')
  c.assume(a <= b)
  before = c.snapshot(ns)
  tr = sl.trim_note_sequence(ns, a, b)
  exp = [(c.And(n['start_time'] >= a, n['start_time'] < b),
          (n['start_time'], c.Min(n['end_time'], b), n['pitch'], n['velocity'],
           n['instrument'])) for n in notes]
  got = [(m.start_time, m.end_time, m.pitch, m.velocity, m.instrument)
         for m in tr.notes]
  c.check(K.multiset_eq(c, got, exp), 'trim keeps notes starting in [a,b)')
  more = lambda cd, k, n: (cd, k + (n['program'], n['is_drum']))
  expf = [more(cd, k, n) for (cd, k), n in zip(exp, notes)]
  gotf = [(m.start_time, m.end_time, m.pitch, m.velocity, m.instrument,
           m.program, m.is_drum) for m in tr.notes]
  c.check(K.multiset_eq(c, gotf, expf), 'trim keeps program and is_drum')
  c.check(c.eq(tr.total_time, c.Min(tt, b)), 'trim total_time')
  c.assume(a < tt)
  ex = sl.extract_subsequence(ns, a, b)
  exp2 = [(cd, (k[0] - a, k[1] - a) + k[2:]) for cd, k in exp]
  got2 = [(m.start_time, m.end_time, m.pitch, m.velocity, m.instrument)
          for m in ex.notes]
  c.check(K.multiset_eq(c, got2, exp2), 'extract = trim shifted by -a')
  exp2f = [(cd, (k[0] - a, k[1] - a) + k[2:]) for cd, k in expf]
  got2f = [(m.start_time, m.end_time, m.pitch, m.velocity, m.instrument,
            m.program, m.is_drum) for m in ex.notes]
  c.check(K.multiset_eq(c, got2f, exp2f), 'extract keeps program and is_drum')
  # the piece's total_time is its last note end; subsequence_info records the
  # offsets (statement), seen through the public wrapper
  last = c.Max([0] + [c.If(cd, k[1], 0) for cd, k in exp2])
  c.check(c.eq(ex.total_time, last), 'extract total_time')
  c.check(c.eq(ex.subsequence_info.start_time_offset, a),
          'extract start_time_offset')
  c.check(c.eq(ex.subsequence_info.end_time_offset, tt - a - last),
          'extract end_time_offset')
  c.check(c.msg_eq(ns, before), 'input unchanged')


def h6_trim_full(c):
  """trim_note_sequence returns "a copy of `sequence` with all notes trimmed":
  everything but the notes (and total_time) is the input's, at unshifted
  times; any a, b (also b < a: no note lies in an empty range)."""
  N = c.params['N']
  pb, sl = c.pb, c.mod('sequences_lib')
  ns = pb.NoteSequence()
  d = K.populate_full(c, ns, n_notes=N, groups=True)
  notes = d['notes']
  a = c.real('a')
  b = c.real('b')
  before = c.snapshot(ns)
  tr = sl.trim_note_sequence(ns, a, b)
  flds = ('pitch', 'velocity', 'instrument', 'program', 'is_drum')
  exp = [(c.And(n['start_time'] >= a, n['start_time'] < b),
          (n['start_time'], c.Min(n['end_time'], b)) + tuple(n[f] for f in flds))
         for n in notes]
  got = [(m.start_time, m.end_time) + tuple(getattr(m, f) for f in flds)
         for m in tr.notes]
  c.check(K.multiset_eq(c, got, exp), 'trim keeps notes starting in [a,b)')
  c.check(tr is not ns, 'trim returns a copy')
  rest, want = c.snapshot(tr), c.snapshot(before)
  del rest.notes[:]
  del want.notes[:]
  want.total_time = rest.total_time
  c.check(c.msg_eq(rest, want), 'trim leaves everything but the notes alone')
  c.check(c.msg_eq(ns, before), 'input unchanged')
  c.cover('empty range (b < a)', b < a)
  c.cover('negative start', a < 0)


HARNESSES = {
    'h1_partition': h1_partition,
    'h1e_errors': h1e_errors,
    'h2_state': h2_state,
    'h2_mixed': h2_mixed,
    'h3_pedals': h3_pedals,
    'h4_stateless': h4_stateless,
    'h5_list': h5_list,
    'h5_hop': h5_hop,
    'h5_time_changes': h5_time_changes,
    'h5_silence': h5_silence,
    'h6_trim_extract': h6_trim_extract,
    'h6_trim_full': h6_trim_full,
}


def jobs(tier):
  J = []

  def add(h, budget=120, required=True, **params):
    J.append({'harness': h, 'params': params, 'budget_s': budget,
              'required': required})

  deep = tier == 'thorough'
  for (n, s) in [(1, 2), (1, 3), (2, 2), (2, 3), (3, 3)]:
    add('h1_partition', N=n, S=s)
  add('h1e_errors', S=2)
  add('h1e_errors', S=3)
  for kind in _KINDS:
    add('h2_state', kind=kind, K=1, S=3)
    add('h2_state', kind=kind, K=2, S=3)
    add('h2_state', kind=kind, K=3, S=3)
  add('h3_pedals', P=1, S=3)
  add('h3_pedals', P=2, S=2)
  add('h4_stateless', K=1, S=3)
  add('h4_stateless', K=2, S=3)
  for skip in (False, True):
    add('h5_list', N=1, M=2, skip=skip)
    add('h5_list', N=2, M=1, skip=skip)
    add('h5_hop', N=1, skip=skip, max_hops=3)
    add('h5_time_changes', N=1, TS=1, TP=1, skip=skip)
    # two changes of one kind: a change skipped inside a note must still
    # update the value the next change is compared with
    add('h5_time_changes', N=1, TS=0, TP=2, skip=skip)
    add('h5_time_changes', N=1, TS=2, TP=0, skip=skip)
  add('h5_silence', N=2)
  add('h5_silence', N=3)
  add('h6_trim_extract', N=2)
  # --- keyword arguments, defaults, wrappers end to end, wider inputs
  add('h1_partition', N=2, S=3, attrs=True)
  add('h1_partition', N=2, S=3, neg=True)
  add('h2_state', kind='tempo', K=2, S=3, neg=True)
  add('h2_state', kind='chord', K=2, S=3, neg=True)
  for kind in _KINDS:
    add('h2_state', kind=kind, K=2, S=2, via='public')
  # adjacent kinds in the extractor's order: timesig, key, tempo, chord
  add('h2_mixed', kinds=['timesig', 'key', 'tempo'], S=3)
  add('h2_mixed', kinds=['tempo', 'chord'], S=3)
  add('h2_mixed', kinds=['chord'], S=3, beat=True)
  add('h2_mixed', kinds=['timesig', 'chord'], S=2, via='public', neg=True)
  add('h3_pedals', P=2, S=2, preserve=[1, 64])
  add('h3_pedals', P=1, S=3, preserve=[])
  add('h3_pedals', P=2, S=2, via='public', INS=[1, 15])
  add('h3_pedals', P=2, S=2, via='public', preserve=[66, 7])
  # a later event overriding a carried one needs two events and two pieces
  add('h3_pedals', P=2, S=3, preserve=[64])
  add('h3_pedals', P=1, S=3, neg=True)
  add('h4_stateless', K=1, S=3, neg=True)
  add('h5_list', N=2, M=2, skip='default')
  add('h5_hop', N=2, skip='default', max_hops=4)
  add('h5_time_changes', N=2, TS=1, TP=1, skip='default')
  add('h5_silence', N=2, gap='default')
  for skip in (False, True):
    add('h5_list', N=2, M=2, skip=skip)
    add('h5_hop', N=2, skip=skip, max_hops=4)
    add('h5_time_changes', N=2, TS=1, TP=1, skip=skip)
    # no notes at all: the splitters still cut [0, total_time)
    add('h5_list', N=0, M=2, skip=skip)
    add('h5_hop', N=0, skip=skip, max_hops=3)
    add('h5_time_changes', N=0, TS=1, TP=1, skip=skip)
    # the real extractor behind the wrappers: the returned list of pieces
    add('h5_list', N=2, M=1, skip=skip, real=True)
    add('h5_hop', N=1, skip=skip, max_hops=3, real=True)
    add('h5_time_changes', N=1, TS=1, TP=1, skip=skip, real=True)
  add('h5_hop', N=1, skip=True, max_hops=3, int_hop=True)
  add('h5_silence', N=0)
  add('h5_silence', N=2, real=True)
  add('h6_trim_extract', N=2, neg=True)
  add('h6_trim_full', N=2)
  if deep:
    add('h1_partition', budget=1500, N=2, S=4)
    add('h1_partition', budget=2400, required=False, N=3, S=4)
    for kind in _KINDS:
      add('h2_state', budget=1500, required=False, kind=kind, K=3, S=4)
    add('h3_pedals', budget=1500, P=2, S=3)
    add('h3_pedals', budget=2400, required=False, P=3, S=3)
    add('h4_stateless', budget=1500, K=3, S=3)
    for skip in (False, True):
      add('h5_list', budget=900, N=2, M=2, skip=skip)
      add('h5_list', budget=1500, required=False, N=3, M=3, skip=skip)
      add('h5_hop', budget=900, N=2, skip=skip, max_hops=4)
      add('h5_time_changes', budget=900, N=2, TS=2, TP=1, skip=skip)
      add('h5_time_changes', budget=900, N=1, TS=1, TP=2, skip=skip)
    add('h5_silence', budget=900, N=3)
    add('h6_trim_extract', budget=900, N=3)
    add('h1_partition', budget=900, N=3, S=3, attrs=True)
    add('h1_partition', budget=900, N=3, S=3, neg=True)
    add('h2_mixed', budget=900, kinds=list(_KINDS), S=3)
    add('h2_mixed', budget=900, kinds=['tempo', 'chord'], S=3, beat=True)
    add('h3_pedals', budget=1500, required=False, P=2, S=3, INS=[1, 15])
    add('h3_pedals', budget=900, P=2, S=3, preserve=[1, 64])
    for skip in (False, True):
      add('h5_list', budget=900, N=2, M=2, skip=skip, real=True)
      add('h5_hop', budget=900, N=2, skip=skip, max_hops=4, real=True)
      add('h5_time_changes', budget=900, N=2, TS=1, TP=1, skip=skip, real=True)
    add('h5_silence', budget=900, N=3, real=True)
    add('h6_trim_extract', budget=900, N=3, neg=True)
    add('h6_trim_full', budget=900, N=3)
  return J
