"""C02 -- extracting / splitting partitions notes and carries state over."""
from props import common as K

META = {
    'level': 'model_checking',
    'level_text':
        'Bounded symbolic execution of the real extraction/splitting functions: '
        'every path of the code for up to N notes / K state events / S split '
        'times with all times, values and the query instant free real '
        'variables is enumerated by the solver and on each path the negated '
        'partition / state-in-effect / split-choice oracle is shown unsat. '
        'Coincidences (event exactly on a split, equal times) are branch sides '
        'the explorer must take, so they are decided, not sampled.',
    'level_note':
        'Trusted: z3, the proxy semantics (reals for doubles), symproto as a '
        'model of upb protobuf (checked per sampled path by re-running the '
        'path witness on the real stack). Nothing is claimed beyond the bounds '
        'or about float rounding.',
    'functions': [('sequences_lib', '_extract_subsequences'),
                  ('sequences_lib', 'extract_subsequence'),
                  ('sequences_lib', 'split_note_sequence'),
                  ('sequences_lib', 'split_note_sequence_on_time_changes'),
                  ('sequences_lib', 'split_note_sequence_on_silence'),
                  ('sequences_lib', 'trim_note_sequence')],
    'assumptions': [
        'double fields are exact reals (no rounding claim)',
        'well-formed input: 0 <= start <= end <= total_time',
        'H1-H4 assume a valid split vector (sorted, non-final < total_time); '
        'H1e decides the ValueError clause for invalid vectors',
        'symproto models upb protobuf (validated per sampled path on the real '
        'stack)',
    ],
    'bounds': {
        'quick': 'H1 N<=3 notes x S<=3 splits; H2 K<=3 state events x S=3; '
                 'H3 P<=2 pedal events; H4 K<=2 annotations; H5 N<=2, <=2 '
                 'split candidates',
        'thorough': 'H1 N<=3 x S<=4; H2 K<=3 x S<=4; H3 P<=3; H4 K<=3; H5 N<=3, '
                    '<=3 candidates',
    },
    'outside': ['more notes/events/splits than the bounds', 'float rounding'],
}


def _splits(c, S, tt):
  sp = [c.real('sp%d' % i, 0) for i in range(S)]
  for a, b in zip(sp, sp[1:]):
    c.assume(a <= b)
  for a in sp[:-1]:
    c.assume(a < tt)
  return sp


def h1_partition(c):
  """Every note lands exactly once in the piece containing its start."""
  N, S = c.params['N'], c.params['S']
  pb, sl = c.pb, c.mod('sequences_lib')
  ns = pb.NoteSequence()
  ns.ticks_per_quarter = c.int('tpq', 1, 960)
  ns.id = 'some-id'
  notes = K.add_notes(c, ns, N, instruments=(0, 1), drums=True, programs=(0, 5))
  tt = K.well_formed_total(c, ns, notes)
  sp = _splits(c, S, tt)
  before = c.snapshot(ns)
  subs = sl._extract_subsequences(ns, list(sp))
  c.check(len(subs) == S - 1, 'number of pieces')
  fields = ('pitch', 'velocity', 'instrument', 'program', 'is_drum')
  for k in range(S - 1):
    lo, hi = sp[k], sp[k + 1]
    exp = []
    for n in notes:
      cond = c.And(n['start_time'] >= lo, n['start_time'] < hi)
      key = (n['start_time'] - lo, c.Min(n['end_time'], hi) - lo) + tuple(
          n[f] for f in fields)
      exp.append((cond, key))
    got = [(m.start_time, m.end_time) + tuple(getattr(m, f) for f in fields)
           for m in subs[k].notes]
    c.check(K.multiset_eq(c, got, exp), 'piece notes = notes starting in piece')
    ends = [c.If(cd, key[1], 0) for cd, key in exp]
    c.check(c.eq(subs[k].total_time, c.Max([0] + ends)), 'piece total_time')
    c.check(c.eq(subs[k].subsequence_info.start_time_offset, lo),
            'start_time_offset')
    c.check(
        c.eq(subs[k].subsequence_info.end_time_offset,
             tt - lo - subs[k].total_time), 'end_time_offset')
    c.check(c.eq(subs[k].ticks_per_quarter, ns.ticks_per_quarter),
            'ticks_per_quarter kept')
    c.check(subs[k].id == 'some-id', 'id kept')
  c.check(c.msg_eq(ns, before), 'input unchanged')
  if N >= 1 and S >= 3:
    c.cover('note starts exactly on an inner split',
            c.eq(notes[0]['start_time'], sp[1]))
    c.cover('note ends exactly on a split',
            c.And(c.eq(notes[0]['end_time'], sp[1]),
                  notes[0]['start_time'] < sp[1]))
    c.cover('note crosses a split',
            c.And(notes[0]['end_time'] > sp[1], notes[0]['start_time'] < sp[1]))


def h1e_errors(c):
  """ValueError exactly for unsorted / past-the-end split vectors."""
  N, S = 1, c.params['S']
  pb, sl = c.pb, c.mod('sequences_lib')
  ns = pb.NoteSequence()
  notes = K.add_notes(c, ns, N)
  tt = K.well_formed_total(c, ns, notes)
  sp = [c.real('sp%d' % i) for i in range(S)]
  before = c.snapshot(ns)
  res, err = c.raises(sl._extract_subsequences, ns, list(sp))
  bad = c.Or([a > b for a, b in zip(sp, sp[1:])] +
             [a >= tt for a in sp[:-1]] + [S < 2])
  if err is not None:
    c.check(isinstance(err, ValueError), 'only ValueError')
    c.check(bad, 'raised only for an invalid split vector')
    c.cover('raised')
  else:
    c.check(c.Not(bad), 'invalid split vector accepted')
    c.cover('accepted')
  c.check(c.msg_eq(ns, before), 'input unchanged')


_KINDS = ('tempo', 'timesig', 'key', 'chord')
_CHORDS = ['C', 'G7', 'Am', 'N.C.']


def _add_state_events(c, ns, kind, K_):
  """Adds K_ events of `kind`; returns [(time, payload)] in storage order."""
  pb = c.pb
  evs = []
  for i in range(K_):
    t = c.real('ev%d_t' % i, 0)
    if kind == 'tempo':
      q = c.real('ev%d_q' % i, 10, 480)
      ns.tempos.add(time=t, qpm=q)
      evs.append((t, (q,)))
    elif kind == 'timesig':
      nu = c.int('ev%d_n' % i, 1, 12)
      de = c.int('ev%d_d' % i, 1, 16)
      ns.time_signatures.add(time=t, numerator=nu, denominator=de)
      evs.append((t, (nu, de)))
    elif kind == 'key':
      k = c.int('ev%d_k' % i, 0, 11)
      m = c.int('ev%d_m' % i, 0, 1)
      ns.key_signatures.add(time=t, key=k, mode=m)
      evs.append((t, (k, m)))
    else:
      # chord texts are concrete and distinct per index (text is never
      # computed on); the step field is carried along symbolically
      q = c.int('ev%d_qs' % i, 0, 1000)
      ns.text_annotations.add(
          time=t,
          text=_CHORDS[i],
          quantized_step=q,
          annotation_type=pb.NoteSequence.TextAnnotation.CHORD_SYMBOL)
      evs.append((t, (i, q)))
  return evs


def _piece_events(c, piece, kind):
  if kind == 'tempo':
    return [(e.time, (e.qpm,)) for e in piece.tempos]
  if kind == 'timesig':
    return [(e.time, (e.numerator, e.denominator)) for e in piece.time_signatures]
  if kind == 'key':
    return [(e.time, (e.key, e.mode)) for e in piece.key_signatures]
  out = []
  for e in piece.text_annotations:
    if e.annotation_type == c.pb.NoteSequence.TextAnnotation.CHORD_SYMBOL:
      out.append((e.time, (_CHORDS.index(e.text), e.quantized_step)))
  return out


def h2_state(c):
  """State in effect at a symbolic instant of each piece = original's."""
  kind, K_, S = c.params['kind'], c.params['K'], c.params['S']
  pb, sl = c.pb, c.mod('sequences_lib')
  ns = pb.NoteSequence()
  notes = K.add_notes(c, ns, 1)
  tt = K.well_formed_total(c, ns, notes)
  evs = _add_state_events(c, ns, kind, K_)
  sp = _splits(c, S, tt)
  tau = c.real('tau', 0)
  before = c.snapshot(ns)
  subs = sl._extract_subsequences(ns, list(sp))
  ident = lambda p: p
  for k in range(S - 1):
    lo, hi = sp[k], sp[k + 1]
    pe = _piece_events(c, subs[k], kind)
    for tm, _ in pe:
      c.check(c.And(tm >= 0, c.Or(tm < hi - lo, tm == 0)),
              'piece event time inside the piece')
    ex_o, v_o = K.in_effect(c, evs, tau + lo, ident)
    ex_p, v_p = K.in_effect(c, pe, tau, ident)
    inside = tau < hi - lo
    if pe:
      same = c.And(c.eq(ex_o, ex_p),
                   c.Implies(ex_p, K.key_eq(c, v_o, v_p)))
    else:
      same = c.Not(ex_o)
    c.check(c.Implies(inside, same), 'state in effect at tau (%s)' % kind)
  c.check(c.msg_eq(ns, before), 'input unchanged')
  if K_ >= 1 and S >= 3:
    c.cover('event exactly on an inner split', c.eq(evs[0][0], sp[1]))
    c.cover('event before the first split', evs[0][0] < sp[0])
  if K_ >= 2:
    c.cover('two events at the same time', c.eq(evs[0][0], evs[1][0]))


_CCNUM = [64, 66, 67, 1]


def h3_pedals(c):
  """Per-(instrument, controller) pedal state at a symbolic instant."""
  P, S = c.params['P'], c.params['S']
  pb, sl = c.pb, c.mod('sequences_lib')
  ns = pb.NoteSequence()
  notes = K.add_notes(c, ns, 1)
  tt = K.well_formed_total(c, ns, notes)
  ccs = []
  for i in range(P):
    t = c.real('cc%d_t' % i, 0)
    num = c.choice('cc%d_num' % i, _CCNUM)
    ins = c.choice('cc%d_ins' % i, [0, 1])
    val = c.int('cc%d_val' % i, 0, 127)
    ns.control_changes.add(time=t, control_number=num, control_value=val,
                           instrument=ins)
    ccs.append((t, num, ins, val))
  sp = _splits(c, S, tt)
  tau = c.real('tau', 0)
  before = c.snapshot(ns)
  subs = sl._extract_subsequences(ns, list(sp))
  for k in range(S - 1):
    lo, hi = sp[k], sp[k + 1]
    inside = tau < hi - lo
    pcs = list(subs[k].control_changes)
    for e in pcs:
      c.check(e.control_number != 1, 'non-pedal controller dropped')
      c.check(c.And(e.time >= 0, c.Or(e.time < hi - lo, e.time == 0)),
              'pedal event time inside the piece')
    for num in (64, 66, 67):
      for ins in (0, 1):
        orig = [(t, (v,)) for (t, n_, i_, v) in ccs if n_ == num and i_ == ins]
        got = [(e.time, (e.control_value,)) for e in pcs
               if e.control_number == num and e.instrument == ins]
        ex_o, v_o = K.in_effect(c, orig, tau + lo, lambda p: p)
        ex_p, v_p = K.in_effect(c, got, tau, lambda p: p)
        if got and orig:
          same = c.And(c.eq(ex_o, ex_p), c.Implies(ex_p, K.key_eq(c, v_o, v_p)))
        elif orig:
          same = c.Not(ex_o)
        elif got:
          same = False
        else:
          same = True
        c.check(c.Implies(inside, same), 'pedal state in effect at tau')
  c.check(c.msg_eq(ns, before), 'input unchanged')
  c.cover('pedal event exactly on an inner split', c.eq(ccs[0][0], sp[1]))


def h4_stateless(c):
  """Beats land in their piece; other annotations, bends, non-pedal CCs drop."""
  K_, S = c.params['K'], c.params['S']
  pb, sl = c.pb, c.mod('sequences_lib')
  TA = pb.NoteSequence.TextAnnotation
  ns = pb.NoteSequence()
  notes = K.add_notes(c, ns, 1)
  tt = K.well_formed_total(c, ns, notes)
  anns = []
  for i in range(K_):
    t = c.real('a%d_t' % i, 0)
    ty = c.int('a%d_ty' % i, 0, 2)
    ns.text_annotations.add(time=t, annotation_type=ty, text='x%d' % i)
    anns.append((t, ty, i))
  ns.pitch_bends.add(time=c.real('pb_t', 0), bend=c.int('pb_b', -8192, 8191))
  sp = _splits(c, S, tt)
  before = c.snapshot(ns)
  subs = sl._extract_subsequences(ns, list(sp))
  for k in range(S - 1):
    lo, hi = sp[k], sp[k + 1]
    c.check(len(subs[k].pitch_bends) == 0, 'pitch bends dropped')
    got, other = [], []
    for e in subs[k].text_annotations:
      if e.annotation_type == TA.BEAT:
        got.append((e.time, int(e.text[1:])))
      elif e.annotation_type == TA.CHORD_SYMBOL:
        pass
      else:
        other.append(e)
    c.check(len(other) == 0, 'non-beat non-chord annotations dropped')
    exp = [(c.And(ty == TA.BEAT, t >= lo, t < hi), (t - lo, i))
           for (t, ty, i) in anns]
    c.check(K.multiset_eq(c, got, exp), 'beats land in the piece containing them')
  c.check(c.msg_eq(ns, before), 'input unchanged')
  c.cover('beat exactly on an inner split',
          c.And(c.eq(anns[0][0], sp[1]), anns[0][1] == TA.BEAT))


class _Recorder(object):

  def __init__(self):
    self.calls = []

  def __call__(self, sequence, split_times, preserve_control_numbers=None):
    self.calls.append(list(split_times))
    return ['PIECES']


def _with_recorder(sl, fn, *a, **k):
  rec = _Recorder()
  orig = sl._extract_subsequences
  sl._extract_subsequences = rec
  try:
    out = fn(*a, **k)
  finally:
    sl._extract_subsequences = orig
  return rec, out


def _check_split_vector(c, rec, out, exp, label):
  if len(exp) > 1:
    c.check(len(rec.calls) == 1 and out == ['PIECES'], label + ': extraction called once')
    got = rec.calls[0]
    c.check(len(got) == len(exp), label + ': number of split points')
    c.check(c.And([c.eq(g, e) for g, e in zip(got, exp)]),
            label + ': split points')
  else:
    c.check(len(rec.calls) == 0 and out == [], label + ': no pieces')


def h5_list(c):
  """split_note_sequence with a list of times."""
  N, M = c.params['N'], c.params['M']
  skip = c.params['skip']
  pb, sl = c.pb, c.mod('sequences_lib')
  ns = pb.NoteSequence()
  notes = K.add_notes(c, ns, N)
  tt = K.well_formed_total(c, ns, notes)
  times = [c.real('t%d' % i, 0) for i in range(M)]
  before = c.snapshot(ns)
  rec, out = _with_recorder(sl, sl.split_note_sequence, ns, list(times), skip)
  # oracle (declarative per candidate; may fork, all forks are decided by the
  # path already)
  cand = sorted(times)
  exp = [0.0]
  for t in cand:
    crossing = any(
        bool(c.And(n['start_time'] < t, n['end_time'] > t)) for n in notes)
    if not (skip and crossing):
      exp.append(t)
  if tt > exp[-1]:
    exp.append(tt)
  _check_split_vector(c, rec, out, exp, 'list')
  c.check(c.msg_eq(ns, before), 'input unchanged')
  if N and M:
    c.cover('candidate strictly inside a note',
            c.And(notes[0]['start_time'] < times[0],
                  notes[0]['end_time'] > times[0]))
    c.cover('candidate exactly at a note end',
            c.eq(notes[0]['end_time'], times[0]))


def h5_hop(c):
  """split_note_sequence with a scalar hop: exactly the hop multiples."""
  N = c.params['N']
  skip = c.params['skip']
  pb, sl = c.pb, c.mod('sequences_lib')
  ns = pb.NoteSequence()
  notes = K.add_notes(c, ns, N)
  tt = K.well_formed_total(c, ns, notes)
  hop = c.real('hop')
  c.assume(hop > 0)
  c.assume(tt <= c.params['max_hops'] * hop)
  rec, out = _with_recorder(sl, sl.split_note_sequence, ns, hop, skip)
  exp = [0.0]
  k = 1
  while k * hop < tt:
    t = k * hop
    crossing = any(
        bool(c.And(n['start_time'] < t, n['end_time'] > t)) for n in notes)
    if not (skip and crossing):
      exp.append(t)
    k += 1
  if tt > exp[-1]:
    exp.append(tt)
  _check_split_vector(c, rec, out, exp, 'hop')
  c.cover('total_time an exact multiple of the hop', c.eq(tt, 2 * hop))


def h5_time_changes(c):
  """split_note_sequence_on_time_changes: exactly the genuine changes."""
  N, skip = c.params['N'], c.params['skip']
  nts, ntp = c.params['TS'], c.params['TP']
  pb, sl = c.pb, c.mod('sequences_lib')
  ns = pb.NoteSequence()
  notes = K.add_notes(c, ns, N)
  tt = K.well_formed_total(c, ns, notes)
  changes = []  # (time, kind, value) storage order: time signatures then tempos
  for i in range(nts):
    t = c.real('ts%d_t' % i, 0)
    nu = c.int('ts%d_n' % i, 1, 12)
    de = c.choice('ts%d_d' % i, [4, 8])
    ns.time_signatures.add(time=t, numerator=nu, denominator=de)
    changes.append((t, 'ts', (nu, de)))
  for i in range(ntp):
    t = c.real('tp%d_t' % i, 0)
    q = c.real('tp%d_q' % i, 10, 480)
    ns.tempos.add(time=t, qpm=q)
    changes.append((t, 'tp', (q,)))
  before = c.snapshot(ns)
  rec, out = _with_recorder(sl, sl.split_note_sequence_on_time_changes, ns, skip)
  # oracle: walk the changes in stable time order
  order = sorted(range(len(changes)), key=lambda i: changes[i][0])
  cur = {'ts': (4, 4), 'tp': (120.0,)}
  exp = [0.0]
  for i in order:
    t, kind, val = changes[i]
    if not t < tt:
      continue
    if bool(K.key_eq(c, val, cur[kind])):
      continue
    crossing = any(
        bool(c.And(n['start_time'] < t, n['end_time'] > t)) for n in notes)
    if t > exp[-1] and not (skip and crossing):
      exp.append(t)
    cur[kind] = val
  if tt > exp[-1]:
    exp.append(tt)
  _check_split_vector(c, rec, out, exp, 'time changes')
  c.check(c.msg_eq(ns, before), 'input unchanged')
  if changes:
    c.cover('a repeated (non-genuine) change is skipped',
            K.key_eq(c, changes[0][2], (4, 4) if changes[0][1] == 'ts' else
                     (120.0,)))


def h5_silence(c):
  """split_note_sequence_on_silence: onsets after more than gap of silence."""
  N = c.params['N']
  pb, sl = c.pb, c.mod('sequences_lib')
  ns = pb.NoteSequence()
  notes = K.add_notes(c, ns, N)
  tt = K.well_formed_total(c, ns, notes)
  gap = c.real('gap', 0)
  before = c.snapshot(ns)
  rec, out = _with_recorder(sl, sl.split_note_sequence_on_silence, ns, gap)
  # declarative: onset s_i is a split point iff s_i > gap + max(0, ends of
  # notes starting strictly earlier)
  pts = []
  for n in notes:
    last = c.Max([0] + [
        c.If(m['start_time'] < n['start_time'], m['end_time'], 0)
        for m in notes if m is not n
    ])
    if n['start_time'] > last + gap:
      pts.append(n['start_time'])
  exp = [0.0]
  for t in sorted(pts):
    if not bool(c.eq(t, exp[-1])):
      exp.append(t)
  if tt > exp[-1]:
    exp.append(tt)
  _check_split_vector(c, rec, out, exp, 'silence')
  c.check(c.msg_eq(ns, before), 'input unchanged')
  if N >= 2:
    c.cover('gap exactly equal to gap_seconds (no split)',
            c.eq(notes[1]['start_time'], notes[0]['end_time'] + gap))


def h6_trim_extract(c):
  """extract_subsequence / trim_note_sequence on [a, b)."""
  N = c.params['N']
  pb, sl = c.pb, c.mod('sequences_lib')
  ns = pb.NoteSequence()
  notes = K.add_notes(c, ns, N, instruments=(0, 1))
  tt = K.well_formed_total(c, ns, notes)
  a = c.real('a', 0)
  b = c.real('b')
  c.assume(a <= b)
  before = c.snapshot(ns)
  tr = sl.trim_note_sequence(ns, a, b)
  exp = [(c.And(n['start_time'] >= a, n['start_time'] < b),
          (n['start_time'], c.Min(n['end_time'], b), n['pitch'], n['velocity'],
           n['instrument'])) for n in notes]
  got = [(m.start_time, m.end_time, m.pitch, m.velocity, m.instrument)
         for m in tr.notes]
  c.check(K.multiset_eq(c, got, exp), 'trim keeps notes starting in [a,b)')
  c.check(c.eq(tr.total_time, c.Min(tt, b)), 'trim total_time')
  c.assume(a < tt)
  ex = sl.extract_subsequence(ns, a, b)
  exp2 = [(cd, (k[0] - a, k[1] - a) + k[2:]) for cd, k in exp]
  got2 = [(m.start_time, m.end_time, m.pitch, m.velocity, m.instrument)
          for m in ex.notes]
  c.check(K.multiset_eq(c, got2, exp2), 'extract = trim shifted by -a')
  c.check(c.msg_eq(ns, before), 'input unchanged')


HARNESSES = {
    'h1_partition': h1_partition,
    'h1e_errors': h1e_errors,
    'h2_state': h2_state,
    'h3_pedals': h3_pedals,
    'h4_stateless': h4_stateless,
    'h5_list': h5_list,
    'h5_hop': h5_hop,
    'h5_time_changes': h5_time_changes,
    'h5_silence': h5_silence,
    'h6_trim_extract': h6_trim_extract,
}


def jobs(tier):
  J = []

  def add(h, budget=120, required=True, **params):
    J.append({'harness': h, 'params': params, 'budget_s': budget,
              'required': required})

  deep = tier == 'thorough'
  for (n, s) in [(1, 2), (1, 3), (2, 2), (2, 3), (3, 3)]:
    add('h1_partition', N=n, S=s)
  add('h1e_errors', S=2)
  add('h1e_errors', S=3)
  for kind in _KINDS:
    add('h2_state', kind=kind, K=1, S=3)
    add('h2_state', kind=kind, K=2, S=3)
    add('h2_state', kind=kind, K=3, S=3)
  add('h3_pedals', P=1, S=3)
  add('h3_pedals', P=2, S=2)
  add('h4_stateless', K=1, S=3)
  add('h4_stateless', K=2, S=3)
  for skip in (False, True):
    add('h5_list', N=1, M=2, skip=skip)
    add('h5_list', N=2, M=1, skip=skip)
    add('h5_hop', N=1, skip=skip, max_hops=3)
    add('h5_time_changes', N=1, TS=1, TP=1, skip=skip)
    # two changes of one kind: a change skipped inside a note must still
    # update the value the next change is compared with
    add('h5_time_changes', N=1, TS=0, TP=2, skip=skip)
    add('h5_time_changes', N=1, TS=2, TP=0, skip=skip)
  add('h5_silence', N=2)
  add('h5_silence', N=3)
  add('h6_trim_extract', N=2)
  if deep:
    add('h1_partition', budget=1500, N=2, S=4)
    add('h1_partition', budget=2400, required=False, N=3, S=4)
    for kind in _KINDS:
      add('h2_state', budget=1500, required=False, kind=kind, K=3, S=4)
    add('h3_pedals', budget=1500, P=2, S=3)
    add('h3_pedals', budget=2400, required=False, P=3, S=3)
    add('h4_stateless', budget=1500, K=3, S=3)
    for skip in (False, True):
      add('h5_list', budget=900, N=2, M=2, skip=skip)
      add('h5_list', budget=1500, required=False, N=3, M=3, skip=skip)
      add('h5_hop', budget=900, N=2, skip=skip, max_hops=4)
      add('h5_time_changes', budget=900, N=2, TS=2, TP=1, skip=skip)
      add('h5_time_changes', budget=900, N=1, TS=1, TP=2, skip=skip)
    add('h5_silence', budget=900, N=3)
    add('h6_trim_extract', budget=900, N=3)
  return J
