"""Builders and oracle helpers shared by property harnesses.  All functions take
the harness context `c` and work identically with proxies (SymCtx) and with
plain values on the real stack (ConcCtx)."""


def add_notes(c, ns, n, prefix='n', t_lo=0, pitch=(0, 127), vel=(1, 127),
              instruments=None, drums=False, programs=None, ordered=False):
  """Adds n notes with symbolic fields; returns list of dict views."""
  out = []
  for i in range(n):
    s = c.real('%s%d_s' % (prefix, i), t_lo)
    e = c.real('%s%d_e' % (prefix, i))
    c.assume(e >= s)
    p = c.int('%s%d_p' % (prefix, i), pitch[0], pitch[1])
    v = c.int('%s%d_v' % (prefix, i), vel[0], vel[1])
    kw = dict(start_time=s, end_time=e, pitch=p, velocity=v)
    if instruments is not None:
      kw['instrument'] = c.int('%s%d_i' % (prefix, i), instruments[0],
                               instruments[1])
    if programs is not None:
      kw['program'] = c.int('%s%d_g' % (prefix, i), programs[0], programs[1])
    if drums:
      kw['is_drum'] = c.bool('%s%d_d' % (prefix, i))
    ns.notes.add(**kw)
    d = dict(kw)
    d['idx'] = i
    out.append(d)
  return out


def well_formed_total(c, ns, notes, name='tt'):
  tt = c.real(name, 0)
  for n in notes:
    c.assume(n['end_time'] <= tt)
  ns.total_time = tt
  return tt


NOTE_FIELDS = ('pitch', 'velocity', 'start_time', 'end_time', 'instrument',
               'program', 'is_drum', 'quantized_start_step',
               'quantized_end_step', 'pitch_name', 'numerator', 'denominator',
               'part', 'voice')


def key_eq(c, a, b, approx=(), tol=1e-9):
  """Equality of two equally long tuples of scalars; the components listed in
  `approx` are compared up to the relative tolerance `tol`."""
  return c.And([(c.approx(x, y, tol) if i in approx else c.eq(x, y))
                for i, (x, y) in enumerate(zip(a, b))] or [True])


def multiset_eq(c, got, exp, approx=(), tol=1e-9):
  """got: list of key tuples; exp: list of (cond, key tuple).

  True iff the multiset `got` equals the multiset {key | cond}.
  """
  if approx:
    def key_eq(c, a, b, _k=globals()['key_eq']):  # pylint: disable=redefined-outer-name
      return _k(c, a, b, approx, tol)
  else:
    key_eq = globals()['key_eq']
  conds = [c.eq(len(got), c.Count([cd for cd, _ in exp]))]
  for g in got:
    conds.append(c.Or([c.And(cd, key_eq(c, g, k)) for cd, k in exp] or [False]))
  for cd, k in exp:
    n_got = c.Count([key_eq(c, g, k) for g in got])
    n_exp = c.Count([c.And(cd2, key_eq(c, k2, k)) for cd2, k2 in exp])
    conds.append(c.Implies(cd, c.eq(n_got, n_exp)))
  return c.And(conds)


def note_key(n, fields=NOTE_FIELDS):
  return tuple(getattr(n, f) for f in fields)


def in_effect(c, events, t, val):
  """State in effect at instant t.

  events: list of (time, payload) in storage order.  Returns (exists, value)
  where value = val(payload) of the last event, in time-sorted stable order,
  whose time <= t.  `val` maps a payload to a tuple of numbers.
  """
  n = len(events)
  exists = c.Or([tm <= t for tm, _ in events] or [False])
  if n == 0:
    return False, None
  width = len(val(events[0][1]))
  res = [0] * width
  for i in range(n - 1, -1, -1):
    ti = events[i][0]
    # i is the winner iff ti<=t and no j beats it (later time, or equal time
    # and stored later)
    beaten = []
    for j in range(n):
      if j == i:
        continue
      tj = events[j][0]
      if j > i:
        beaten.append(c.And(tj <= t, tj >= ti))
      else:
        beaten.append(c.And(tj <= t, tj > ti))
    win = c.And(ti <= t, c.Not(c.Or(beaten or [False])))
    vi = val(events[i][1])
    res = [c.If(win, vi[k], res[k]) for k in range(width)]
  return exists, tuple(res)


def populate_full(c, ns, n_notes=1, prefix='', section=True, tempo=True,
                  groups=False, shared_time=False):
  """Fills every repeated field of `ns` with symbolic content.

  Returns dict with the note views and the list of all (container name, index,
  time variable) triples of non-note events.
  """
  P = prefix
  notes = add_notes(c, ns, n_notes, prefix=P + 'n', instruments=(0, 3),
                    drums=True, programs=(0, 127))
  tt = well_formed_total(c, ns, notes, name=P + 'tt')
  ev = []

  shared = [None]

  def t(name):
    # shared_time: all non-note events sit at one common symbolic instant, so
    # that position case splits are not multiplied across event kinds
    if shared_time:
      if shared[0] is None:
        shared[0] = c.real(P + 'ev_t', 0)
      return shared[0]
    return c.real(P + name, 0)

  x = t('ts_t')
  ns.time_signatures.add(time=x, numerator=c.int(P + 'ts_n', 1, 12),
                         denominator=4)
  ev.append(('time_signatures', 0, x))
  x = t('ks_t')
  ns.key_signatures.add(time=x, key=c.int(P + 'ks_k', 0, 11),
                        mode=c.int(P + 'ks_m', 0, 1))
  ev.append(('key_signatures', 0, x))
  if tempo:
    x = t('tp_t')
    ns.tempos.add(time=x, qpm=c.real(P + 'tp_q', 10, 480))
    ev.append(('tempos', 0, x))
  x = t('pb_t')
  ns.pitch_bends.add(time=x, bend=c.int(P + 'pb_b', -8192, 8191),
                     instrument=c.int(P + 'pb_i', 0, 3))
  ev.append(('pitch_bends', 0, x))
  x = t('cc_t')
  ns.control_changes.add(time=x, control_number=c.int(P + 'cc_n', 0, 127),
                         control_value=c.int(P + 'cc_v', 0, 127),
                         instrument=c.int(P + 'cc_i', 0, 3))
  ev.append(('control_changes', 0, x))
  x = t('ta_t')
  ns.text_annotations.add(time=x, text='Cmaj7',
                          annotation_type=c.int(P + 'ta_ty', 0, 2))
  ev.append(('text_annotations', 0, x))
  if section:
    x = t('sa_t')
    ns.section_annotations.add(time=x, section_id=c.int(P + 'sa_id', 0, 5))
    ev.append(('section_annotations', 0, x))
  if groups:
    g = ns.section_groups.add(num_times=2)
    g.sections.add(section_id=1)
  ns.id = P + 'id'
  ns.ticks_per_quarter = c.int(P + 'tpq', 1, 960)
  ns.part_infos.add(part=1, name='part')
  ns.instrument_infos.add(instrument=1, name='instr')
  ns.source_info.parser = 2
  ns.sequence_metadata.title = 'title'
  ns.sequence_metadata.composers.append('a')
  ns.sequence_metadata.genre.append('g')
  ns.subsequence_info.start_time_offset = c.real(P + 'sub_s', 0)
  return {'notes': notes, 'tt': tt, 'events': ev}


def scalar_fields(msg):
  """Names of the singular scalar fields of a message (shim or real)."""
  cls = type(msg)
  if hasattr(cls, '_fields') and isinstance(cls._fields, dict):
    return sorted(n for n, f in cls._fields.items()
                  if not f.repeated and f.kind != 'msg')
  out = []
  for f in msg.DESCRIPTOR.fields:
    rep = f.is_repeated if hasattr(f, 'is_repeated') else (f.label == 3)
    if not rep and f.message_type is None:
      out.append(f.name)
  return sorted(out)


def msg_key(msg):
  return tuple(getattr(msg, n) for n in scalar_fields(msg))


_SEQ_LISTS = ('notes', 'tempos', 'time_signatures', 'key_signatures',
              'control_changes', 'pitch_bends', 'text_annotations',
              'section_annotations')


def seq_bag_eq(c, a, b, lists=_SEQ_LISTS):
  """Equality of two NoteSequences as bags: every repeated field compared as a
  multiset, scalar top-level fields compared directly."""
  conds = [c.eq(a.total_time, b.total_time),
           c.eq(a.total_quantized_steps, b.total_quantized_steps),
           c.eq(a.ticks_per_quarter, b.ticks_per_quarter),
           c.eq(a.quantization_info.steps_per_quarter,
                b.quantization_info.steps_per_quarter),
           c.eq(a.quantization_info.steps_per_second,
                b.quantization_info.steps_per_second),
           c.eq(a.subsequence_info.start_time_offset,
                b.subsequence_info.start_time_offset),
           c.eq(a.subsequence_info.end_time_offset,
                b.subsequence_info.end_time_offset)]
  for name in lists:
    la, lb = list(getattr(a, name)), list(getattr(b, name))
    if len(la) != len(lb):
      return False
    conds.append(multiset_eq(c, [msg_key(m) for m in la],
                             [(True, msg_key(m)) for m in lb]))
  return c.And(conds)
