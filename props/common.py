"""Builders and oracle helpers shared by property harnesses.  All functions take
the harness context `c` and work identically with proxies (SymCtx) and with
plain values on the real stack (ConcCtx)."""


def add_notes(c, ns, n, prefix='n', t_lo=0, pitch=(0, 127), vel=(1, 127),
              instruments=None, drums=False, programs=None, ordered=False):
  """Adds n notes with symbolic fields; returns list of dict views."""
  out = []
  for i in range(n):
    s = c.real('%s%d_s' % (prefix, i), t_lo)
    e = c.real('%s%d_e' % (prefix, i))
    c.assume(e >= s)
    p = c.int('%s%d_p' % (prefix, i), pitch[0], pitch[1])
    v = c.int('%s%d_v' % (prefix, i), vel[0], vel[1])
    kw = dict(start_time=s, end_time=e, pitch=p, velocity=v)
    if instruments is not None:
      kw['instrument'] = c.int('%s%d_i' % (prefix, i), instruments[0],
                               instruments[1])
    if programs is not None:
      kw['program'] = c.int('%s%d_g' % (prefix, i), programs[0], programs[1])
    if drums:
      kw['is_drum'] = c.bool('%s%d_d' % (prefix, i))
    ns.notes.add(**kw)
    d = dict(kw)
    d['idx'] = i
    out.append(d)
  return out


def well_formed_total(c, ns, notes, name='tt'):
  tt = c.real(name, 0)
  for n in notes:
    c.assume(n['end_time'] <= tt)
  ns.total_time = tt
  return tt


NOTE_FIELDS = ('pitch', 'velocity', 'start_time', 'end_time', 'instrument',
               'program', 'is_drum', 'quantized_start_step',
               'quantized_end_step', 'pitch_name', 'numerator', 'denominator',
               'part', 'voice')


def key_eq(c, a, b):
  """Equality of two equally long tuples of scalars."""
  return c.And([c.eq(x, y) for x, y in zip(a, b)] or [True])


def multiset_eq(c, got, exp):
  """got: list of key tuples; exp: list of (cond, key tuple).

  True iff the multiset `got` equals the multiset {key | cond}.
  """
  conds = [c.eq(len(got), c.Count([cd for cd, _ in exp]))]
  for g in got:
    conds.append(c.Or([c.And(cd, key_eq(c, g, k)) for cd, k in exp] or [False]))
  for cd, k in exp:
    n_got = c.Count([key_eq(c, g, k) for g in got])
    n_exp = c.Count([c.And(cd2, key_eq(c, k2, k)) for cd2, k2 in exp])
    conds.append(c.Implies(cd, c.eq(n_got, n_exp)))
  return c.And(conds)


def note_key(n, fields=NOTE_FIELDS):
  return tuple(getattr(n, f) for f in fields)


def in_effect(c, events, t, val):
  """State in effect at instant t.

  events: list of (time, payload) in storage order.  Returns (exists, value)
  where value = val(payload) of the last event, in time-sorted stable order,
  whose time <= t.  `val` maps a payload to a tuple of numbers.
  """
  n = len(events)
  exists = c.Or([tm <= t for tm, _ in events] or [False])
  if n == 0:
    return False, None
  width = len(val(events[0][1]))
  res = [0] * width
  for i in range(n - 1, -1, -1):
    ti = events[i][0]
    # i is the winner iff ti<=t and no j beats it (later time, or equal time
    # and stored later)
    beaten = []
    for j in range(n):
      if j == i:
        continue
      tj = events[j][0]
      if j > i:
        beaten.append(c.And(tj <= t, tj >= ti))
      else:
        beaten.append(c.And(tj <= t, tj > ti))
    win = c.And(ti <= t, c.Not(c.Or(beaten or [False])))
    vi = val(events[i][1])
    res = [c.If(win, vi[k], res[k]) for k in range(width)]
  return exists, tuple(res)
