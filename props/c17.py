"""C17 -- event sequences keep length, step range and indexing consistent under
any edits (one inductive step from an arbitrary valid state)."""
import copy

META = {
    'level': 'model_checking',
    'level_text':
        'Inductive step instead of history enumeration: the pre-state is an '
        'arbitrary state satisfying the representation invariant (event list '
        'of length L<=4 with symbolic events, an UNBOUNDED symbolic start '
        'step, symbolic resolution), one real operation with symbolic '
        'arguments is executed, and the solver shows the invariant and the '
        'operation\'s post-condition on every path. One step from an '
        'arbitrary valid state covers operation histories of every length.',
    'level_note':
        'Trusted: z3 (integers). The invariant is exactly what the public '
        'constructors establish, so every pre-state is reachable (a '
        'counterexample from an unreachable state would mean the invariant is '
        'too weak, not a finding). `steps` builds a Python range and is checked '
        'with a bounded start step only.',
    'functions': [
        ('events_lib', 'SimpleEventSequence.append'),
        ('events_lib', 'SimpleEventSequence.set_length'),
        ('events_lib', 'SimpleEventSequence.__getitem__'),
        ('events_lib', 'SimpleEventSequence.increase_resolution'),
        ('events_lib', 'SimpleEventSequence.__deepcopy__'),
        ('events_lib', 'SimpleEventSequence._from_event_list'),
        ('events_lib', 'SimpleEventSequence.__init__'),
        ('events_lib', 'SimpleEventSequence._reset'),
        ('events_lib', 'SimpleEventSequence.__eq__'),
        ('events_lib', 'SimpleEventSequence.steps'),
        ('melodies_lib', 'Melody.set_length'),
        ('melodies_lib', 'Melody._from_event_list'),
        ('melodies_lib', 'Melody.append'),
        ('melodies_lib', 'Melody.increase_resolution'),
        ('drums_lib', 'DrumTrack.append'),
        ('drums_lib', 'DrumTrack._from_event_list'),
        ('drums_lib', 'DrumTrack.increase_resolution'),
        ('lead_sheets_lib', 'LeadSheet.__init__'),
        ('lead_sheets_lib', 'LeadSheet._from_melody_and_chords'),
        ('lead_sheets_lib', 'LeadSheet.increase_resolution'),
        ('lead_sheets_lib', 'LeadSheet.__deepcopy__'),
        ('lead_sheets_lib', 'LeadSheet.__iter__'),
        ('lead_sheets_lib', 'LeadSheet.__getitem__'),
        ('lead_sheets_lib', 'LeadSheet.set_length'),
        ('lead_sheets_lib', 'LeadSheet.append'),
        ('pianoroll_lib', 'PianorollSequence.set_length'),
        ('pianoroll_lib', 'PianorollSequence.append'),
        ('pianoroll_lib', 'PianorollSequence.__init__'),
        ('performance_lib', 'Performance.__init__'),
        ('performance_lib', 'MetricPerformance.__init__'),
        ('performance_lib', 'BasePerformance.append'),
        ('performance_lib', 'NotePerformance.append'),
        ('performance_lib', 'NotePerformance.num_steps'),
        ('performance_lib', 'NotePerformance.steps'),
        ('performance_lib', 'BasePerformance._append_steps'),
        ('performance_lib', 'BasePerformance._trim_steps'),
        ('performance_lib', 'BasePerformance.set_length'),
        ('performance_lib', 'BasePerformance.truncate'),
        ('performance_lib', 'BasePerformance.num_steps'),
        ('performance_lib', 'BasePerformance.steps'),
    ],
    'assumptions': [
        'representation invariant: len(events) == end_step - start_step, '
        'steps_per_bar/quarter >= 1, melody events in [-2,127]',
        'set_length argument in [0, L+2]; slice bounds in [-5,5] or None; '
        'increase_resolution factor in [1,3]',
        'Performance: max_shift_steps in [1,1000], set_length target at most '
        '3*max_shift_steps beyond the current length',
        'set_length(from_left=True) is unsupported for PianorollSequence and '
        'Performance: the harness accepts a NotImplementedError that changes '
        'nothing, or a correct left-side edit, never an edit of the right '
        'side; NotePerformance.set_length is a documented no-op (not called)',
        'padding: pad event of the class; Melody grown on the right gets '
        'NOTE_OFF first iff a note still sounds; increase_resolution filler: '
        'repeat (base, chords), NO_EVENT (melody), frozenset() (drums), '
        'fill_event if given',
        'omitted keyword arguments: start_step=0, DEFAULT_STEPS_PER_BAR/'
        'QUARTER, from_left=False, DEFAULT_MAX_SHIFT_STEPS/QUARTERS, '
        'program/is_drum None; re-initialisation = _from_event_list / _reset '
        'on a populated object',
        'Melody pre-states built by append may start with NOTE_OFF; copies '
        'and slices are compared up to the documented constructor cleaning',
        'strided slices (step 2, -1): invariant, content and start_step = '
        'step of the first element picked; drum/chord events are fixed '
        'concrete values; invalid events: melody ints outside [-2,127], '
        'drum non-frozensets and pitches -1/128',
        'Pianoroll shift_range: pitch window and pitches in [0,6]; '
        'MetricPerformance max_shift_quarters in [1,8]; NotePerformance built '
        'from an empty quantized sequence plus appended tuples (shifts and '
        'durations <= 1000), num_steps only via end-start and step containment',
    ],
    'bounds': {
        'quick': 'L<=3 events for simple sequences, L<=2 for performances, '
                 'lead sheets, pianorolls and NotePerformance',
        'thorough': 'L<=4 / L<=3',
    },
    'outside': ['longer event lists (the step is inductive in the history, '
                'not in the list length)'],
}

_DRUMS = [frozenset([36]), frozenset([38, 42]), frozenset(), frozenset([46])]
_CHORDS = ['C', 'Dm7', 'N.C.', 'G7']


def _make(c, kind, L, start=None):
  """An arbitrary valid state of the given class."""
  if start is None:
    start = c.int('start')  # unbounded
  spb = c.int('spb', 1, 64)
  spq = c.int('spq', 1, 24)
  # built=True: the state is reached as a user reaches it without an event
  # list - an EMPTY sequence created at start_step, then one append per event
  built = c.params.get('built', False)

  def events_arg(ev):
    return None if built else list(ev)

  if kind == 'melody':
    ml = c.mod('melodies_lib')
    ev = [c.int('e%d' % i, -2, 127) for i in range(L)]
    seq = ml.Melody(events_arg(ev), start_step=start, steps_per_bar=spb,
                    steps_per_quarter=spq)
    pad = -2
  elif kind == 'drums':
    dl = c.mod('drums_lib')
    ev = [_DRUMS[i % 4] for i in range(L)]
    seq = dl.DrumTrack(events_arg(ev), start_step=start, steps_per_bar=spb,
                       steps_per_quarter=spq)
    pad = frozenset()
  elif kind == 'chords':
    cl = c.mod('chords_lib')
    ev = [_CHORDS[i % 4] for i in range(L)]
    seq = cl.ChordProgression(events_arg(ev), start_step=start,
                              steps_per_bar=spb, steps_per_quarter=spq)
    pad = 'N.C.'
  else:
    el = c.mod('events_lib')
    ev = [c.int('e%d' % i, 0, 9) for i in range(L)]
    seq = el.SimpleEventSequence(pad_event=0, events=events_arg(ev),
                                 start_step=start, steps_per_bar=spb,
                                 steps_per_quarter=spq)
    pad = 0
  if built:
    c.check(c.And(c.eq(seq.start_step, start), c.eq(seq.end_step, start),
                  len(seq) == 0),
            'a sequence created without events is empty at its start step')
    for e in ev:
      seq.append(e)
  return seq, list(seq), start, spb, spq, pad


def _inv(c, seq, kind, label):
  evs = list(seq)
  conds = [c.eq(len(seq), seq.end_step - seq.start_step),
           len(evs) == len(seq)]
  for i, e in enumerate(evs):
    conds.append(c.eq(seq[i], e) if kind in ('melody', 'simple') else
                 seq[i] == e)
  if kind == 'melody':
    for e in evs:
      conds.append(c.And(e >= -2, e <= 127))
  c.check(c.And(conds), label + ': invariant (len == end-start, iteration, '
          'indexing and len agree, events in range)')


def _ev_eq(c, a, b):
  if isinstance(a, (frozenset, str, tuple)) or isinstance(b, (frozenset, str,
                                                              tuple)):
    return a == b
  return c.eq(a, b)


def _res_kept(c, seq, spb, spq):
  return c.And(c.eq(seq.steps_per_bar, spb), c.eq(seq.steps_per_quarter, spq))


def _sounding(c, ev):
  """A note still sounds at the end of the melody events `ev`: the last event
  that is not NO_EVENT exists and is a pitch (class docstring of Melody)."""
  r = False
  for e in ev:
    r = c.If(c.eq(e, -2), r, e >= 0)
  return r


def _clean(c, want):
  """Documented constructor behaviour of Melody: note-offs before the first
  note become no-events."""
  cleaned = list(want)
  for i, e in enumerate(want):
    if not bool(c.Or(c.eq(e, -1), c.eq(e, -2))):
      break
    cleaned[i] = -2
  return cleaned


def h_append(c):
  kind, L = c.params['kind'], c.params['L']
  seq, ev, start, spb, spq, pad = _make(c, kind, L)
  new = c.int('new', -2, 127) if kind == 'melody' else (
      c.int('new', 0, 9) if kind == 'simple' else (
          _DRUMS[1] if kind == 'drums' else 'F'))
  seq.append(new)
  _inv(c, seq, kind, 'append')
  c.check(len(seq) == L + 1, 'append: one more event')
  c.check(c.And([_ev_eq(c, a, b) for a, b in zip(list(seq), ev + [new])]),
          'append: old events kept, new one last')
  c.check(c.And(c.eq(seq.start_step, start), c.eq(seq.end_step, start + L + 1)),
          'append: start kept, end + 1')
  c.check(_res_kept(c, seq, spb, spq), 'append keeps the resolution')


def h_set_length(c):
  kind, L, left = c.params['kind'], c.params['L'], c.params['from_left']
  seq, ev, start, spb, spq, pad = _make(c, kind, L)
  n = c.int('n', 0, L + 2)
  if c.params.get('omit_kw'):
    # from_left is optional and defaults to the right side
    assert not left
    seq.set_length(n)
  else:
    seq.set_length(n, from_left=left)
  nn = c.concretize(n)
  _inv(c, seq, kind, 'set_length')
  c.check(len(seq) == nn, 'set_length(n) yields exactly n steps')
  c.check(c.eq(seq.end_step - seq.start_step, nn),
          'set_length(n): step range has n steps')
  now = list(seq)
  keep = min(nn, L)
  if left:
    c.check(c.eq(seq.end_step, start + L), 'from_left keeps the end step')
    c.check(c.And([_ev_eq(c, a, b) for a, b in zip(now[len(now) - keep:],
                                                   ev[L - keep:])] or [True]),
            'from_left keeps the events of the retained (right) side')
  else:
    c.check(c.eq(seq.start_step, start), 'set_length keeps the start step')
    c.check(c.And([_ev_eq(c, a, b) for a, b in zip(now[:keep], ev[:keep])]
                  or [True]),
            'set_length keeps the events of the retained (left) side')
  grow = nn - L
  if grow > 0:
    want_pad = [pad] * grow
    if left:
      padded = now[:grow]
    else:
      padded = now[L:]
      if kind == 'melody':
        # "ends any sustained notes and adds NO_EVENT steps for padding"
        want_pad[0] = c.If(_sounding(c, ev), -1, -2)
    c.check(len(padded) == grow and
            bool(c.And([_ev_eq(c, a, b) for a, b in zip(padded, want_pad)])),
            'set_length pads with the pad event (a melody grown on the right '
            'first ends a sustained note)')
  c.check(_res_kept(c, seq, spb, spq), 'set_length keeps the resolution')
  c.cover('set_length to zero', nn == 0)
  c.cover('set_length grows', nn > L)


def _conc_slice(c, a, b):
  return slice(None if a is None else c.concretize(a),
               None if b is None else c.concretize(b))


def h_slice(c):
  kind, L = c.params['kind'], c.params['L']
  seq, ev, start, spb, spq, pad = _make(c, kind, L)
  a = c.int('a', -5, 5) if c.params['a'] else None
  b = c.int('b', -5, 5) if c.params['b'] else None
  st = c.params.get('step')
  if st is None:
    sub = seq[a:b]
    sl = _conc_slice(c, a, b)
  else:
    # a slice with a stride: still a sequence whose range matches its length
    # and that starts at the step of its first element
    sub = seq[a:b:st]
    sl = _conc_slice(c, a, b)
    sl = slice(sl.start, sl.stop, st)
  c.check(type(sub) is type(seq), 'slice has the same class')
  _inv(c, sub, kind, 'slice')
  want = ev[sl]
  if kind == 'melody':
    # a Melody never starts with note-offs: the constructor (documented)
    # turns leading note-offs into no-events
    want = _clean(c, want)
  c.check(len(sub) == len(want) and
          bool(c.And([_ev_eq(c, x, y) for x, y in zip(list(sub), want)]
                     or [True])), 'slice holds the sliced events')
  if want:
    first = sl.indices(L)[0]
    c.check(c.eq(sub.start_step, start + first),
            'slice start_step is the step of its first element')
    c.cover('negative slice start', sl.start is not None and sl.start < 0)
  c.check(c.And(c.eq(sub.steps_per_bar, spb), c.eq(sub.steps_per_quarter, spq)),
          'slice keeps the resolution')
  _inv(c, seq, kind, 'slice leaves the original')
  c.check(len(seq) == L and
          bool(c.And([_ev_eq(c, x, y) for x, y in zip(list(seq), ev)]
                     or [True])), 'slice leaves the events of the original')
  # the slice pads with the pad event of its class
  m = len(sub)
  sub.set_length(m + 1, from_left=True)
  c.check(len(sub) == m + 1 and bool(_ev_eq(c, sub[0], pad)),
          'a slice pads with the same pad event')


def h_index(c):
  kind, L = c.params['kind'], c.params['L']
  seq, ev, start, spb, spq, pad = _make(c, kind, L)
  i = c.int('i', -L, L - 1)
  ii = c.concretize(i)
  c.check(_ev_eq(c, seq[i], ev[ii]), 'indexing agrees with iteration')


def h_resolution(c):
  kind, L = c.params['kind'], c.params['L']
  seq, ev, start, spb, spq, pad = _make(c, kind, L)
  k = c.int('k', 1, 3)
  fill = c.params.get('fill')
  if fill is not None:
    # base class with an explicit fill event
    assert kind == 'simple'
    fill = c.int('fill', 0, 9)
    seq.increase_resolution(k, fill_event=fill)
  else:
    seq.increase_resolution(k)
  kk = c.concretize(k)
  _inv(c, seq, kind, 'increase_resolution')
  c.check(len(seq) == L * kk, 'increase_resolution: k times as many events')
  c.check(c.And(c.eq(seq.start_step, start * kk),
                c.eq(seq.end_step, (start + L) * kk),
                c.eq(seq.steps_per_bar, spb * kk),
                c.eq(seq.steps_per_quarter, spq * kk)),
          'increase_resolution: steps and resolution scaled by k')
  now = list(seq)
  c.check(c.And([_ev_eq(c, now[i * kk], ev[i]) for i in range(L)] or [True]),
          'increase_resolution: every event at k times its index')
  # the k-1 cells after each event: the event repeated (base class default,
  # chords), NO_EVENT for a melody, the empty set for drums, `fill_event` if
  # given
  conds = []
  for i in range(L):
    for j in range(1, kk):
      if fill is not None:
        w = fill
      elif kind == 'melody':
        w = -2
      elif kind == 'drums':
        w = frozenset()
      else:
        w = ev[i]
      conds.append(_ev_eq(c, now[i * kk + j], w))
  c.check(c.And(conds or [True]),
          'increase_resolution: the added cells hold the documented filler')
  c.cover('increase_resolution adds cells', kk > 1 and L > 0)


def h_deepcopy(c):
  kind, L = c.params['kind'], c.params['L']
  seq, ev, start, spb, spq, pad = _make(c, kind, L)
  cp = copy.deepcopy(seq)
  _inv(c, cp, kind, 'deepcopy')
  c.check(type(cp) is type(seq) and cp is not seq, 'deepcopy: new object')
  want = ev
  if kind == 'melody' and c.params.get('built'):
    # a melody built by appending may start with note-offs; the copy goes
    # through the constructor, which (documented) turns them into no-events
    want = _clean(c, ev)
  c.check(c.And([_ev_eq(c, a, b) for a, b in zip(list(cp), want)] +
                [len(cp) == L, c.eq(cp.start_step, start),
                 c.eq(cp.end_step, start + L)]), 'deepcopy: equal content')
  c.check(_res_kept(c, cp, spb, spq), 'deepcopy keeps the resolution')
  if not c.params.get('built'):
    c.check(bool(cp == seq) and bool(seq == cp),
            'a deep copy compares equal to the original')
  # the copy pads with the pad event of the original
  cp2 = copy.deepcopy(seq)
  cp2.set_length(L + 2, from_left=True)
  c.check(len(cp2) == L + 2 and
          bool(c.And(_ev_eq(c, cp2[0], pad), _ev_eq(c, cp2[1], pad))),
          'a deep copy pads with the same pad event')
  cp.append(pad)
  cp.set_length(max(L - 1, 0))
  cp.append(pad)
  c.check(len(seq) == L, 'deepcopy: editing the copy leaves the original')
  _inv(c, seq, kind, 'original after editing its deep copy')
  c.check(c.And([_ev_eq(c, a, b) for a, b in zip(list(seq), ev)] or [True]),
          'deepcopy: editing the copy leaves the events of the original')


def h_steps(c):
  kind, L = c.params['kind'], c.params['L']
  start = c.int('start', -3, 3)
  seq, ev, start, spb, spq, pad = _make(c, kind, L, start=start)
  op = c.params.get('op', 'set_length')
  if op == 'set_length':
    n = c.int('n', 0, L + 1)
    seq.set_length(n, from_left=c.params['from_left'])
  elif op == 'append':
    seq.append(pad)
  elif op == 'resolution':
    seq.increase_resolution(c.int('k', 1, 3))
  elif op == 'slice':
    seq = seq[c.int('a', -4, 4):c.int('b', -4, 4)]
  st = seq.steps
  c.check(len(st) == len(seq), 'steps lists one step per event')
  c.check(all(bool(c.eq(s, seq.start_step + i)) for i, s in enumerate(st)),
          'steps are consecutive from start_step')


def h_defaults(c):
  """Constructors and _from_event_list with their keyword arguments omitted:
  start_step=0 and the library-wide default resolution."""
  kind, L = c.params['kind'], c.params['L']
  cons = c.mod('constants')
  dspb, dspq = cons.DEFAULT_STEPS_PER_BAR, cons.DEFAULT_STEPS_PER_QUARTER
  given = c.params['events']
  if kind == 'melody':
    cls, kw = c.mod('melodies_lib').Melody, {}
    ev = [c.int('e%d' % i, -2, 127) for i in range(L)]
    new = c.int('new', -2, 127)
  elif kind == 'drums':
    cls, kw = c.mod('drums_lib').DrumTrack, {}
    ev = [_DRUMS[i % 4] for i in range(L)]
    new = _DRUMS[1]
  elif kind == 'chords':
    cls, kw = c.mod('chords_lib').ChordProgression, {}
    ev = [_CHORDS[i % 4] for i in range(L)]
    new = 'F'
  else:
    cls, kw = c.mod('events_lib').SimpleEventSequence, {'pad_event': 0}
    ev = [c.int('e%d' % i, 0, 9) for i in range(L)]
    new = c.int('new', 0, 9)
  if given:
    seq = cls(events=list(ev), **kw)
  else:
    seq = cls(**kw)
    c.check(len(seq) == 0 and bool(c.eq(seq.end_step, 0)),
            'a sequence created without arguments is empty')
    for e in ev:
      seq.append(e)
  ev = list(seq)
  _inv(c, seq, kind, 'defaults')
  c.check(c.And(c.eq(seq.start_step, 0), c.eq(seq.end_step, L), len(seq) == L),
          'start_step defaults to 0')
  c.check(_res_kept(c, seq, dspb, dspq),
          'the resolution defaults to DEFAULT_STEPS_PER_BAR / _PER_QUARTER')
  seq.append(new)
  _inv(c, seq, kind, 'defaults, append')
  c.check(c.And(c.eq(seq.start_step, 0), c.eq(seq.end_step, L + 1),
                _ev_eq(c, seq[L], new)), 'defaults: append')
  seq.set_length(L + 3, from_left=True)
  _inv(c, seq, kind, 'defaults, set_length')
  c.check(c.And(c.eq(seq.start_step, -2), c.eq(seq.end_step, L + 1)),
          'defaults: set_length from the left moves the start step below 0')


def h_reinit(c):
  """Re-initialisation of a populated sequence: _from_event_list (with and
  without its keyword arguments) and _reset."""
  kind, L, L2 = c.params['kind'], c.params['L'], c.params['L2']
  seq, ev, start, spb, spq, pad = _make(c, kind, L)
  cons = c.mod('constants')
  dspb, dspq = cons.DEFAULT_STEPS_PER_BAR, cons.DEFAULT_STEPS_PER_QUARTER
  how = c.params['how']
  if how == 'reset':
    seq._reset()
    _inv(c, seq, kind, 'reset')
    c.check(c.And(len(seq) == 0, c.eq(seq.start_step, 0),
                  c.eq(seq.end_step, 0)), 'reset: empty sequence at step 0')
    c.check(_res_kept(c, seq, dspb, dspq), 'reset: default resolution')
    want, s2 = [], 0
  else:
    if kind == 'melody':
      ev2 = [c.int('f%d' % i, -2, 127) for i in range(L2)]
    elif kind == 'drums':
      ev2 = [_DRUMS[(i + 1) % 4] for i in range(L2)]
    elif kind == 'chords':
      ev2 = [_CHORDS[(i + 1) % 4] for i in range(L2)]
    else:
      ev2 = [c.int('f%d' % i, 0, 9) for i in range(L2)]
    arg = list(ev2)
    if how == 'kw':
      s2, b2, q2 = c.int('start2'), c.int('spb2', 1, 64), c.int('spq2', 1, 24)
      seq._from_event_list(arg, start_step=s2, steps_per_bar=b2,
                           steps_per_quarter=q2)
    else:
      s2, b2, q2 = 0, dspb, dspq
      seq._from_event_list(arg)
    _inv(c, seq, kind, 're-initialisation')
    want = _clean(c, ev2) if kind == 'melody' else ev2
    c.check(len(seq) == L2 and
            bool(c.And([_ev_eq(c, x, y) for x, y in zip(list(seq), want)]
                       or [True])),
            're-initialisation: exactly the new events')
    c.check(c.And(c.eq(seq.start_step, s2), c.eq(seq.end_step, s2 + L2)),
            're-initialisation: the step range is that of the new events')
    c.check(_res_kept(c, seq, b2, q2),
            're-initialisation: resolution as given / default')
  # and the object keeps working: one more edit from the new state
  seq.set_length(len(want) + 1, from_left=True)
  _inv(c, seq, kind, 're-initialisation, then set_length')
  c.check(c.And(len(seq) == len(want) + 1, c.eq(seq.end_step, s2 + len(want)),
                c.eq(seq.start_step, s2 - 1), _ev_eq(c, seq[0], pad)),
          're-initialisation, then set_length from the left')


def h_reject(c):
  """Invalid events are rejected by append, by the constructor and by
  _from_event_list, and a rejected append leaves the sequence as it was."""
  kind, L = c.params['kind'], c.params['L']
  seq, ev, start, spb, spq, pad = _make(c, kind, L)
  if kind == 'melody':
    bad = c.int('bad', -40, 170)
    c.assume(c.Or(bad < -2, bad > 127))
    cls = c.mod('melodies_lib').Melody
    ok = [c.choice('okv', [-2, -1, 0, 127])]
  else:
    bad = c.choice('bad', [frozenset([-1]), frozenset([36, 128]), (36,), 36,
                           set([36])])
    cls = c.mod('drums_lib').DrumTrack
    ok = [c.choice('okv', [frozenset([0]), frozenset([127, 0]), frozenset()])]
  res, err = c.raises(seq.append, bad)
  c.check(isinstance(err, ValueError), 'append rejects an invalid event')
  _inv(c, seq, kind, 'rejected append')
  c.check(c.And([len(seq) == L, c.eq(seq.start_step, start),
                 c.eq(seq.end_step, start + L)] +
                [_ev_eq(c, x, y) for x, y in zip(list(seq), ev)]),
          'a rejected append leaves the sequence as it was')
  pos = c.concretize(c.int('pos', 0, L))
  lst = list(ev)
  lst.insert(pos, bad)
  res, err = c.raises(cls, lst, start_step=start, steps_per_bar=spb,
                      steps_per_quarter=spq)
  c.check(isinstance(err, ValueError),
          'the constructor rejects an invalid event at any position')
  res, err = c.raises(seq._from_event_list, lst)
  c.check(isinstance(err, ValueError),
          '_from_event_list rejects an invalid event at any position')
  # the boundary values are valid events
  res, err = c.raises(seq.append, ok[0])
  c.check(err is None and len(seq) == L + 1 and
          bool(_ev_eq(c, seq[L], ok[0])), 'boundary events are accepted')
  res, err = c.raises(cls, list(ev) + ok)
  c.check(err is None and len(res) == L + 1,
          'the constructor accepts boundary events')


def h_leadsheet(c):
  ls = c.mod('lead_sheets_lib')
  ml = c.mod('melodies_lib')
  cl = c.mod('chords_lib')
  L = c.params['L']
  op = c.params['op']
  start = c.int('start', -3, 3) if op == 'steps' else c.int('start')
  spb = c.int('spb', 1, 64)
  spq = c.int('spq', 1, 24)
  ev = [c.int('e%d' % i, -2, 127) for i in range(L)]
  ch = [_CHORDS[i % 4] for i in range(L)]
  sheet = ls.LeadSheet(
      ml.Melody(list(ev), start_step=start, steps_per_bar=spb,
                steps_per_quarter=spq),
      cl.ChordProgression(list(ch), start_step=start, steps_per_bar=spb,
                          steps_per_quarter=spq))
  ev = list(sheet.melody)
  rs = [spb, spq]  # the resolution the sheet must report

  def inv(label):
    c.check(c.And(c.eq(sheet.steps_per_bar, rs[0]),
                  c.eq(sheet.steps_per_quarter, rs[1]),
                  _res_kept(c, sheet.melody, rs[0], rs[1]),
                  _res_kept(c, sheet.chords, rs[0], rs[1])),
            label + ': lead sheet, melody and chords report the resolution')
    c.check(c.And(c.eq(len(sheet), sheet.end_step - sheet.start_step),
                  len(sheet.melody) == len(sheet.chords) == len(sheet),
                  c.eq(sheet.melody.start_step, sheet.chords.start_step),
                  c.eq(sheet.melody.end_step, sheet.chords.end_step)),
            label + ': lead sheet invariant (melody and chords aligned)')
    pairs = list(sheet)
    c.check(len(pairs) == len(sheet), label + ': iteration agrees with len')
    for i, (m, x) in enumerate(pairs):
      mi, xi = sheet[i]
      c.check(c.And(c.eq(m, mi), x == xi, c.eq(m, sheet.melody[i])),
              label + ': iteration agrees with indexing')
      mn, xn = sheet[i - len(pairs)]
      c.check(c.And(c.eq(m, mn), x == xn),
              label + ': a negative index counts from the end')

  inv('initial')
  if op == 'append':
    # an out-of-range melody event is rejected and must leave nothing behind
    bad = c.choice('bad', [128, -3])
    res, err = c.raises(sheet.append, (bad, 'Am'))
    c.check(isinstance(err, ValueError), 'invalid melody event rejected')
    c.check(len(sheet) == L, 'a rejected append adds nothing')
    inv('after a rejected append')
    new = c.int('new', -2, 127)
    sheet.append((new, 'F'))
    c.check(len(sheet) == L + 1, 'append: one more event')
    inv('append')
    c.check(sheet[L][1] == 'F', 'the appended chord is the one supplied')
    c.check(c.eq(sheet[L][0], new),
            'the appended melody event is the one supplied')
    c.check(c.And([c.eq(a, b) for a, b in zip(list(sheet.melody)[:L], ev)] +
                  [list(sheet.chords)[:L] == ch] +
                  [c.eq(sheet.start_step, start),
                   c.eq(sheet.end_step, start + L + 1)]),
            'append: old events kept, start kept, end + 1')
  elif op == 'set_length':
    n = c.int('n', 0, L + 2)
    sheet.set_length(n)
    c.check(len(sheet) == c.concretize(n), 'set_length(n) yields n steps')
    keep = min(c.concretize(n), L)
    c.check(c.And([c.eq(a, b) for a, b in zip(list(sheet.melody)[:keep],
                                             ev[:keep])] or [True]),
            'set_length keeps the retained melody events')
    nn = c.concretize(n)
    c.check(list(sheet.chords)[:keep] == ch[:keep],
            'set_length keeps the retained chords')
    c.check(c.And(c.eq(sheet.start_step, start),
                  c.eq(sheet.end_step, start + nn)),
            'set_length keeps the start step')
    if nn > L:
      # chords are padded with NO_CHORD, the melody as Melody.set_length
      # documents (end a sustained note, then NO_EVENT)
      wm = [c.If(_sounding(c, ev), -1, -2)] + [-2] * (nn - L - 1)
      c.check(c.And([c.eq(a, b) for a, b in zip(list(sheet.melody)[L:], wm)] +
                    [list(sheet.chords)[L:] == ['N.C.'] * (nn - L)]),
              'set_length pads the chords with NO_CHORD and the melody with '
              'NO_EVENT after ending a sustained note')
    inv('set_length')
  elif op == 'resolution':
    k = c.int('k', 1, 3)
    sheet.increase_resolution(k)
    kk = c.concretize(k)
    c.check(len(sheet) == L * kk, 'increase_resolution')
    rs[0], rs[1] = spb * kk, spq * kk
    inv('increase_resolution')
    c.check(c.And(c.eq(sheet.start_step, start * kk),
                  c.eq(sheet.end_step, (start + L) * kk)),
            'increase_resolution scales the step range')
    # "uses MELODY_NO_EVENT to extend each event in the melody, and simply
    # repeats each chord event k times"
    wm, wc = [], []
    for i in range(L):
      wm += [ev[i]] + [-2] * (kk - 1)
      wc += [ch[i]] * kk
    c.check(c.And([c.eq(a, b) for a, b in zip(list(sheet.melody), wm)] +
                  [list(sheet.chords) == wc]),
            'increase_resolution: melody events extended with NO_EVENT, chords '
            'repeated')
  elif op == 'deepcopy':
    cp = copy.deepcopy(sheet)
    c.check(cp == sheet and cp is not sheet, 'deepcopy equal')
    c.check(c.And([c.eq(cp.start_step, start), c.eq(cp.end_step, start + L),
                   c.eq(cp.steps_per_bar, spb),
                   c.eq(cp.steps_per_quarter, spq), len(cp) == L,
                   cp.melody is not sheet.melody,
                   cp.chords is not sheet.chords] +
                  [c.And(c.eq(m, e), x == y)
                   for (m, x), e, y in zip(list(cp), ev, ch)]),
            'deepcopy: same events, step range and resolution')
    # edit the copy both ways, then re-examine the ORIGINAL
    cp.append((60, 'C'))
    cp.set_length(max(L - 1, 0))
    cp.append((62, 'F'))
    c.check(len(sheet) == L, 'deepcopy independent')
    inv('after editing a deep copy')
    c.check(c.And([c.eq(a, b) for a, b in zip(list(sheet.melody), ev)] or
                  [True]) and list(sheet.chords) == ch,
            'editing a deep copy leaves the events of the original')
  elif op == 'steps':
    c.check(len(sheet.steps) == len(sheet), 'steps lists one step per event')
    c.check(all(bool(c.eq(s, start + i)) for i, s in enumerate(sheet.steps)),
            'steps are consecutive from start_step')
  elif op == 'slice':
    a = c.int('a', -3, 3)
    if c.params.get('b'):
      b = c.int('b', -3, 3)
      part = sheet[a:b] if c.params['b'] == 'ab' else sheet[:b]
      sl = (slice(c.concretize(a), c.concretize(b)) if c.params['b'] == 'ab'
            else slice(None, c.concretize(b)))
    else:
      part = sheet[a:]
      sl = slice(c.concretize(a), None)
    mel, chd = (part.melody, part.chords) if hasattr(part, 'melody') else part
    want = ev[sl]
    c.check(len(mel) == len(want) == len(chd), 'slice lengths')
    c.check(c.And([c.eq(x, y) for x, y in zip(list(mel), _clean(c, want))] +
                  [list(chd) == ch[sl]]),
            'slice holds the sliced melody events and chords')
    c.check(c.And(_res_kept(c, mel, spb, spq), _res_kept(c, chd, spb, spq),
                  c.eq(len(mel), mel.end_step - mel.start_step),
                  c.eq(len(chd), chd.end_step - chd.start_step)),
            'slice keeps the resolution; its parts span their length')
    if want:
      first = sl.indices(L)[0]
      c.check(c.And(c.eq(mel.start_step, start + first),
                    c.eq(chd.start_step, start + first)),
              'slice carries the step offset of its first element')


def h_leadsheet_ctor(c):
  """LeadSheet(): the empty sheet; melody and chords that differ in length,
  resolution or position (or only one of them) are refused."""
  ls = c.mod('lead_sheets_lib')
  ml = c.mod('melodies_lib')
  cl = c.mod('chords_lib')
  cons = c.mod('constants')
  case = c.params['case']
  if case == 'empty':
    sheet = ls.LeadSheet()
    c.check(c.And(len(sheet) == 0, c.eq(sheet.start_step, sheet.end_step),
                  len(list(sheet)) == 0, len(sheet.steps) == 0,
                  len(sheet.melody) == 0, len(sheet.chords) == 0),
            'LeadSheet() is empty')
    c.check(c.And(c.eq(sheet.steps_per_bar, sheet.chords.steps_per_bar),
                  c.eq(sheet.steps_per_quarter,
                       sheet.chords.steps_per_quarter),
                  c.eq(sheet.melody.start_step, sheet.chords.start_step)),
            'LeadSheet(): melody and chords agree')
    s0 = sheet.start_step
    new = c.int('new', -2, 127)
    sheet.append((new, 'C'))
    sheet.set_length(3)
    c.check(c.And(len(sheet) == 3, c.eq(sheet.end_step - sheet.start_step, 3),
                  c.eq(sheet.start_step, s0),
                  len(sheet.melody) == 3, len(sheet.chords) == 3,
                  c.eq(sheet.melody.end_step, sheet.chords.end_step),
                  c.eq(sheet[0][0], new), sheet[0][1] == 'C',
                  len(list(sheet)) == 3),
            'LeadSheet(): append and set_length keep melody and chords aligned')
    return
  L = 2
  start = c.int('start')
  spb = c.int('spb', 1, 64)
  spq = c.int('spq', 1, 24)
  mel = ml.Melody([c.int('e%d' % i, -2, 127) for i in range(L)],
                  start_step=start, steps_per_bar=spb, steps_per_quarter=spq)
  if case == 'one':
    chd = cl.ChordProgression(_CHORDS[:L], start_step=start, steps_per_bar=spb,
                              steps_per_quarter=spq)
    which = c.choice('which', ['melody', 'chords'])
    res, err = c.raises(ls.LeadSheet, **({'melody': mel} if which == 'melody'
                                         else {'chords': chd}))
    c.check(isinstance(err, ls.MelodyChordsMismatchError),
            'only one of melody and chords is refused')
    return
  d = c.int('d', -3, 3)
  c.assume(d != 0)
  Lc, s2, b2, q2 = L, start, spb, spq
  if case == 'len':
    Lc = c.choice('Lc', [0, 1, 3])
  elif case == 'start':
    s2 = start + d
  elif case == 'spb':
    b2 = spb + d
  elif case == 'spq':
    q2 = spq + d
  chd = cl.ChordProgression([_CHORDS[i % 4] for i in range(Lc)], start_step=s2,
                            steps_per_bar=b2, steps_per_quarter=q2)
  res, err = c.raises(ls.LeadSheet, mel, chd)
  c.check(isinstance(err, ls.MelodyChordsMismatchError),
          'melody and chords that differ in length, resolution or position '
          'are refused')


def h_pianoroll(c):
  pr = c.mod('pianoroll_lib')
  L = c.params['L']
  op = c.params['op']
  start = c.int('start', -3, 3) if op == 'steps' else c.int('start')
  evs = [(0,), (), (1, 2), (3,)][:L]
  spq = c.int('spq', 1, 24)
  sr = c.params.get('shift_range', False)

  def teq(a, b):
    return (isinstance(a, tuple) and len(a) == len(b) and
            bool(c.And([c.eq(x, y) for x, y in zip(a, b)] or [True])))

  if op == 'defaults':
    # no event list, start_step omitted
    start = 0
    evs = []
    seq = pr.PianorollSequence(steps_per_quarter=spq)
  elif sr:
    # events in the full pitch range, filtered to [lo, hi] and shifted by lo
    lo, hi = c.int('lo', 0, 5), c.int('hi', 0, 5)
    raw = [(c.int('p0', 0, 6),), (), (c.int('p1', 0, 6), c.int('p2', 0, 6)),
           (3,)][:L]

    def shifted(e):
      return tuple(p - lo for p in e if bool(c.And(lo <= p, p <= hi)))

    evs = [shifted(e) for e in raw]
    seq = pr.PianorollSequence(events_list=list(raw), steps_per_quarter=spq,
                               start_step=start, min_pitch=lo, max_pitch=hi,
                               shift_range=True)
    c.check(len(seq) == L and all(teq(x, y) for x, y in zip(list(seq), evs)),
            'shift_range: events filtered to the pitch window and shifted by '
            'min_pitch')
    c.cover('shift_range drops a pitch', L > 0 and len(evs[0]) == 0)
  else:
    seq = pr.PianorollSequence(events_list=list(evs), steps_per_quarter=spq,
                               start_step=start)

  def inv(label):
    c.check(c.And(c.eq(seq.end_step - seq.start_step, len(seq)),
                  seq.num_steps == len(seq), len(list(seq)) == len(seq),
                  c.eq(seq.start_step, start)),
            label + ': invariant (len == end-start == num_steps)')
    c.check(c.eq(seq.steps_per_quarter, spq),
            label + ': steps_per_quarter as constructed')
    lst = list(seq)
    for i, e in enumerate(lst):
      c.check(seq[i] == e, label + ': indexing agrees with iteration')
      c.check(seq[i - len(lst)] == e,
              label + ': a negative index counts from the end')

  inv('initial')
  if op == 'defaults':
    c.check(c.And(len(seq) == 0, c.eq(seq.start_step, 0),
                  c.eq(seq.end_step, 0), len(seq.steps) == 0),
            'a pianoroll without events is empty at step 0')
    seq.append((5,))
    seq.set_length(3)
    c.check(c.And(len(seq) == 3, c.eq(seq.end_step, 3),
                  seq.steps == [0, 1, 2]) and
            list(seq) == [(5,), (), ()], 'defaults: append and set_length')
    inv('defaults')
  elif op == 'append' and sr:
    q = (c.int('q0', 0, 6), c.int('q1', 0, 6))
    seq.append(q, shift_range=True)
    c.check(len(seq) == L + 1 and teq(seq[L], shifted(q)),
            'append(shift_range=True) filters and shifts the event')
    seq.append(q)
    c.check(len(seq) == L + 2 and teq(seq[L + 1], q),
            'append without shift_range stores the event as given')
    c.check(all(teq(x, y) for x, y in zip(list(seq)[:L], evs)),
            'append keeps the old events')
    inv('append')
  elif op == 'append':
    seq.append((5,))
    c.check(len(seq) == L + 1 and seq[L] == (5,), 'append')
    c.check(list(seq)[:L] == list(evs), 'append keeps the old events')
    inv('append')
  elif op == 'from_left':
    # from_left is not supported: either refused (NotImplementedError, nothing
    # changed) or done properly - never a silent edit of the wrong side
    n = c.int('n', 0, L + 2)
    res, err = c.raises(seq.set_length, n, from_left=True)
    nn = c.concretize(n)
    if err is not None:
      c.check(isinstance(err, NotImplementedError) and list(seq) == list(evs),
              'set_length(from_left=True) is refused and changes nothing')
    else:
      keep = min(nn, L)
      c.check(len(seq) == nn and
              list(seq)[nn - keep:] == list(evs)[L - keep:],
              'set_length(from_left=True) keeps the right side')
  elif op == 'set_length':
    n = c.int('n', 0, L + 2)
    seq.set_length(n)
    nn = c.concretize(n)
    c.check(len(seq) == nn, 'set_length(n) yields n steps')
    c.check(list(seq)[:min(nn, L)] == list(evs)[:min(nn, L)],
            'set_length keeps the retained events')
    c.check(all(e == () for e in list(seq)[L:]), 'padding is silence')
    inv('set_length')
  elif op == 'steps':
    c.check(len(seq.steps) == len(seq), 'steps lists one step per event')
    c.check(all(bool(c.eq(s, start + i)) for i, s in enumerate(seq.steps)),
            'steps are consecutive from start_step')
  elif op == 'deepcopy':
    cp = copy.deepcopy(seq)
    before = list(seq)
    c.check(c.And(cp is not seq, len(cp) == L, list(cp) == before,
                  c.eq(cp.start_step, start), c.eq(cp.end_step, start + L),
                  c.eq(cp.steps_per_quarter, spq), cp.num_steps == L),
            'deepcopy: same events, step range and resolution')
    cp.append(())
    cp.set_length(max(L - 1, 0))
    cp.append((60,))
    c.check(len(seq) == L and list(seq) == before, 'deepcopy independent')


def _mk_perf(c, L, metric):
  pl = c.mod('performance_lib')
  PE = pl.PerformanceEvent
  ms = c.int('ms', 1, 1000)
  start = c.int('start')
  # what the accessors of the performance must report
  at = c.perf_attrs = {'ms': ms, 'program': None, 'is_drum': None}
  kw = {}
  if c.params.get('attrs'):
    # program / is_drum given: stored, and untouched by any edit
    at['program'] = kw['program'] = c.int('prog', 0, 127)
    at['is_drum'] = kw['is_drum'] = c.bool('drum')
  how = c.params.get('how')
  if metric:
    # MetricPerformance derives its shift limit from steps_per_quarter
    spq = at['spq'] = c.int('spq', 1, 24)
    if how == 'defaults':
      # start_step, max_shift_quarters (and the velocity bins) omitted
      perf = pl.MetricPerformance(steps_per_quarter=spq, **kw)
      c.assume(c.eq(start, 0))
      c.assume(c.eq(ms, pl.DEFAULT_MAX_SHIFT_QUARTERS * spq))
    elif how == 'msq':
      # a limit other than the default number of quarters
      msq = c.int('msq', 1, 8)
      perf = pl.MetricPerformance(steps_per_quarter=spq, start_step=start,
                                  num_velocity_bins=8, max_shift_quarters=msq,
                                  **kw)
      c.assume(c.eq(ms, msq * spq))
      c.cover('shift limit other than 4 quarters', c.Not(c.eq(msq, 4)))
    else:
      perf = pl.MetricPerformance(steps_per_quarter=spq, start_step=start,
                                  num_velocity_bins=8, max_shift_quarters=4,
                                  **kw)
      c.assume(c.eq(ms, 4 * spq))
  elif how == 'defaults':
    # start_step and max_shift_steps (and the velocity bins) omitted
    at['sps'] = sps = c.int('sps', 1, 200)
    perf = pl.Performance(steps_per_second=sps, **kw)
    c.assume(c.eq(start, 0))
    c.assume(c.eq(ms, pl.DEFAULT_MAX_SHIFT_STEPS))
  else:
    at['sps'] = 100
    perf = pl.Performance(steps_per_second=100, start_step=start,
                          num_velocity_bins=8, max_shift_steps=ms, **kw)
  evs = []
  for i in range(L):
    ty = c.params['types'][i]
    if ty == PE.TIME_SHIFT:
      v = c.int('v%d' % i, 0, 3000)
    elif ty == PE.VELOCITY:
      v = c.int('v%d' % i, 1, 8)
    else:
      v = c.int('v%d' % i, 0, 127)
    e = PE(ty, v)
    perf.append(e)
    evs.append((ty, v))
  return pl, PE, perf, evs, ms, start


def _same(c, got, want):
  if want is None or got is None:
    return got is None and want is None
  return c.eq(got, want)


def _perf_inv(c, PE, perf, start, label):
  evs = list(perf)
  total = c.Sum([e.event_value for e in evs if e.event_type == PE.TIME_SHIFT])
  c.check(c.And(c.eq(perf.num_steps, total),
                c.eq(perf.end_step - perf.start_step, total),
                c.eq(perf.start_step, start), len(evs) == len(perf)),
          label + ': invariant (num_steps == sum of shifts == end-start)')
  at = getattr(c, 'perf_attrs', None)
  if at is not None:
    c.check(c.And(c.eq(perf.max_shift_steps, at['ms']),
                  (c.eq(perf.steps_per_quarter, at['spq']) if 'spq' in at else
                   c.eq(perf.steps_per_second, at['sps'])),
                  _same(c, perf.program, at['program']),
                  _same(c, perf.is_drum, at['is_drum'])),
            label + ': shift limit, resolution, program and drum flag as '
            'constructed')
  st = perf.steps
  c.check(len(st) == len(evs), label + ': steps has one entry per event')
  conds = []
  acc = start
  for i, e in enumerate(evs):
    conds.append(c.eq(st[i], acc))
    conds.append(c.eq(perf[i].event_value, e.event_value))
    conds.append(c.eq(perf[i].event_type, e.event_type))
    conds.append(c.eq(perf[i - len(evs)].event_value, e.event_value))
    conds.append(c.eq(perf[i - len(evs)].event_type, e.event_type))
    if e.event_type == PE.TIME_SHIFT:
      acc = acc + e.event_value
  c.check(c.And(conds or [True]),
          label + ': steps = running sum of shifts; indexing agrees')


def h_perf_set_length(c):
  L = c.params['L']
  pl, PE, perf, evs, ms, start = _mk_perf(c, L, c.params.get('metric', False))
  _perf_inv(c, PE, perf, start, 'initial')
  cur = perf.num_steps
  n = c.int('n', 0, 10000)
  c.assume(n <= cur + 3 * ms)
  if c.params.get('from_left'):
    # from_left is not supported: either refused (NotImplementedError, nothing
    # changed) or n steps with the start of the performance given up - never a
    # silent edit of the right side
    res, err = c.raises(perf.set_length, n, from_left=True)
    now = list(perf)
    if err is not None:
      c.check(isinstance(err, NotImplementedError) and len(now) == L and
              bool(c.And([c.And(c.eq(e.event_type, t), c.eq(e.event_value, v))
                          for e, (t, v) in zip(now, evs)] or [True])),
              'set_length(from_left=True) is refused and changes nothing')
      _perf_inv(c, PE, perf, start, 'refused set_length')
    else:
      c.check(c.And(c.eq(perf.num_steps, n),
                    c.eq(perf.end_step, start + cur)),
              'set_length(from_left=True) keeps the end step')
    return
  perf.set_length(n)
  _perf_inv(c, PE, perf, start, 'set_length')
  c.check(c.eq(perf.num_steps, n), 'set_length(n) yields exactly n steps')
  now = list(perf)
  grow = n >= cur
  if bool(grow):
    # old events kept (the last shift may have been lengthened), every new
    # shift within 1..max_shift_steps
    c.check(len(now) >= L, 'growing never drops events')
    for i in range(L):
      same = c.And(c.eq(now[i].event_type, evs[i][0]),
                   c.eq(now[i].event_value, evs[i][1]))
      if i == L - 1 and evs[i][0] == PE.TIME_SHIFT:
        same = c.And(c.eq(now[i].event_type, PE.TIME_SHIFT),
                     now[i].event_value >= evs[i][1],
                     c.Or(c.eq(now[i].event_value, evs[i][1]),
                          now[i].event_value <= ms))
      c.check(same, 'growing keeps the existing events')
    for e in now[L:]:
      c.check(c.And(c.eq(e.event_type, PE.TIME_SHIFT), e.event_value >= 1,
                    e.event_value <= ms),
              'every appended shift lies in 1..max_shift_steps')
    c.cover('grows by more than one maximal shift', n > cur + ms)
  else:
    c.check(len(now) <= L, 'shrinking never adds events')
    for i in range(len(now)):
      same = c.And(c.eq(now[i].event_type, evs[i][0]),
                   c.eq(now[i].event_value, evs[i][1]))
      if i == len(now) - 1 and evs[i][0] == PE.TIME_SHIFT:
        same = c.And(c.eq(now[i].event_type, PE.TIME_SHIFT),
                     now[i].event_value <= evs[i][1])
      c.check(same, 'shrinking keeps a prefix of the events')
    c.cover('shrinks')


def h_perf_edit(c):
  L = c.params['L']
  pl, PE, perf, evs, ms, start = _mk_perf(c, L, c.params.get('metric', False))
  op = c.params['op']
  if op == 'append':
    e = PE(PE.TIME_SHIFT, c.int('new', 0, 3000))
    perf.append(e)
    c.check(len(perf) == L + 1, 'append: one more event')
    _perf_inv(c, PE, perf, start, 'append')
    res, err = c.raises(perf.append, 5)
    c.check(err is not None and isinstance(err, ValueError),
            'append rejects a non-event')
  elif op == 'truncate':
    n = c.int('n', 0, L + 1)
    perf.truncate(n)
    nn = c.concretize(n)
    c.check(len(perf) == min(nn, L), 'truncate keeps the first n events')
    _perf_inv(c, PE, perf, start, 'truncate')
    for i, e in enumerate(list(perf)):
      c.check(c.eq(e.event_value, evs[i][1]), 'truncate keeps a prefix')
      c.check(c.eq(e.event_type, evs[i][0]),
              'truncate keeps a prefix (event types too)')
  elif op == 'deepcopy':
    cp = copy.deepcopy(perf)
    c.check(cp is not perf and type(cp) is type(perf) and len(cp) == L and
            bool(c.And([c.And(c.eq(e.event_type, t), c.eq(e.event_value, v))
                        for e, (t, v) in zip(list(cp), evs)] or [True])),
            'deepcopy: same events')
    _perf_inv(c, PE, cp, start, 'the deep copy')
    cp.append(PE(PE.TIME_SHIFT, 1))
    cp.truncate(max(L - 1, 0))
    cp.append(PE(PE.NOTE_ON, 60))
    c.check(len(perf) == L, 'deepcopy independent')
    _perf_inv(c, PE, perf, start, 'deepcopy')


def h_note_perf(c):
  """NotePerformance: events are (TIME_SHIFT, NOTE_ON, VELOCITY, DURATION)
  tuples; each event sits at the running sum of the shifts up to and including
  its own."""
  pl = c.mod('performance_lib')
  PE = pl.PerformanceEvent
  L, op = c.params['L'], c.params['op']
  start = c.int('start')
  ns = c.pb.NoteSequence()
  ns.quantization_info.steps_per_second = 100
  perf = pl.NotePerformance(ns, num_velocity_bins=8, instrument=0,
                            start_step=start)
  c.check(c.And(len(perf) == 0, c.eq(perf.start_step, start),
                c.eq(perf.end_step, start), c.eq(perf.num_steps, 0),
                len(perf.steps) == 0),
          'a NotePerformance of an empty sequence is empty at its start step')

  def mk(i):
    return (PE(PE.TIME_SHIFT, c.int('s%d' % i, 0, 1000)),
            PE(PE.NOTE_ON, c.int('p%d' % i, 0, 127)),
            PE(PE.VELOCITY, c.int('v%d' % i, 1, 8)),
            PE(PE.DURATION, c.int('d%d' % i, 1, 1000)))

  evs = [mk(i) for i in range(L)]
  for e in evs:
    perf.append(e)

  def inv(label, want):
    lst = list(perf)
    c.check(len(lst) == len(perf) == len(want) and
            all(perf[i] is lst[i] and perf[i - len(lst)] is lst[i]
                for i in range(len(lst))),
            label + ': iteration, indexing and len agree')
    c.check(c.And([c.eq(x.event_value, y.event_value)
                   for a, b in zip(lst, want) for x, y in zip(a, b)] +
                  [len(a) == 4 for a in lst]),
            label + ': holds exactly the expected event tuples')
    c.check(c.And(c.eq(perf.start_step, start),
                  c.eq(perf.end_step - perf.start_step, perf.num_steps)),
            label + ': num_steps == end_step - start_step')
    st = perf.steps
    c.check(len(st) == len(lst), label + ': steps has one entry per event')
    acc, conds = start, []
    for i, e in enumerate(want):
      acc = acc + e[0].event_value
      conds += [c.eq(st[i], acc), st[i] >= perf.start_step,
                st[i] <= perf.end_step]
    c.check(c.And(conds or [True]),
            label + ': each event sits at the running sum of the shifts, '
            'inside start_step..end_step')

  inv('built by append', evs)
  if op == 'append':
    bad = c.choice('bad', [PE(PE.NOTE_ON, 60), [1, 2, 3, 4], 5])
    res, err = c.raises(perf.append, bad)
    c.check(isinstance(err, ValueError), 'append rejects a non-tuple')
    inv('rejected append', evs)
  elif op == 'truncate':
    n = c.int('n', 0, L + 1)
    perf.truncate(n)
    nn = c.concretize(n)
    c.check(len(perf) == min(nn, L), 'truncate keeps the first n events')
    inv('truncate', evs[:nn])
  elif op == 'deepcopy':
    cp = copy.deepcopy(perf)
    c.check(cp is not perf and len(cp) == L and
            bool(c.And(c.eq(cp.start_step, start),
                       c.eq(cp.num_steps, perf.num_steps))),
            'deepcopy: same length and step range')
    cp.append(mk(9))
    cp.truncate(max(L - 1, 0))
    cp.append(mk(8))
    inv('after editing a deep copy', evs)


HARNESSES = {
    'h_append': h_append,
    'h_set_length': h_set_length,
    'h_slice': h_slice,
    'h_index': h_index,
    'h_resolution': h_resolution,
    'h_deepcopy': h_deepcopy,
    'h_steps': h_steps,
    'h_defaults': h_defaults,
    'h_reinit': h_reinit,
    'h_reject': h_reject,
    'h_leadsheet': h_leadsheet,
    'h_leadsheet_ctor': h_leadsheet_ctor,
    'h_pianoroll': h_pianoroll,
    'h_perf_set_length': h_perf_set_length,
    'h_perf_edit': h_perf_edit,
    'h_note_perf': h_note_perf,
}


def jobs(tier):
  import itertools  # pylint: disable=g-import-not-at-top
  J = []

  def add(h, budget=200, required=True, **params):
    J.append({'harness': h, 'params': params, 'budget_s': budget,
              'required': required})

  deep = tier == 'thorough'
  Ls = (0, 1, 3) if not deep else (0, 1, 2, 3, 4)
  for kind in ('simple', 'melody', 'drums', 'chords'):
    for L in Ls:
      add('h_append', kind=kind, L=L)
      for left in (False, True):
        add('h_set_length', kind=kind, L=L, from_left=left)
      add('h_resolution', kind=kind, L=L)
      add('h_deepcopy', kind=kind, L=L)
      if L:
        add('h_index', kind=kind, L=L)
    for L in (Ls[-1],) if not deep else (2, 4):
      for a, b in itertools.product((False, True), repeat=2):
        add('h_slice', kind=kind, L=L, a=a, b=b, budget=600)
      for left in (False, True):
        add('h_steps', kind=kind, L=L, from_left=left)
    # states built by appending to an empty sequence created at start_step
    for L in (0, 2):
      add('h_append', kind=kind, L=L, built=True)
      add('h_set_length', kind=kind, L=L, from_left=True, built=True)
      add('h_steps', kind=kind, L=L, from_left=False, built=True)
    # ... which for a melody includes states starting with a note-off
    add('h_set_length', kind=kind, L=2, from_left=False, built=True)
    add('h_deepcopy', kind=kind, L=2, built=True)
    add('h_slice', kind=kind, L=2, a=True, b=True, built=True, budget=600)
    add('h_resolution', kind=kind, L=2, built=True)
    # from_left omitted; L=2 grid point for the padding rule
    add('h_set_length', kind=kind, L=Ls[-1], from_left=False, omit_kw=True)
    if not deep:
      add('h_set_length', kind=kind, L=2, from_left=False)
    # strided slices
    for st in (2, -1):
      add('h_slice', kind=kind, L=3, a=True, b=True, step=st, budget=600)
    # steps after the other edits
    for op in ('append', 'resolution', 'slice'):
      add('h_steps', kind=kind, L=2, from_left=False, op=op)
    # omitted keyword arguments, re-initialisation
    for given in (False, True):
      add('h_defaults', kind=kind, L=2, events=given)
    add('h_reinit', kind=kind, L=2, L2=0, how='reset')
    for L2 in (0, 3):
      add('h_reinit', kind=kind, L=2, L2=L2, how='kw')
      add('h_reinit', kind=kind, L=1, L2=L2, how='default')
    if kind in ('melody', 'drums'):
      for L in (0, 2):
        add('h_reject', kind=kind, L=L)
  add('h_resolution', kind='simple', L=2, fill=True)
  for op in ('append', 'set_length', 'resolution', 'deepcopy', 'steps',
             'slice'):
    for L in (0, 2) if not deep else (0, 1, 2, 3):
      add('h_leadsheet', op=op, L=L)
  for b in ('ab', 'b'):
    for L in (2,) if not deep else (2, 3):
      add('h_leadsheet', op='slice', L=L, b=b)
  for case in ('empty', 'one', 'len', 'start', 'spb', 'spq'):
    add('h_leadsheet_ctor', case=case)
  for op in ('append', 'set_length', 'steps', 'deepcopy'):
    for L in (0, 2) if not deep else (0, 1, 2, 4):
      add('h_pianoroll', op=op, L=L)
  add('h_pianoroll', op='defaults', L=0)
  for L in (0, 2):
    add('h_pianoroll', op='from_left', L=L)
  for op in ('append', 'set_length'):
    add('h_pianoroll', op=op, L=1 if not deep else 3, shift_range=True)
  # performances: event kinds are concrete per job, values symbolic
  combos = [[], [3], [1], [1, 3], [3, 3], [3, 2], [3, 3, 3], [3, 1, 3]]
  if deep:
    combos += [list(t) for t in itertools.product([1, 3, 4], repeat=3)]
  for types in combos:
    add('h_perf_set_length', L=len(types), types=types, budget=900)
    for op in ('append', 'truncate', 'deepcopy'):
      add('h_perf_edit', L=len(types), types=types, op=op)
  add('h_perf_set_length', L=2, types=[1, 3], metric=True, budget=900)
  # velocity events in the pre-state
  for types in ([4, 3], [3, 4]) if not deep else ():
    add('h_perf_set_length', L=2, types=types, budget=900)
    add('h_perf_edit', L=2, types=types, op='truncate')
  # keyword arguments: omitted (defaults in force), non-default quarters,
  # program / is_drum; MetricPerformance under every edit; from_left
  for metric in (False, True):
    for types in ([], [1, 3], [3, 2]):
      add('h_perf_set_length', L=len(types), types=types, metric=metric,
          how='defaults', attrs=True, budget=900)
      add('h_perf_set_length', L=len(types), types=types, metric=metric,
          from_left=True, budget=900)
    for op in ('append', 'truncate', 'deepcopy'):
      add('h_perf_edit', L=2, types=[3, 1], op=op, metric=metric,
          how='defaults', attrs=True)
      add('h_perf_edit', L=2, types=[3, 1], op=op, metric=True,
          how='msq' if metric else None)
  for types in ([], [1, 3], [3, 3]):
    add('h_perf_set_length', L=len(types), types=types, metric=True,
        how='msq', budget=900)
  for op in ('append', 'truncate', 'deepcopy'):
    for L in (0, 2) if not deep else (0, 1, 2, 3):
      add('h_note_perf', op=op, L=L)
  return J
