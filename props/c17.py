"""C17 -- event sequences keep length, step range and indexing consistent under
any edits (one inductive step from an arbitrary valid state)."""
import copy

META = {
    'level': 'model_checking',
    'level_text':
        'Inductive step instead of history enumeration: the pre-state is an '
        'arbitrary state satisfying the representation invariant (event list '
        'of length L<=4 with symbolic events, an UNBOUNDED symbolic start '
        'step, symbolic resolution), one real operation with symbolic '
        'arguments is executed, and the solver shows the invariant and the '
        'operation\'s post-condition on every path. One step from an '
        'arbitrary valid state covers operation histories of every length.',
    'level_note':
        'Trusted: z3 (integers). The invariant is exactly what the public '
        'constructors establish, so every pre-state is reachable (a '
        'counterexample from an unreachable state would mean the invariant is '
        'too weak, not a finding). `steps` builds a Python range and is checked '
        'with a bounded start step only.',
    'functions': [
        ('events_lib', 'SimpleEventSequence.append'),
        ('events_lib', 'SimpleEventSequence.set_length'),
        ('events_lib', 'SimpleEventSequence.__getitem__'),
        ('events_lib', 'SimpleEventSequence.increase_resolution'),
        ('events_lib', 'SimpleEventSequence.__deepcopy__'),
        ('events_lib', 'SimpleEventSequence._from_event_list'),
        ('melodies_lib', 'Melody.set_length'),
        ('melodies_lib', 'Melody._from_event_list'),
        ('lead_sheets_lib', 'LeadSheet.__iter__'),
        ('lead_sheets_lib', 'LeadSheet.__getitem__'),
        ('lead_sheets_lib', 'LeadSheet.set_length'),
        ('lead_sheets_lib', 'LeadSheet.append'),
        ('pianoroll_lib', 'PianorollSequence.set_length'),
        ('pianoroll_lib', 'PianorollSequence.append'),
        ('performance_lib', 'BasePerformance._append_steps'),
        ('performance_lib', 'BasePerformance._trim_steps'),
        ('performance_lib', 'BasePerformance.set_length'),
        ('performance_lib', 'BasePerformance.truncate'),
        ('performance_lib', 'BasePerformance.num_steps'),
        ('performance_lib', 'BasePerformance.steps'),
    ],
    'assumptions': [
        'representation invariant: len(events) == end_step - start_step, '
        'steps_per_bar/quarter >= 1, melody events in [-2,127]',
        'set_length argument in [0, L+2]; slice bounds in [-5,5] or None; '
        'increase_resolution factor in [1,3]',
        'Performance: max_shift_steps in [1,1000], set_length target at most '
        '3*max_shift_steps beyond the current length',
        'set_length(from_left=True) is documented as unsupported for '
        'PianorollSequence and Performance (NotImplementedError) and is not '
        'exercised there; NotePerformance.set_length is a documented no-op',
    ],
    'bounds': {
        'quick': 'L<=3 events for simple sequences, L<=2 for performances',
        'thorough': 'L<=4 / L<=3',
    },
    'outside': ['longer event lists (the step is inductive in the history, '
                'not in the list length)'],
}

_DRUMS = [frozenset([36]), frozenset([38, 42]), frozenset(), frozenset([46])]
_CHORDS = ['C', 'Dm7', 'N.C.', 'G7']


def _make(c, kind, L, start=None):
  """An arbitrary valid state of the given class."""
  if start is None:
    start = c.int('start')  # unbounded
  spb = c.int('spb', 1, 64)
  spq = c.int('spq', 1, 24)
  # built=True: the state is reached as a user reaches it without an event
  # list - an EMPTY sequence created at start_step, then one append per event
  built = c.params.get('built', False)

  def events_arg(ev):
    return None if built else list(ev)

  if kind == 'melody':
    ml = c.mod('melodies_lib')
    ev = [c.int('e%d' % i, -2, 127) for i in range(L)]
    seq = ml.Melody(events_arg(ev), start_step=start, steps_per_bar=spb,
                    steps_per_quarter=spq)
    pad = -2
  elif kind == 'drums':
    dl = c.mod('drums_lib')
    ev = [_DRUMS[i % 4] for i in range(L)]
    seq = dl.DrumTrack(events_arg(ev), start_step=start, steps_per_bar=spb,
                       steps_per_quarter=spq)
    pad = frozenset()
  elif kind == 'chords':
    cl = c.mod('chords_lib')
    ev = [_CHORDS[i % 4] for i in range(L)]
    seq = cl.ChordProgression(events_arg(ev), start_step=start,
                              steps_per_bar=spb, steps_per_quarter=spq)
    pad = 'N.C.'
  else:
    el = c.mod('events_lib')
    ev = [c.int('e%d' % i, 0, 9) for i in range(L)]
    seq = el.SimpleEventSequence(pad_event=0, events=events_arg(ev),
                                 start_step=start, steps_per_bar=spb,
                                 steps_per_quarter=spq)
    pad = 0
  if built:
    c.check(c.And(c.eq(seq.start_step, start), c.eq(seq.end_step, start),
                  len(seq) == 0),
            'a sequence created without events is empty at its start step')
    for e in ev:
      seq.append(e)
  return seq, list(seq), start, spb, spq, pad


def _inv(c, seq, kind, label):
  evs = list(seq)
  conds = [c.eq(len(seq), seq.end_step - seq.start_step),
           len(evs) == len(seq)]
  for i, e in enumerate(evs):
    conds.append(c.eq(seq[i], e) if kind in ('melody', 'simple') else
                 seq[i] == e)
  if kind == 'melody':
    for e in evs:
      conds.append(c.And(e >= -2, e <= 127))
  c.check(c.And(conds), label + ': invariant (len == end-start, iteration, '
          'indexing and len agree, events in range)')


def _ev_eq(c, a, b):
  if isinstance(a, (frozenset, str, tuple)) or isinstance(b, (frozenset, str,
                                                              tuple)):
    return a == b
  return c.eq(a, b)


def h_append(c):
  kind, L = c.params['kind'], c.params['L']
  seq, ev, start, spb, spq, pad = _make(c, kind, L)
  new = c.int('new', -2, 127) if kind == 'melody' else (
      c.int('new', 0, 9) if kind == 'simple' else (
          _DRUMS[1] if kind == 'drums' else 'F'))
  seq.append(new)
  _inv(c, seq, kind, 'append')
  c.check(len(seq) == L + 1, 'append: one more event')
  c.check(c.And([_ev_eq(c, a, b) for a, b in zip(list(seq), ev + [new])]),
          'append: old events kept, new one last')
  c.check(c.And(c.eq(seq.start_step, start), c.eq(seq.end_step, start + L + 1)),
          'append: start kept, end + 1')


def h_set_length(c):
  kind, L, left = c.params['kind'], c.params['L'], c.params['from_left']
  seq, ev, start, spb, spq, pad = _make(c, kind, L)
  n = c.int('n', 0, L + 2)
  seq.set_length(n, from_left=left)
  nn = c.concretize(n)
  _inv(c, seq, kind, 'set_length')
  c.check(len(seq) == nn, 'set_length(n) yields exactly n steps')
  c.check(c.eq(seq.end_step - seq.start_step, nn),
          'set_length(n): step range has n steps')
  now = list(seq)
  keep = min(nn, L)
  if left:
    c.check(c.eq(seq.end_step, start + L), 'from_left keeps the end step')
    c.check(c.And([_ev_eq(c, a, b) for a, b in zip(now[len(now) - keep:],
                                                   ev[L - keep:])] or [True]),
            'from_left keeps the events of the retained (right) side')
  else:
    c.check(c.eq(seq.start_step, start), 'set_length keeps the start step')
    c.check(c.And([_ev_eq(c, a, b) for a, b in zip(now[:keep], ev[:keep])]
                  or [True]),
            'set_length keeps the events of the retained (left) side')
  c.cover('set_length to zero', nn == 0)
  c.cover('set_length grows', nn > L)


def _conc_slice(c, a, b):
  return slice(None if a is None else c.concretize(a),
               None if b is None else c.concretize(b))


def h_slice(c):
  kind, L = c.params['kind'], c.params['L']
  seq, ev, start, spb, spq, pad = _make(c, kind, L)
  a = c.int('a', -5, 5) if c.params['a'] else None
  b = c.int('b', -5, 5) if c.params['b'] else None
  sub = seq[a:b]
  sl = _conc_slice(c, a, b)
  c.check(type(sub) is type(seq), 'slice has the same class')
  _inv(c, sub, kind, 'slice')
  want = ev[sl]
  if kind == 'melody':
    # a Melody never starts with note-offs: the constructor (documented)
    # turns leading note-offs into no-events
    cleaned = list(want)
    for i, e in enumerate(want):
      if not bool(c.Or(c.eq(e, -1), c.eq(e, -2))):
        break
      cleaned[i] = -2
    want = cleaned
  c.check(len(sub) == len(want) and
          bool(c.And([_ev_eq(c, x, y) for x, y in zip(list(sub), want)]
                     or [True])), 'slice holds the sliced events')
  if want:
    first = sl.indices(L)[0]
    c.check(c.eq(sub.start_step, start + first),
            'slice start_step is the step of its first element')
    c.cover('negative slice start', sl.start is not None and sl.start < 0)
  c.check(c.And(c.eq(sub.steps_per_bar, spb), c.eq(sub.steps_per_quarter, spq)),
          'slice keeps the resolution')
  _inv(c, seq, kind, 'slice leaves the original')


def h_index(c):
  kind, L = c.params['kind'], c.params['L']
  seq, ev, start, spb, spq, pad = _make(c, kind, L)
  i = c.int('i', -L, L - 1)
  ii = c.concretize(i)
  c.check(_ev_eq(c, seq[i], ev[ii]), 'indexing agrees with iteration')


def h_resolution(c):
  kind, L = c.params['kind'], c.params['L']
  seq, ev, start, spb, spq, pad = _make(c, kind, L)
  k = c.int('k', 1, 3)
  seq.increase_resolution(k)
  kk = c.concretize(k)
  _inv(c, seq, kind, 'increase_resolution')
  c.check(len(seq) == L * kk, 'increase_resolution: k times as many events')
  c.check(c.And(c.eq(seq.start_step, start * kk),
                c.eq(seq.end_step, (start + L) * kk),
                c.eq(seq.steps_per_bar, spb * kk),
                c.eq(seq.steps_per_quarter, spq * kk)),
          'increase_resolution: steps and resolution scaled by k')
  now = list(seq)
  c.check(c.And([_ev_eq(c, now[i * kk], ev[i]) for i in range(L)] or [True]),
          'increase_resolution: every event at k times its index')


def h_deepcopy(c):
  kind, L = c.params['kind'], c.params['L']
  seq, ev, start, spb, spq, pad = _make(c, kind, L)
  cp = copy.deepcopy(seq)
  _inv(c, cp, kind, 'deepcopy')
  c.check(type(cp) is type(seq) and cp is not seq, 'deepcopy: new object')
  c.check(c.And([_ev_eq(c, a, b) for a, b in zip(list(cp), ev)] +
                [len(cp) == L, c.eq(cp.start_step, start),
                 c.eq(cp.end_step, start + L)]), 'deepcopy: equal content')
  cp.append(pad)
  cp.set_length(max(L - 1, 0))
  cp.append(pad)
  c.check(len(seq) == L, 'deepcopy: editing the copy leaves the original')
  _inv(c, seq, kind, 'original after editing its deep copy')
  c.check(c.And([_ev_eq(c, a, b) for a, b in zip(list(seq), ev)] or [True]),
          'deepcopy: editing the copy leaves the events of the original')


def h_steps(c):
  kind, L = c.params['kind'], c.params['L']
  start = c.int('start', -3, 3)
  seq, ev, start, spb, spq, pad = _make(c, kind, L, start=start)
  n = c.int('n', 0, L + 1)
  seq.set_length(n, from_left=c.params['from_left'])
  st = seq.steps
  c.check(len(st) == len(seq), 'steps lists one step per event')
  c.check(all(bool(c.eq(s, seq.start_step + i)) for i, s in enumerate(st)),
          'steps are consecutive from start_step')


def h_leadsheet(c):
  ls = c.mod('lead_sheets_lib')
  ml = c.mod('melodies_lib')
  cl = c.mod('chords_lib')
  L = c.params['L']
  op = c.params['op']
  start = c.int('start', -3, 3) if op == 'steps' else c.int('start')
  spb = c.int('spb', 1, 64)
  spq = c.int('spq', 1, 24)
  ev = [c.int('e%d' % i, -2, 127) for i in range(L)]
  ch = [_CHORDS[i % 4] for i in range(L)]
  sheet = ls.LeadSheet(
      ml.Melody(list(ev), start_step=start, steps_per_bar=spb,
                steps_per_quarter=spq),
      cl.ChordProgression(list(ch), start_step=start, steps_per_bar=spb,
                          steps_per_quarter=spq))
  ev = list(sheet.melody)

  def inv(label):
    c.check(c.And(c.eq(len(sheet), sheet.end_step - sheet.start_step),
                  len(sheet.melody) == len(sheet.chords) == len(sheet),
                  c.eq(sheet.melody.start_step, sheet.chords.start_step),
                  c.eq(sheet.melody.end_step, sheet.chords.end_step)),
            label + ': lead sheet invariant (melody and chords aligned)')
    pairs = list(sheet)
    c.check(len(pairs) == len(sheet), label + ': iteration agrees with len')
    for i, (m, x) in enumerate(pairs):
      mi, xi = sheet[i]
      c.check(c.And(c.eq(m, mi), x == xi, c.eq(m, sheet.melody[i])),
              label + ': iteration agrees with indexing')

  inv('initial')
  if op == 'append':
    # an out-of-range melody event is rejected and must leave nothing behind
    bad = c.choice('bad', [128, -3])
    res, err = c.raises(sheet.append, (bad, 'Am'))
    c.check(isinstance(err, ValueError), 'invalid melody event rejected')
    c.check(len(sheet) == L, 'a rejected append adds nothing')
    inv('after a rejected append')
    sheet.append((c.int('new', -2, 127), 'F'))
    c.check(len(sheet) == L + 1, 'append: one more event')
    inv('append')
    c.check(sheet[L][1] == 'F', 'the appended chord is the one supplied')
  elif op == 'set_length':
    n = c.int('n', 0, L + 2)
    sheet.set_length(n)
    c.check(len(sheet) == c.concretize(n), 'set_length(n) yields n steps')
    keep = min(c.concretize(n), L)
    c.check(c.And([c.eq(a, b) for a, b in zip(list(sheet.melody)[:keep],
                                             ev[:keep])] or [True]),
            'set_length keeps the retained melody events')
    inv('set_length')
  elif op == 'resolution':
    k = c.int('k', 1, 3)
    sheet.increase_resolution(k)
    c.check(len(sheet) == L * c.concretize(k), 'increase_resolution')
    inv('increase_resolution')
  elif op == 'deepcopy':
    cp = copy.deepcopy(sheet)
    c.check(cp == sheet and cp is not sheet, 'deepcopy equal')
    # edit the copy both ways, then re-examine the ORIGINAL
    cp.append((60, 'C'))
    cp.set_length(max(L - 1, 0))
    cp.append((62, 'F'))
    c.check(len(sheet) == L, 'deepcopy independent')
    inv('after editing a deep copy')
    c.check(c.And([c.eq(a, b) for a, b in zip(list(sheet.melody), ev)] or
                  [True]) and list(sheet.chords) == ch,
            'editing a deep copy leaves the events of the original')
  elif op == 'steps':
    c.check(len(sheet.steps) == len(sheet), 'steps lists one step per event')
  elif op == 'slice':
    a = c.int('a', -3, 3)
    part = sheet[a:]
    mel, chd = (part.melody, part.chords) if hasattr(part, 'melody') else part
    sl = slice(c.concretize(a), None)
    want = ev[sl]
    c.check(len(mel) == len(want) == len(chd), 'slice lengths')
    if want:
      first = sl.indices(L)[0]
      c.check(c.And(c.eq(mel.start_step, start + first),
                    c.eq(chd.start_step, start + first)),
              'slice carries the step offset of its first element')


def h_pianoroll(c):
  pr = c.mod('pianoroll_lib')
  L = c.params['L']
  op = c.params['op']
  start = c.int('start', -3, 3) if op == 'steps' else c.int('start')
  evs = [(0,), (), (1, 2), (3,)][:L]
  seq = pr.PianorollSequence(events_list=list(evs), steps_per_quarter=c.int(
      'spq', 1, 24), start_step=start)

  def inv(label):
    c.check(c.And(c.eq(seq.end_step - seq.start_step, len(seq)),
                  seq.num_steps == len(seq), len(list(seq)) == len(seq),
                  c.eq(seq.start_step, start)),
            label + ': invariant (len == end-start == num_steps)')
    for i, e in enumerate(list(seq)):
      c.check(seq[i] == e, label + ': indexing agrees with iteration')

  inv('initial')
  if op == 'append':
    seq.append((5,))
    c.check(len(seq) == L + 1 and seq[L] == (5,), 'append')
    inv('append')
  elif op == 'set_length':
    n = c.int('n', 0, L + 2)
    seq.set_length(n)
    nn = c.concretize(n)
    c.check(len(seq) == nn, 'set_length(n) yields n steps')
    c.check(list(seq)[:min(nn, L)] == list(evs)[:min(nn, L)],
            'set_length keeps the retained events')
    c.check(all(e == () for e in list(seq)[L:]), 'padding is silence')
    inv('set_length')
  elif op == 'steps':
    c.check(len(seq.steps) == len(seq), 'steps lists one step per event')
  elif op == 'deepcopy':
    cp = copy.deepcopy(seq)
    before = list(seq)
    cp.append(())
    cp.set_length(max(L - 1, 0))
    cp.append((60,))
    c.check(len(seq) == L and list(seq) == before, 'deepcopy independent')


def _mk_perf(c, L, metric):
  pl = c.mod('performance_lib')
  PE = pl.PerformanceEvent
  ms = c.int('ms', 1, 1000)
  start = c.int('start')
  if metric:
    # MetricPerformance derives its shift limit from steps_per_quarter
    spq = c.int('spq', 1, 24)
    perf = pl.MetricPerformance(steps_per_quarter=spq, start_step=start,
                                num_velocity_bins=8, max_shift_quarters=4)
    c.assume(c.eq(ms, 4 * spq))
  else:
    perf = pl.Performance(steps_per_second=100, start_step=start,
                          num_velocity_bins=8, max_shift_steps=ms)
  evs = []
  for i in range(L):
    ty = c.params['types'][i]
    if ty == PE.TIME_SHIFT:
      v = c.int('v%d' % i, 0, 3000)
    elif ty == PE.VELOCITY:
      v = c.int('v%d' % i, 1, 8)
    else:
      v = c.int('v%d' % i, 0, 127)
    e = PE(ty, v)
    perf.append(e)
    evs.append((ty, v))
  return pl, PE, perf, evs, ms, start


def _perf_inv(c, PE, perf, start, label):
  evs = list(perf)
  total = c.Sum([e.event_value for e in evs if e.event_type == PE.TIME_SHIFT])
  c.check(c.And(c.eq(perf.num_steps, total),
                c.eq(perf.end_step - perf.start_step, total),
                c.eq(perf.start_step, start), len(evs) == len(perf)),
          label + ': invariant (num_steps == sum of shifts == end-start)')
  st = perf.steps
  c.check(len(st) == len(evs), label + ': steps has one entry per event')
  conds = []
  acc = start
  for i, e in enumerate(evs):
    conds.append(c.eq(st[i], acc))
    conds.append(c.eq(perf[i].event_value, e.event_value))
    if e.event_type == PE.TIME_SHIFT:
      acc = acc + e.event_value
  c.check(c.And(conds or [True]),
          label + ': steps = running sum of shifts; indexing agrees')


def h_perf_set_length(c):
  L = c.params['L']
  pl, PE, perf, evs, ms, start = _mk_perf(c, L, c.params.get('metric', False))
  _perf_inv(c, PE, perf, start, 'initial')
  cur = perf.num_steps
  n = c.int('n', 0, 10000)
  c.assume(n <= cur + 3 * ms)
  perf.set_length(n)
  _perf_inv(c, PE, perf, start, 'set_length')
  c.check(c.eq(perf.num_steps, n), 'set_length(n) yields exactly n steps')
  now = list(perf)
  grow = n >= cur
  if bool(grow):
    # old events kept (the last shift may have been lengthened), every new
    # shift within 1..max_shift_steps
    c.check(len(now) >= L, 'growing never drops events')
    for i in range(L):
      same = c.And(c.eq(now[i].event_type, evs[i][0]),
                   c.eq(now[i].event_value, evs[i][1]))
      if i == L - 1 and evs[i][0] == PE.TIME_SHIFT:
        same = c.And(c.eq(now[i].event_type, PE.TIME_SHIFT),
                     now[i].event_value >= evs[i][1],
                     c.Or(c.eq(now[i].event_value, evs[i][1]),
                          now[i].event_value <= ms))
      c.check(same, 'growing keeps the existing events')
    for e in now[L:]:
      c.check(c.And(c.eq(e.event_type, PE.TIME_SHIFT), e.event_value >= 1,
                    e.event_value <= ms),
              'every appended shift lies in 1..max_shift_steps')
    c.cover('grows by more than one maximal shift', n > cur + ms)
  else:
    c.check(len(now) <= L, 'shrinking never adds events')
    for i in range(len(now)):
      same = c.And(c.eq(now[i].event_type, evs[i][0]),
                   c.eq(now[i].event_value, evs[i][1]))
      if i == len(now) - 1 and evs[i][0] == PE.TIME_SHIFT:
        same = c.And(c.eq(now[i].event_type, PE.TIME_SHIFT),
                     now[i].event_value <= evs[i][1])
      c.check(same, 'shrinking keeps a prefix of the events')
    c.cover('shrinks')


def h_perf_edit(c):
  L = c.params['L']
  pl, PE, perf, evs, ms, start = _mk_perf(c, L, False)
  op = c.params['op']
  if op == 'append':
    e = PE(PE.TIME_SHIFT, c.int('new', 0, 3000))
    perf.append(e)
    c.check(len(perf) == L + 1, 'append: one more event')
    _perf_inv(c, PE, perf, start, 'append')
    res, err = c.raises(perf.append, 5)
    c.check(err is not None and isinstance(err, ValueError),
            'append rejects a non-event')
  elif op == 'truncate':
    n = c.int('n', 0, L + 1)
    perf.truncate(n)
    nn = c.concretize(n)
    c.check(len(perf) == min(nn, L), 'truncate keeps the first n events')
    _perf_inv(c, PE, perf, start, 'truncate')
    for i, e in enumerate(list(perf)):
      c.check(c.eq(e.event_value, evs[i][1]), 'truncate keeps a prefix')
  elif op == 'deepcopy':
    cp = copy.deepcopy(perf)
    cp.append(PE(PE.TIME_SHIFT, 1))
    cp.truncate(max(L - 1, 0))
    cp.append(PE(PE.NOTE_ON, 60))
    c.check(len(perf) == L, 'deepcopy independent')
    _perf_inv(c, PE, perf, start, 'deepcopy')


HARNESSES = {
    'h_append': h_append,
    'h_set_length': h_set_length,
    'h_slice': h_slice,
    'h_index': h_index,
    'h_resolution': h_resolution,
    'h_deepcopy': h_deepcopy,
    'h_steps': h_steps,
    'h_leadsheet': h_leadsheet,
    'h_pianoroll': h_pianoroll,
    'h_perf_set_length': h_perf_set_length,
    'h_perf_edit': h_perf_edit,
}


def jobs(tier):
  import itertools  # pylint: disable=g-import-not-at-top
  J = []

  def add(h, budget=200, required=True, **params):
    J.append({'harness': h, 'params': params, 'budget_s': budget,
              'required': required})

  deep = tier == 'thorough'
  Ls = (0, 1, 3) if not deep else (0, 1, 2, 3, 4)
  for kind in ('simple', 'melody', 'drums', 'chords'):
    for L in Ls:
      add('h_append', kind=kind, L=L)
      for left in (False, True):
        add('h_set_length', kind=kind, L=L, from_left=left)
      add('h_resolution', kind=kind, L=L)
      add('h_deepcopy', kind=kind, L=L)
      if L:
        add('h_index', kind=kind, L=L)
    for L in (Ls[-1],) if not deep else (2, 4):
      for a, b in itertools.product((False, True), repeat=2):
        add('h_slice', kind=kind, L=L, a=a, b=b, budget=600)
      for left in (False, True):
        add('h_steps', kind=kind, L=L, from_left=left)
    # states built by appending to an empty sequence created at start_step
    for L in (0, 2):
      add('h_append', kind=kind, L=L, built=True)
      add('h_set_length', kind=kind, L=L, from_left=True, built=True)
      add('h_steps', kind=kind, L=L, from_left=False, built=True)
  for op in ('append', 'set_length', 'resolution', 'deepcopy', 'steps',
             'slice'):
    for L in (0, 2) if not deep else (0, 1, 2, 3):
      add('h_leadsheet', op=op, L=L)
  for op in ('append', 'set_length', 'steps', 'deepcopy'):
    for L in (0, 2) if not deep else (0, 1, 2, 4):
      add('h_pianoroll', op=op, L=L)
  # performances: event kinds are concrete per job, values symbolic
  combos = [[], [3], [1], [1, 3], [3, 3], [3, 2], [3, 3, 3], [3, 1, 3]]
  if deep:
    combos += [list(t) for t in itertools.product([1, 3, 4], repeat=3)]
  for types in combos:
    add('h_perf_set_length', L=len(types), types=types, budget=900)
    for op in ('append', 'truncate', 'deepcopy'):
      add('h_perf_edit', L=len(types), types=types, op=op)
  add('h_perf_set_length', L=2, types=[1, 3], metric=True, budget=900)
  return J
