"""C05 -- MusicXML scores parse to the notes, key, meter and tempo they declare
(tree level: numeric leaves symbolic, structure from templates)."""
import fractions
import os
import shutil
import tempfile
import xml.etree.ElementTree as ET
import zipfile

from props import common as K

META = {
    'level': 'model_checking',
    'level_text':
        'The real MusicXMLDocument/Part/Measure/Note/NoteDuration/KeySignature/'
        'TimeSignature/Tempo classes and musicxml_file_to_sequence_proto are '
        'executed on real ElementTree elements whose STRUCTURE comes from a '
        'small family of score templates and whose NUMERIC LEAVES (durations, '
        'octave, alter, fifths, chromatic transposition, MIDI channel/program, '
        'voice) are symbolic: the text of those elements is replaced by a '
        'SymText object that the shadowed int()/float() of the parser module '
        'unwrap. On every path the solver compares every emitted note (pitch, '
        'onset, end, voice, part, channel, program, notated value, velocity), '
        'total_time, the keys (tonic, mode, time, number), the time '
        'signatures, the tempo marks, the part_infos and the chord symbols '
        'with an independent cursor model written in the harness. h_file / '
        'h_invalid run the same function on real .xml / .mxl files written to '
        'disk (every path is a concrete file).',
    'level_note':
        'Trusted: z3, reals for doubles, symproto. In h_score XML '
        'tokenisation (ET.fromstring) is outside the claim: the harness hands '
        'the parser an already built element tree through a patched '
        '_get_score (in the replay it is the tree ET parses from the same '
        'template with the model values written in as text). h_file and '
        'h_invalid go through ET.parse and zipfile on concrete files: a '
        'one-measure score with solver-enumerated leaves as .xml and as three '
        '.mxl container layouts, and 19 invalid / unsupported inputs.',
    'functions': [('musicxml_parser', 'MusicXMLDocument._get_score'),
                  ('musicxml_parser', 'MusicXMLDocument._parse'),
                  ('musicxml_parser', 'MusicXMLDocument.get_chord_symbols'),
                  ('musicxml_parser', 'MusicXMLDocument.get_time_signatures'),
                  ('musicxml_parser', 'MusicXMLDocument.get_key_signatures'),
                  ('musicxml_parser', 'MusicXMLDocument.get_tempos'),
                  ('musicxml_parser', 'ScorePart._parse'),
                  ('musicxml_parser', 'Part._parse'),
                  ('musicxml_parser', 'Part._repair_empty_measure'),
                  ('musicxml_parser', 'Measure._parse'),
                  ('musicxml_parser', 'Measure._parse_attributes'),
                  ('musicxml_parser', 'Measure._parse_backup'),
                  ('musicxml_parser', 'Measure._parse_forward'),
                  ('musicxml_parser', 'Measure._parse_direction'),
                  ('musicxml_parser', 'Measure._fix_time_signature'),
                  ('musicxml_parser', 'Note._parse'),
                  ('musicxml_parser', 'Note._parse_pitch'),
                  ('musicxml_parser', 'Note._parse_tuplet'),
                  ('musicxml_parser', 'Note.pitch_to_midi_pitch'),
                  ('musicxml_parser', 'NoteDuration.parse_duration'),
                  ('musicxml_parser', 'NoteDuration.duration_ratio'),
                  ('musicxml_parser', 'KeySignature._parse'),
                  ('musicxml_parser', 'TimeSignature._parse'),
                  ('musicxml_parser', 'Tempo._parse'),
                  ('musicxml_parser', 'ChordSymbol._parse'),
                  ('musicxml_parser', 'ChordSymbol._parse_pitch'),
                  ('musicxml_parser', 'ChordSymbol._parse_degree'),
                  ('musicxml_parser', 'ChordSymbol._alter_to_string'),
                  ('musicxml_parser', 'ChordSymbol.get_figure_string'),
                  ('musicxml_reader', 'musicxml_to_sequence_proto'),
                  ('musicxml_reader', 'musicxml_file_to_sequence_proto')],
    'assumptions': [
        'complete measures (the voice-1 durations of a measure add up to the '
        'declared meter; a <forward> occurs only in a second voice or as the '
        'only content of a measure); chord notes carry the duration of the '
        'note they are stacked on; every first measure declares <time>',
        'divisions, meter and tempo values are concrete per job (grid); '
        'durations, octave (0..9), alter (-2..2), fifths (-7..7), transpose '
        '(-12..12), MIDI channel/program, voice are symbolic; note type, dots '
        'and tuplet ratio come from a table of rhythm patterns whose '
        '<duration>s are the notated values',
        'score structure from the templates single (optionally without tempo '
        'mark / without key / tempo="0" / a tempo mark between two notes), '
        'chord (one or two stacked notes), rest (rest first or in the middle), '
        'two_voices (layouts: forward first / forward last / partial backup / '
        'rest in the second voice / chord in the second voice), two_measures, '
        'two_parts, retranspose, key_changes (three measures, each declaring '
        'a key, fifths symbolic in -2..2), rhythm, empty_measure (a measure '
        'with only a <forward> or a whole-measure rest), meter_change (second '
        'measure with another <time> and / or <divisions>), parts (2..3 parts '
        'of 1..2 measures; keys per part equal / own / absent; MIDI '
        'information per part both / none / part missing from the part list), '
        'harmony (one <harmony> with root / kind / up to two degrees / bass / '
        'offset, before the first note, between two notes, or in a second '
        'measure after a tempo change; step letters, kind and degree value '
        'concrete per job or a solver-closed choice, the alters and the offset '
        'symbolic)',
        'a tempo change with marks in part 0 only: known finding F-C05-d '
        '(template parts_tempo); while it is open the times of the later '
        'parts\' notes of that template are not compared',
    ],
    'bounds': {
        'quick': 'templates with <=8 notes per measure, <=3 measures, <=3 '
                 'parts; divisions {1,2,3,4,5,8,12,960}; all 45 entries of the '
                 'kind table; h_file: octave x alter x duration split x fifths '
                 '-1..1 x 3 container layouts',
        'thorough': 'all templates x divisions {1,2,4,24} x meters '
                    '{4/4,3/4,6/8,2/2,3/8} x tempi {60,97.3,120}',
    },
    'outside': ['XML text / tokenisation and the .mxl container beyond the '
                'files of h_file / h_invalid', 'more than two degrees per '
                'chord symbol', 'incomplete (pickup) measures, scores without '
                '<time>', 'chord notes whose <duration> differs from the note '
                'they are stacked on', '<sound dynamics>, notes without '
                '<voice>, <midi-instrument> with only one of channel / '
                'program', 'tempo marks in parts other than the first'],
}

# MusicXML <kind> values -> the figure abbreviation used by note_seq
_KIND = {'major': '', 'minor': 'm', 'augmented': 'aug', 'diminished': 'dim',
         'dominant': '7', 'major-seventh': 'maj7', 'minor-seventh': 'm7',
         'half-diminished': 'm7b5', 'suspended-fourth': 'sus',
         'major-sixth': '6', 'dominant-ninth': '9', 'power': '5',
         # the rest of the MusicXML kind-value list ...
         'diminished-seventh': 'dim7', 'augmented-seventh': 'aug7',
         'major-minor': 'm(maj7)', 'minor-sixth': 'm6', 'major-ninth': 'maj9',
         'minor-ninth': 'm9', 'dominant-11th': '11', 'major-11th': 'maj11',
         'minor-11th': 'm11', 'dominant-13th': '13', 'major-13th': 'maj13',
         'minor-13th': 'm13', 'suspended-second': 'sus2', 'pedal': 'ped',
         # ... and the non-standard spellings the parser documents as supported
         'dominant-seventh': '7', 'augmented-ninth': 'aug9',
         'minor-major': 'm(maj7)', 'min': 'm', 'aug': 'aug', 'dim': 'dim',
         '7': '7', 'maj7': 'maj7', 'min7': 'm7', 'dim7': 'dim7',
         'm7b5': 'm7b5', 'minMaj7': 'm(maj7)', '6': '6', 'min6': 'm6',
         'maj69': '6(add9)', '9': '9', 'maj9': 'maj9', 'min9': 'm9',
         'sus47': 'sus7'}
# the 12 kinds of the original table (thorough-tier degree grid)
_KIND12 = ('major', 'minor', 'augmented', 'diminished', 'dominant',
           'major-seventh', 'minor-seventh', 'half-diminished',
           'suspended-fourth', 'major-sixth', 'dominant-ninth', 'power')

_STEP_PC = {'C': 0, 'D': 2, 'E': 4, 'F': 5, 'G': 7, 'A': 9, 'B': 11}

# note-type names as fractions of a whole note
_TYPE = {'breve': (2, 1), 'whole': (1, 1), 'half': (1, 2), 'quarter': (1, 4),
         'eighth': (1, 8), '16th': (1, 16), '32nd': (1, 32)}


def _notated(ntype, dots=0, tuplet=None):
  """Notated value of a note as a fraction of a whole note: the type, `actual`
  notes in the time of `normal` ones, each dot adding half of the previous
  value (dotted quarter 3/8, triplet eighth 1/12)."""
  r = fractions.Fraction(*_TYPE[ntype])
  if tuplet:
    r = r * tuplet[1] / tuplet[0]
  return r * (2 - fractions.Fraction(1, 2 ** dots))


# rhythm patterns: (type, dots, (actual, normal) | None) per note; the
# <duration> of each note is its notated value in divisions
_T3 = (3, 2)
_RHYTHM = {
    'dots_triplets': [('quarter', 1, None), ('eighth', 0, None),
                      ('eighth', 0, _T3), ('eighth', 0, _T3),
                      ('eighth', 0, _T3), ('quarter', 0, None)],
    'double_dot': [('half', 2, None), ('eighth', 0, None)],
    'whole': [('whole', 0, None)],
    'triplet_quarters': [('quarter', 0, _T3), ('quarter', 0, _T3),
                         ('quarter', 0, _T3), ('eighth', 1, None),
                         ('16th', 0, None), ('quarter', 0, None)],
    'quintuplet': [('16th', 0, (5, 4))] * 5 + [('quarter', 0, None)] * 3,
    'breve': [('breve', 0, None)],
    'half_32nds': [('half', 1, None), ('eighth', 1, None), ('32nd', 0, None),
                   ('32nd', 0, None)],
}


class _Builder(object):
  """Builds the XML text with @markers and the registry of leaf values."""

  def __init__(self, c):
    self.c = c
    self.vals = {}
    self.ratio = {}  # note index -> notated value (fraction of a whole note)

  def num(self, name, value):
    self.vals[name] = value
    return '@' + name

  def finish(self, xml_text):
    c = self.c
    if c.mode == 'sym':
      from engine import symtext  # pylint: disable=g-import-not-at-top
      root = ET.fromstring(xml_text)
      for el in root.iter():
        if el.text and el.text.startswith('@'):
          el.text = symtext.SymText(self.vals[el.text[1:]])
        for k, v in list(el.attrib.items()):
          if v.startswith('@'):
            el.attrib[k] = symtext.SymText(self.vals[v[1:]])
      return root
    txt = xml_text
    for k in sorted(self.vals, key=len, reverse=True):
      v = self.vals[k]
      txt = txt.replace('@' + k, repr(v) if isinstance(v, float) else str(v))
    return ET.fromstring(txt)


def _note_xml(b, i, step, chord=False, rest=False, voice=None, with_alter=True,
              ntype='quarter', dots=0, tuplet=None):
  c = b.c
  b.ratio[i] = _notated(ntype, dots, tuplet)
  s = '<note>'
  if chord:
    s += '<chord/>'
  if rest:
    s += '<rest/>'
  else:
    s += '<pitch><step>%s</step>' % step
    if with_alter:
      s += '<alter>%s</alter>' % b.num('n%d_alter' % i, c.int('n%d_alter' % i, -2,
                                                               2))
    else:
      b.vals['n%d_alter' % i] = 0
    s += '<octave>%s</octave></pitch>' % b.num('n%d_oct' % i,
                                               c.int('n%d_oct' % i, 0, 9))
  s += '<duration>%s</duration>' % b.num('n%d_dur' % i, b.vals['n%d_dur' % i])
  if voice is not None:
    s += '<voice>%s</voice>' % b.num('n%d_voice' % i, voice)
  s += '<type>%s</type>' % ntype + '<dot/>' * dots
  if tuplet:
    s += ('<time-modification><actual-notes>%d</actual-notes><normal-notes>%d'
          '</normal-notes></time-modification>' % tuple(tuplet))
  s += '</note>'
  return s


def h_score(c):
  mp = c.mod('musicxml_parser')
  mr = c.mod('musicxml_reader')
  pb = c.pb
  tpl = c.params['template']
  D = c.params['divisions']
  beats, beat_type = c.params['meter']
  qpm = c.params['qpm']
  if c.params.get('no_tempo'):
    qpm = None  # a score without any tempo mark
  no_key = c.params.get('no_key')  # a score without any <key>
  mode = c.params.get('mode')  # 'major' | 'minor' | 'dorian' | None
  b = _Builder(c)
  assert (D * 4) % beat_type == 0, (
      'job outside the property: a beat must be a whole number of divisions')
  measure_len = D * 4 * beats // beat_type
  # the key is symbolic in the single-measure templates; the larger templates
  # (whose paths multiply with the number of notes) use a fixed key
  if tpl == 'key_changes':
    fifths = c.int('fifths', -2, 2)
  else:
    fifths = (c.int('fifths', -7, 7) if tpl in ('single', 'chord') and
              not c.params.get('fixed_key') else -3)
  transpose = c.int('transpose', -12, 12) if c.params.get('transpose') else None
  chan = c.int('chan', 1, 16)
  prog = c.int('prog', 1, 128)

  def attributes(with_key=True, with_transpose=False, key=None):
    s = '<attributes><divisions>%d</divisions>' % D
    if with_key and not no_key:
      kname, kval = key or ('fifths', fifths)
      s += '<key><fifths>%s</fifths>' % b.num(kname, kval)
      if mode:
        s += '<mode>%s</mode>' % mode
      s += '</key>'
    s += '<time><beats>%d</beats><beat-type>%d</beat-type></time>' % (beats,
                                                                      beat_type)
    if with_transpose:
      s += '<transpose><chromatic>%s</chromatic></transpose>' % b.num(
          'transpose', transpose)
    s += '</attributes>'
    return s

  def tempo(q):
    if q is None:
      return ''
    return '<direction><sound tempo="%s"/></direction>' % repr(float(q))

  # ---- templates: each yields XML for the parts and an event script for the
  # harness's own cursor model: ('note', i, step, voice) / ('chord', i, step,
  # voice) / ('rest', i) / ('backup', name) / ('forward', name) / ('tempo', q)
  parts_xml = []
  scripts = []  # per part: list of measures, each a list of script items
  steps = c.params.get('steps', ['C', 'E', 'G'])

  def durs(names, total):
    ds = [c.int(n, 1, max(64, total)) for n in names]
    c.assume(c.eq(c.Sum(ds), total))
    for n, d in zip(names, ds):
      b.vals[n] = d
    return ds

  if tpl == 'single':
    k = c.params.get('notes', 2)
    durs(['n%d_dur' % i for i in range(k)], measure_len)
    xml = '<measure number="1">' + attributes(
        with_transpose=transpose is not None) + tempo(qpm)
    script = [('tempo', qpm)]
    for i in range(k):
      if i == 1 and c.params.get('tempo_mid') is not None:
        # a tempo mark between two notes of a measure
        xml += tempo(c.params['tempo_mid'])
        script.append(('tempo', c.params['tempo_mid']))
      xml += _note_xml(b, i, steps[i % 3], voice=1)
      script.append(('note', i, steps[i % 3], 1))
    xml += '</measure>'
    parts_xml.append(xml)
    scripts.append([script])
  elif tpl == 'chord':
    durs(['n0_dur', 'n2_dur'], measure_len)
    b.vals['n1_dur'] = b.vals['n0_dur']
    stack3 = c.params.get('stack') == 3  # a second note stacked on the chord
    if stack3:
      b.vals['n3_dur'] = b.vals['n0_dur']
    xml = ('<measure number="1">' + attributes() + tempo(qpm) +
           _note_xml(b, 0, 'C', voice=1) + _note_xml(b, 1, 'E', chord=True,
                                                     voice=1) +
           (_note_xml(b, 3, 'A', chord=True, voice=1, with_alter=False)
            if stack3 else '') +
           _note_xml(b, 2, 'G', voice=1) + '</measure>')
    parts_xml.append(xml)
    scripts.append([[('tempo', qpm), ('note', 0, 'C', 1), ('chord', 1, 'E', 1)] +
                    ([('chord', 3, 'A', 1)] if stack3 else []) +
                    [('note', 2, 'G', 1)]])
  elif tpl == 'rest':
    durs(['n0_dur', 'n1_dur', 'n2_dur'], measure_len)
    rest_at = c.params.get('rest_at', 1)  # 0: the measure begins with the rest
    assert rest_at in (0, 1)  # (a trailing rest is not part of total_time)
    order = [1, 0, 2] if rest_at == 0 else [0, 1, 2]
    item = {0: ('note', 0, 'D', 1), 1: ('rest', 1), 2: ('note', 2, 'B', 1)}
    nx = {0: _note_xml(b, 0, 'D', voice=1),
          1: _note_xml(b, 1, 'C', rest=True, voice=1),
          2: _note_xml(b, 2, 'B', voice=1)}
    xml = ('<measure number="1">' + attributes() + tempo(qpm) +
           ''.join(nx[i] for i in order) + '</measure>')
    parts_xml.append(xml)
    scripts.append([[('tempo', qpm)] + [item[i] for i in order]])
  elif tpl == 'two_voices':
    durs(['n0_dur', 'n1_dur'], measure_len)
    fwd = c.int('fwd', 1, 64)
    d2 = c.int('n2_dur', 1, 64)
    c.assume(c.eq(fwd + d2, measure_len))
    b.vals['n2_dur'] = d2
    v2 = c.int('voice2', 2, 4)
    layout = c.params.get('layout', 'fwd_first')
    head = ('<measure number="1">' + attributes() + tempo(qpm) +
            _note_xml(b, 0, 'C', voice=1) +
            _note_xml(b, 1, 'F', voice=1, with_alter=False))
    hscript = [('tempo', qpm), ('note', 0, 'C', 1), ('note', 1, 'F', 1)]
    bk_xml = '<backup><duration>%s</duration></backup>' % b.num('bk',
                                                                 measure_len)
    fwd_xml = '<forward><duration>%s</duration></forward>' % b.num('fwd', fwd)
    if layout == 'fwd_first':
      xml = head + bk_xml + fwd_xml + _note_xml(b, 2, 'A', voice=v2)
      script = hscript + [('backup', 'bk'), ('forward', 'fwd'),
                          ('note', 2, 'A', v2)]
    elif layout == 'fwd_last':
      # the second voice begins the measure and is padded by a <forward>
      xml = head + bk_xml + _note_xml(b, 2, 'A', voice=v2) + fwd_xml
      script = hscript + [('backup', 'bk'), ('note', 2, 'A', v2),
                          ('forward', 'fwd')]
    elif layout == 'partial':
      # a <backup> of only the last `d2` divisions: the second voice enters
      # there and fills the rest of the measure
      b.vals['bk'] = d2
      xml = (head + '<backup><duration>%s</duration></backup>' % b.num('bk', d2)
             + _note_xml(b, 2, 'A', voice=v2))
      script = hscript + [('backup', 'bk'), ('note', 2, 'A', v2)]
    elif layout == 'rest_v2':
      # the second voice is padded by a rest of its own instead of a <forward>
      b.vals['n3_dur'] = fwd
      xml = (head + bk_xml + _note_xml(b, 3, 'C', rest=True, voice=v2) +
             _note_xml(b, 2, 'A', voice=v2))
      script = hscript + [('backup', 'bk'), ('rest', 3), ('note', 2, 'A', v2)]
    elif layout == 'chord_v2':
      # a chord in the second voice (stacked on a note that follows a <backup>
      # and a <forward>)
      b.vals['n3_dur'] = d2
      xml = (head + bk_xml + fwd_xml + _note_xml(b, 2, 'A', voice=v2) +
             _note_xml(b, 3, 'E', chord=True, voice=v2, with_alter=False))
      script = hscript + [('backup', 'bk'), ('forward', 'fwd'),
                          ('note', 2, 'A', v2), ('chord', 3, 'E', v2)]
    else:
      raise ValueError(layout)
    parts_xml.append(xml + '</measure>')
    scripts.append([script])
  elif tpl == 'two_measures':
    q2 = c.params['qpm2']
    durs(['n0_dur', 'n1_dur'], measure_len)
    durs(['n2_dur', 'n3_dur'], measure_len)
    xml = ('<measure number="1">' + attributes() + tempo(qpm) +
           _note_xml(b, 0, 'C', voice=1) + _note_xml(b, 1, 'D', voice=1, with_alter=False) +
           '</measure><measure number="2">' + tempo(q2) +
           _note_xml(b, 2, 'E', voice=1, with_alter=False) +
           _note_xml(b, 3, 'F', voice=1, with_alter=False) +
           '</measure>')
    parts_xml.append(xml)
    scripts.append([[('tempo', qpm), ('note', 0, 'C', 1), ('note', 1, 'D', 1)],
                    [('tempo', q2), ('note', 2, 'E', 1), ('note', 3, 'F', 1)]])
  elif tpl == 'key_changes':
    # three measures, each declaring a key (the third may return to the first)
    fs = [fifths, c.int('fifths2', -2, 2), c.int('fifths3', -2, 2)]
    durs(['n0_dur'], measure_len)
    durs(['n1_dur'], measure_len)
    durs(['n2_dur'], measure_len)
    xml = ''
    script = []
    for mi in range(3):
      xml += '<measure number="%d">' % (mi + 1)
      if mi == 0:
        xml += attributes() + tempo(qpm)
        script.append([('tempo', qpm), ('key', fs[0]), ('note', 0, 'C', 1)])
      else:
        xml += ('<attributes><key><fifths>%s</fifths>%s</key></attributes>' %
                (b.num('fifths%d' % (mi + 1), fs[mi]),
                 '<mode>%s</mode>' % mode if mode else ''))
        script.append([('key', fs[mi]), ('note', mi, 'DEF'[mi], 1)])
      xml += _note_xml(b, mi, 'CEF'[mi] if mi == 0 else 'DEF'[mi], voice=1,
                       with_alter=False) + '</measure>'
    parts_xml.append(xml)
    scripts.append(script)
  elif tpl == 'harmony':
    # <harmony> between two notes: root / kind / one degree / bass / offset
    hp = c.params['harmony']
    pos = hp.get('pos', 'mid')  # 'mid' | 'start' (before the first note) | 'm2'
    durs(['n0_dur', 'n1_dur'], measure_len)
    ra = c.int('root_alter', -2, 2)
    kind = hp.get('kind')
    if hp.get('kinds'):
      kind = c.choice('kind_i', hp['kinds'])
    hx = ('<harmony><root><root-step>%s</root-step><root-alter>%s</root-alter>'
          '</root><kind>%s</kind>' % (hp['root'], b.num('root_alter', ra), kind))
    harmony = {'root': hp['root'], 'ra': ra, 'kind': kind, 'degrees': []}
    for di, (dv, dt) in enumerate(hp.get('degrees') or
                                  ([hp['degree']] if hp.get('degree') else [])):
      dname = 'degree_alter' if di == 0 else 'degree_alter%d' % (di + 1)
      da = c.int(dname, -2, 2)
      if dt == 'alter':
        c.assume(c.Not(c.eq(da, 0)))  # "alter by zero" is not well-formed
      hx += ('<degree><degree-value>%d</degree-value><degree-alter>%s'
             '</degree-alter><degree-type>%s</degree-type></degree>' %
             (dv, b.num(dname, da), dt))
      harmony['degrees'].append((dv, dt, da))
    if hp.get('bass'):
      ba = c.int('bass_alter', -2, 2)
      hx += ('<bass><bass-step>%s</bass-step><bass-alter>%s</bass-alter></bass>'
             % (hp['bass'], b.num('bass_alter', ba)))
      harmony['bass'] = (hp['bass'], ba)
    if pos == 'm2':
      durs(['n2_dur', 'n3_dur'], measure_len)
    if hp.get('offset'):
      off = c.int('h_offset', -8, 8)
      # the symbol stays inside its measure
      if pos == 'start':
        c.assume(off >= 0)
      else:
        c.assume(b.vals['n2_dur' if pos == 'm2' else 'n0_dur'] + off >= 0)
      hx += '<offset>%s</offset>' % b.num('h_offset', off)
      harmony['offset'] = off
    hx += '</harmony>'
    n0x = _note_xml(b, 0, 'C', voice=1)
    n1x = _note_xml(b, 1, 'E', voice=1, with_alter=False)
    if pos == 'mid':
      xml = ('<measure number="1">' + attributes() + tempo(qpm) + n0x + hx +
             n1x + '</measure>')
      script = [[('tempo', qpm), ('note', 0, 'C', 1), ('harmony', harmony),
                 ('note', 1, 'E', 1)]]
    elif pos == 'start':
      xml = ('<measure number="1">' + attributes() + tempo(qpm) + hx + n0x +
             n1x + '</measure>')
      script = [[('tempo', qpm), ('harmony', harmony), ('note', 0, 'C', 1),
                 ('note', 1, 'E', 1)]]
    else:
      # in the second measure, after a tempo change
      q2 = hp.get('qpm2', 90)
      xml = ('<measure number="1">' + attributes() + tempo(qpm) + n0x + n1x +
             '</measure><measure number="2">' + tempo(q2) +
             _note_xml(b, 2, 'G', voice=1, with_alter=False) + hx +
             _note_xml(b, 3, 'A', voice=1, with_alter=False) + '</measure>')
      script = [[('tempo', qpm), ('note', 0, 'C', 1), ('note', 1, 'E', 1)],
                [('tempo', q2), ('note', 2, 'G', 1), ('harmony', harmony),
                 ('note', 3, 'A', 1)]]
    parts_xml.append(xml)
    scripts.append(script)
  elif tpl == 'retranspose':
    # a transposing part that changes its transposition in the second measure
    # (possibly back to concert pitch: <chromatic>0</chromatic>)
    t2 = c.int('transpose2', -12, 12)
    durs(['n0_dur'], measure_len)
    durs(['n1_dur'], measure_len)
    xml = ('<measure number="1">' + attributes(with_transpose=True) +
           tempo(qpm) + _note_xml(b, 0, 'C', voice=1) +
           '</measure><measure number="2"><attributes><transpose><chromatic>%s'
           '</chromatic></transpose></attributes>' % b.num('transpose2', t2) +
           _note_xml(b, 1, 'G', voice=1, with_alter=False) + '</measure>')
    parts_xml.append(xml)
    scripts.append([[('tempo', qpm), ('transpose', transpose),
                     ('note', 0, 'C', 1)],
                    [('transpose', t2), ('note', 1, 'G', 1)]])
  elif tpl == 'two_parts':
    durs(['n0_dur', 'n1_dur'], measure_len)
    durs(['n2_dur'], measure_len)
    xml1 = ('<measure number="1">' + attributes() + tempo(qpm) +
            _note_xml(b, 0, 'C', voice=1) +
            _note_xml(b, 1, 'G', voice=1, with_alter=False) + '</measure>')
    xml2 = ('<measure number="1">' + attributes(with_key=False,
                                                with_transpose=True) +
            _note_xml(b, 2, 'B', voice=1) + '</measure>')
    parts_xml += [xml1, xml2]
    scripts.append([[('tempo', qpm), ('note', 0, 'C', 1), ('note', 1, 'G', 1)]])
    scripts.append([[('note', 2, 'B', 1)]])
  elif tpl == 'rhythm':
    # dotted and tuplet notes of several types; every <duration> is the
    # notated value in divisions
    pats = c.params['patterns']
    pat = _RHYTHM[pats[0] if len(pats) == 1 else c.choice('pattern', pats)]
    xml = '<measure number="1">' + attributes() + tempo(qpm)
    script = [('tempo', qpm)]
    total = 0
    for i, (ntype, dots, tuplet) in enumerate(pat):
      d = _notated(ntype, dots, tuplet) * 4 * D
      assert d.denominator == 1, 'pattern needs finer divisions'
      b.vals['n%d_dur' % i] = int(d)
      total += int(d)
      step = 'CDEFGAB'[i % 7]
      xml += _note_xml(b, i, step, voice=1, with_alter=(i == 0), ntype=ntype,
                       dots=dots, tuplet=tuplet)
      script.append(('note', i, step, 1))
    assert total == measure_len, 'pattern does not fill the measure'
    parts_xml.append(xml + '</measure>')
    scripts.append([script])
  elif tpl == 'empty_measure':
    # the middle measure holds no note: only a <forward> over the whole
    # measure, or a whole-measure rest
    middle = c.params.get('middle', 'forward')
    durs(['n0_dur'], measure_len)
    durs(['n1_dur'], measure_len)
    xml = ('<measure number="1">' + attributes() + tempo(qpm) +
           _note_xml(b, 0, 'C', voice=1) + '</measure><measure number="2">')
    if middle == 'forward':
      # (literal digits: the parser copies this text into a rest)
      xml += '<forward><duration>%d</duration></forward>' % measure_len
      mid = ('forward', 'gap')
      b.vals['gap'] = measure_len
    else:
      b.vals['n2_dur'] = measure_len
      xml += _note_xml(b, 2, 'C', rest=True, voice=1, ntype='whole')
      mid = ('rest', 2)
    xml += ('</measure><measure number="3">' +
            _note_xml(b, 1, 'E', voice=1, with_alter=False) + '</measure>')
    parts_xml.append(xml)
    scripts.append([[('tempo', qpm), ('note', 0, 'C', 1)], [mid],
                    [('note', 1, 'E', 1)]])
  elif tpl == 'meter_change':
    # the second measure declares another meter and / or other divisions
    beats2, beat_type2 = c.params.get('meter2') or (None, None)
    D2 = c.params.get('divisions2') or D
    len2 = (D2 * 4 * (beats2 or beats)) // (beat_type2 or beat_type)
    assert (D2 * 4) % (beat_type2 or beat_type) == 0
    durs(['n0_dur', 'n1_dur'], measure_len)
    durs(['n2_dur', 'n3_dur'], len2)
    a2 = '<attributes>'
    m2 = []
    if c.params.get('divisions2'):
      a2 += '<divisions>%d</divisions>' % D2
      m2.append(('divisions', D2))
    if beats2:
      a2 += '<time><beats>%d</beats><beat-type>%d</beat-type></time>' % (
          beats2, beat_type2)
      m2.append(('time', beats2, beat_type2))
    a2 += '</attributes>'
    xml = ('<measure number="1">' + attributes() + tempo(qpm) +
           _note_xml(b, 0, 'C', voice=1) +
           _note_xml(b, 1, 'D', voice=1, with_alter=False) +
           '</measure><measure number="2">' + a2 +
           _note_xml(b, 2, 'E', voice=1, with_alter=False) +
           _note_xml(b, 3, 'F', voice=1, with_alter=False) + '</measure>')
    parts_xml.append(xml)
    scripts.append([[('tempo', qpm), ('note', 0, 'C', 1), ('note', 1, 'D', 1)],
                    m2 + [('note', 2, 'E', 1), ('note', 3, 'F', 1)]])
  elif tpl == 'parts':
    # up to three parts: part p has part_measures[p] one-note measures; a part
    # may declare the key of part 0 again ('same'), a key of its own ('own')
    # or none (None); which parts carry MIDI information is the `midi` param
    n_parts = c.params['n_parts']
    pm = c.params.get('part_measures') or [1] * n_parts
    pk = c.params.get('part_keys') or [True] + [None] * (n_parts - 1)
    ni = 0
    for p in range(n_parts):
      if p == 0 or pk[p] == 'same':
        key = ('fifths', fifths)
      elif pk[p] == 'own':
        key = ('fifths_p%d' % p, c.int('fifths_p%d' % p, -2, 2))
      else:
        key = None
      xml = ''
      script = []
      for mi in range(pm[p]):
        durs(['n%d_dur' % ni], measure_len)
        xml += '<measure number="%d">' % (mi + 1)
        sm = []
        if mi == 0:
          xml += attributes(with_key=key is not None, key=key)
          if key is not None and not no_key:
            sm.append(('key', key[1]))
          if p == 0:
            xml += tempo(qpm)
            sm.append(('tempo', qpm))
        step = 'CEGBDFA'[ni % 7]
        xml += _note_xml(b, ni, step, voice=1, with_alter=(ni == 0))
        xml += '</measure>'
        sm.append(('note', ni, step, 1))
        script.append(sm)
        ni += 1
      parts_xml.append(xml)
      scripts.append(script)
  elif tpl == 'parts_tempo':
    # the tempo changes in the second measure; only part 0 carries the marks
    # (as notation programs write them); both parts are played at the tempo
    # in force
    q2 = c.params['qpm2']
    for ni in range(4):
      durs(['n%d_dur' % ni], measure_len)
    xml1 = ('<measure number="1">' + attributes() + tempo(qpm) +
            _note_xml(b, 0, 'C', voice=1) + '</measure><measure number="2">' +
            tempo(q2) + _note_xml(b, 1, 'D', voice=1, with_alter=False) +
            '</measure>')
    xml2 = ('<measure number="1">' + attributes() +
            _note_xml(b, 2, 'E', voice=1, with_alter=False) +
            '</measure><measure number="2">' +
            _note_xml(b, 3, 'F', voice=1, with_alter=False) + '</measure>')
    parts_xml += [xml1, xml2]
    scripts.append([[('tempo', qpm), ('note', 0, 'C', 1)],
                    [('tempo', q2), ('note', 1, 'D', 1)]])
    scripts.append([[('tempo_in_force', qpm), ('note', 2, 'E', 1)],
                    [('tempo_in_force', q2), ('note', 3, 'F', 1)]])
  else:
    raise ValueError(tpl)

  # which parts have a <score-part> entry, and which of those MIDI information
  midi = list(c.params.get('midi') or [])
  part_midi = []  # per part: (channel, program, name)
  score = '<score-partwise><part-list>'
  for pi in range(len(parts_xml)):
    m = midi[pi] if pi < len(midi) else ('both' if pi == 0 else 'none')
    if m == 'unlisted':
      # the part's id does not occur in the part list: default score part
      part_midi.append((0, 0, ''))
      continue
    score += '<score-part id="P%d"><part-name>Part %d</part-name>' % (pi, pi)
    if m == 'both':
      if pi == 0:
        ch, pg, chn, pgn = chan, prog, 'chan', 'prog'
      else:
        chn, pgn = 'chan%d' % pi, 'prog%d' % pi
        ch, pg = c.int(chn, 1, 16), c.int(pgn, 1, 128)
      score += ('<midi-instrument id="P%d-I1"><midi-channel>%s</midi-channel>'
                '<midi-program>%s</midi-program></midi-instrument>' %
                (pi, b.num(chn, ch), b.num(pgn, pg)))
      part_midi.append((ch, pg, 'Part %d' % pi))
    else:
      assert m == 'none', m
      part_midi.append((0, 0, 'Part %d' % pi))
    score += '</score-part>'
  score += '</part-list>'
  for pi, px in enumerate(parts_xml):
    score += '<part id="P%d">%s</part>' % (pi, px)
  score += '</score-partwise>'
  tree = b.finish(score)

  # hand the prepared tree to the real document class; the conversion goes
  # through musicxml_file_to_sequence_proto (the function of the statement)
  orig = mp.MusicXMLDocument.__dict__['_get_score']  # (the staticmethod object)
  mp.MusicXMLDocument._get_score = staticmethod(lambda filename: tree)
  try:
    seq = mr.musicxml_file_to_sequence_proto('in-memory')
  finally:
    mp.MusicXMLDocument._get_score = orig

  # ---- independent cursor model
  exp = []
  exp2 = []  # (pitch, onset, part, voice, velocity, notated numerator, denom.)
  ends = []
  cur_qpm = 120.0
  tempos = []
  chords = []
  keys = []
  meters = [(0, beats, beat_type)]
  for pi, measures in enumerate(scripts):
    t = 0
    tr = 0
    cur_D = D
    if tpl == 'two_parts' and pi == 1:
      tr = transpose
    elif transpose is not None and tpl == 'single':
      tr = transpose
    last_onset = 0
    for m in measures:
      for item in m:
        if item[0] == 'tempo':
          if item[1] is None:
            continue  # (no_tempo: the mark is not written)
          # tempo="0" stands for the default tempo
          cur_qpm = float(item[1]) or 120.0
          if pi == 0:
            tempos.append((t, cur_qpm))
        elif item[0] == 'tempo_in_force':
          cur_qpm = float(item[1])
        elif item[0] == 'transpose':
          tr = item[1]
        elif item[0] == 'key':
          keys.append((t, item[1]))
        elif item[0] == 'divisions':
          cur_D = item[1]
        elif item[0] == 'time':
          meters.append((t, item[1], item[2]))
        elif item[0] == 'harmony':
          hm = item[1]
          chords.append((t + hm.get('offset', 0) * (60.0 / cur_qpm) / cur_D,
                         hm))
        elif item[0] in ('note', 'chord', 'rest'):
          i = item[1]
          dur = b.vals['n%d_dur' % i]
          secs = dur * (60.0 / cur_qpm) / cur_D
          onset = last_onset if item[0] == 'chord' else t
          if item[0] != 'rest':
            step, voice = item[2], item[3]
            pitch = (12 * (b.vals['n%d_oct' % i] + 1) + _STEP_PC[step] +
                     b.vals['n%d_alter' % i] + tr)
            exp.append((True, (pitch, onset, onset + secs, voice, pi,
                               part_midi[pi][0], part_midi[pi][1])))
            exp2.append((True, (pitch, onset, pi, voice, 64,
                                b.ratio[i].numerator, b.ratio[i].denominator)))
            ends.append(onset + secs)
          if item[0] != 'chord':
            last_onset = t
            t = t + secs
        elif item[0] == 'backup':
          t = t - b.vals[item[1]] * (60.0 / cur_qpm) / cur_D
        elif item[0] == 'forward':
          t = t + b.vals[item[1]] * (60.0 / cur_qpm) / cur_D
        else:
          raise ValueError(item[0])
  got = [(n.pitch, n.start_time, n.end_time, n.voice, n.part, n.instrument,
          n.program) for n in seq.notes]
  if tpl == 'parts_tempo' and c.known('F-C05-d'):
    # known finding F-C05-d: the later parts are played at the last tempo of
    # part 0.  While it is open, the times of the notes of parts >= 1 of THIS
    # template are not compared (everything else about them is, and part 0 in
    # full)
    got = [g_ if g_[4] == 0 else (g_[0], 0, 0) + tuple(g_[3:]) for g_ in got]
    exp = [(cd, e_ if e_[4] == 0 else (e_[0], 0, 0) + tuple(e_[3:]))
           for cd, e_ in exp]
  # times are compared up to 1e-9 relative: the parser multiplies by the
  # concrete double STANDARD_PPQ / divisions, which is not exact for e.g. 24
  # divisions, while the reference divides exactly
  c.check(K.multiset_eq(c, got, exp, approx=(1, 2)),
          'one note per pitched <note>: pitch = step/alter/octave + '
          'transposition, onset/duration by the cursor arithmetic, voice, '
          'part, MIDI channel and program')
  got2 = [(n.pitch, n.start_time, n.part, n.voice, n.velocity, n.numerator,
           n.denominator) for n in seq.notes]
  if tpl == 'parts_tempo' and c.known('F-C05-d'):
    got2 = [g_ if g_[2] == 0 else (g_[0], 0) + tuple(g_[2:]) for g_ in got2]
    exp2 = [(cd, e_ if e_[2] == 0 else (e_[0], 0) + tuple(e_[2:]))
            for cd, e_ in exp2]
  c.check(K.multiset_eq(c, got2, exp2, approx=(1,)),
          'notated value of every note (type, dots, tuplet ratio as '
          'numerator/denominator) and the default velocity 64')
  c.check(c.approx(seq.total_time, c.Max(ends), 1e-9),
          'total_time is the end of the last note of the longest part')
  # ---- key, meter, tempo
  c.check(len(seq.key_signatures) >= 1, 'a key signature is reported')
  ks = seq.key_signatures[0]
  eff = fifths
  if transpose is not None and tpl in ('single', 'retranspose'):
    # the written key moves with the part's transposition; only checked for
    # the untransposed templates
    eff = None
  if no_key:
    # "If no key signatures are found, create a default key signature of C
    # major" (at the beginning)
    assert mode is None
    eff = 0
  if eff is not None:
    tonic = (eff * 7) % 12
    if mode == 'minor':
      # <fifths> counts accidentals; the tonic of a minor key lies a minor
      # third below the major tonic with the same signature (0 fifths + minor
      # = A minor)
      want_key, want_mode = (tonic + 9) % 12, 1
    else:
      want_key, want_mode = tonic, 0
    c.check(c.eq(ks.key, want_key), 'key tonic from <fifths>')
    c.check(c.eq(ks.mode, want_mode), 'major or minor from <mode>')
    c.check(c.eq(ks.time, 0), 'key signature at the time it occurs')
  if tpl == 'key_changes':
    c.check(len(seq.key_signatures) == len(keys),
            'one key signature per declared key, also when an earlier key '
            'returns')
    for ks_, (kt, kf) in zip(seq.key_signatures, keys):
      tonic_ = (kf * 7) % 12
      if mode == 'minor':
        tonic_ = (tonic_ + 9) % 12
      c.check(c.And(c.approx(ks_.time, kt, 1e-9), c.eq(ks_.key, tonic_),
                    c.eq(ks_.mode, 1 if mode == 'minor' else 0)),
              'every key signature at the time it occurs')
  elif tpl == 'parts':
    # every part's key is reported; a key that an earlier part declared at the
    # same time is reported once; no key at all = C major at 0
    m01 = 1 if mode == 'minor' else 0
    expk = []
    for i, (kt, kf) in enumerate(keys):
      dup = c.Or([c.And(c.eq(kf, kf2), c.eq(kt, kt2))
                  for kt2, kf2 in keys[:i]] or [False])
      tonic_ = (kf * 7 + (9 if m01 else 0)) % 12
      expk.append((c.Not(dup), (tonic_, m01, kt)))
    if not keys:
      expk = [(True, (0, 0, 0))]
    gotk = [(k.key, k.mode, k.time) for k in seq.key_signatures]
    c.check(K.multiset_eq(c, gotk, expk),
            'the keys of all parts are reported (equal keys at the same time '
            'once; C major when no part declares a key)')
    if len(keys) >= 2:
      c.cover('two parts in different keys',
              c.Not(c.eq(keys[0][1], keys[1][1])))
  else:
    c.check(len(seq.key_signatures) == 1,
            'exactly one key signature for a score that declares one key (or '
            'none)')
  if transpose is not None and tpl == 'single' and c.params.get('tkey'):
    # a transposing part is written in the key that lies `transpose`
    # semitones away; the sounding key is reported (comment in
    # _parse_attributes: every half step up is 5 steps backward on the circle
    # of fifths)
    concert = (fifths * 7 + transpose + (9 if mode == 'minor' else 0)) % 12
    ok = c.eq(ks.key, concert)
    c.check(ok, 'sounding key of a transposing part: written tonic + '
            'chromatic transposition')
  c.check(len(seq.time_signatures) >= 1 and
          bool(c.And(c.eq(seq.time_signatures[0].numerator, beats),
                     c.eq(seq.time_signatures[0].denominator, beat_type),
                     c.eq(seq.time_signatures[0].time, 0))),
          'declared time signature at time 0')
  c.check(len(seq.time_signatures) == len(meters),
          'complete measures add no further time signatures')
  if len(meters) > 1:
    c.check(K.multiset_eq(
        c, [(x.time, x.numerator, x.denominator) for x in seq.time_signatures],
        [(True, m_) for m_ in meters], approx=(0,)),
            'every declared time signature at the time it occurs')
  if not tempos:
    # "If no tempos are found, create a default tempo of 120 qpm"
    tempos = [(0, 120.0)]
  c.check(len(seq.tempos) == len(tempos) and bool(c.And(
      [c.And(c.approx(a.time, t_, 1e-9), c.approx(a.qpm, q_, 1e-9))
       for a, (t_, q_) in zip(seq.tempos, tempos)] or [True])),
          'tempo marks at the times they occur')
  c.check(len(seq.part_infos) == len(parts_xml), 'one part_info per part')
  c.check(all(bool(c.eq(pinf.part, pi)) and pinf.name == part_midi[pi][2]
              for pi, pinf in enumerate(seq.part_infos)),
          'part_infos: part index and <part-name> (empty for a part without '
          '<score-part>)')
  # ---- chord symbols
  c.check(len(seq.text_annotations) == len(chords),
          'one chord-symbol annotation per <harmony>')
  alter_str = {-2: 'bb', -1: 'b', 0: '', 1: '#', 2: '##'}
  for ta, (tm, hm) in zip(seq.text_annotations, chords):
    if hm['kind'] == 'none':
      want = 'N.C.'
    else:
      want = hm['root'] + alter_str[c.concretize(hm['ra'])] + _KIND[hm['kind']]
      for dv, dt, da in hm['degrees']:
        da = c.concretize(da)
        if dt == 'add':
          want += '(%s%d)' % (alter_str[da] or 'add', dv)
        elif dt == 'subtract':
          want += '(no%d)' % dv
        else:
          want += '(%s%d)' % (alter_str[da], dv)
      if 'bass' in hm:
        want += '/' + hm['bass'][0] + alter_str[c.concretize(hm['bass'][1])]
    c.check(ta.text == want,
            'chord symbol figure: root, kind, degrees, bass as declared')
    c.check(c.eq(ta.annotation_type, pb.NoteSequence.TextAnnotation.CHORD_SYMBOL),
            'annotation type CHORD_SYMBOL')
    c.check(c.approx(ta.time, tm, 1e-9),
            'chord symbol at the time it occurs (cursor + <offset>)')
  if tpl == 'single':
    c.cover('alteration crossing an octave boundary (C flat / B sharp)',
            c.Or(c.And(b.vals['n0_alter'] < 0, steps[0] == 'C'),
                 c.And(b.vals['n0_alter'] > 0, steps[0] == 'B')))


_MIME = 'application/vnd.recordare.musicxml+xml'


def _container(rootfiles):
  return ('<?xml version="1.0" encoding="UTF-8"?><container><rootfiles>' +
          ''.join('<rootfile full-path="%s"%s/>' %
                  (path, ' media-type="%s"' % mt if mt else '')
                  for path, mt in rootfiles) + '</rootfiles></container>')


def _write_mxl(path, members):
  with zipfile.ZipFile(path, 'w', zipfile.ZIP_DEFLATED) as z:
    for name, data in members:
      z.writestr(name, data)


def h_file(c):
  """The same score as a plain .xml file and inside .mxl containers: read from
  disk by musicxml_file_to_sequence_proto (no patching).  The numeric leaves
  are solver-chosen but written as text, so every path is a concrete file."""
  mr = c.mod('musicxml_reader')
  D = c.params['divisions']
  beats, beat_type = c.params['meter']
  qpm = c.params['qpm']
  mode = c.params.get('mode')
  measure_len = D * 4 * beats // beat_type
  octv = c.concretize(c.int('n0_oct', 0, 9))
  alter = c.concretize(c.int('n0_alter', -2, 2))
  d0 = c.int('n0_dur', 1, measure_len - 1)
  d0 = c.concretize(d0)
  d1 = measure_len - d0
  fifths = c.concretize(c.int('fifths', -1, 1))
  chan = c.concretize(c.int('chan', 1, 2))
  variant = c.choice('container', ['typed', 'untyped', 'other_first'])

  def note(step, alt, o, d):
    return ('<note><pitch><step>%s</step><alter>%d</alter><octave>%d</octave>'
            '</pitch><duration>%d</duration><voice>1</voice><type>quarter'
            '</type></note>' % (step, alt, o, d))

  score = (
      '<?xml version="1.0" encoding="UTF-8"?>\n<score-partwise version="3.0">'
      '<work><work-title>Title é</work-title></work><identification>'
      '<creator type="composer">Composer</creator></identification>'
      '<part-list><score-part id="P1"><part-name>Solo</part-name>'
      '<midi-instrument id="P1-I1"><midi-channel>%d</midi-channel>'
      '<midi-program>7</midi-program></midi-instrument></score-part>'
      '</part-list>\n<part id="P1"><measure number="1"><attributes><divisions>'
      '%d</divisions><key><fifths>%d</fifths>%s</key><time><beats>%d</beats>'
      '<beat-type>%d</beat-type></time></attributes><direction><sound tempo='
      '"%s"/></direction>%s%s</measure></part></score-partwise>\n' %
      (chan, D, fifths, '<mode>%s</mode>' % mode if mode else '', beats,
       beat_type, repr(float(qpm)), note('B', alter, octv, d0),
       note('C', 0, 4, d1))).encode('utf-8')
  if variant == 'typed':
    members = [('META-INF/container.xml', _container([('score.xml', _MIME)])),
               ('score.xml', score)]
  elif variant == 'untyped':
    # the media-type attribute is optional
    members = [('META-INF/container.xml',
                _container([('sub/the score.xml', None)])),
               ('sub/the score.xml', score)]
  else:
    # further root files of other types (a rendering) may be listed
    members = [('score.pdf', b'%PDF-1.4'),
               ('META-INF/container.xml',
                _container([('score.pdf', 'application/pdf'),
                            ('score.xml', _MIME)])), ('score.xml', score)]
  tmp = tempfile.mkdtemp(prefix='c05_')
  try:
    with open(os.path.join(tmp, 'score.xml'), 'wb') as f:
      f.write(score)
    _write_mxl(os.path.join(tmp, 'score.mxl'), members)
    seq = mr.musicxml_file_to_sequence_proto(os.path.join(tmp, 'score.xml'))
    seq_z = mr.musicxml_file_to_sequence_proto(os.path.join(tmp, 'score.mxl'))
  finally:
    shutil.rmtree(tmp, ignore_errors=True)
  c.check(c.msg_eq(seq, seq_z),
          'the compressed .mxl yields the same NoteSequence as the plain .xml')
  spd = (60.0 / qpm) / D
  exp = [(12 * (octv + 1) + 11 + alter, 0, d0 * spd, 1, 0, chan, 7),
         (60, d0 * spd, measure_len * spd, 1, 0, chan, 7)]
  for s_, label in ((seq, '.xml'), (seq_z, '.mxl')):
    got = [(n.pitch, n.start_time, n.end_time, n.voice, n.part, n.instrument,
            n.program) for n in s_.notes]
    c.check(K.multiset_eq(c, got, [(True, e) for e in exp], approx=(1, 2)),
            'notes of the score read from a %s file' % label)
    tonic = (fifths * 7 + (9 if mode == 'minor' else 0)) % 12
    c.check(len(s_.key_signatures) == 1 and
            bool(c.And(c.eq(s_.key_signatures[0].key, tonic),
                       c.eq(s_.key_signatures[0].mode,
                            1 if mode == 'minor' else 0),
                       c.eq(s_.key_signatures[0].time, 0))) and
            len(s_.time_signatures) == 1 and
            bool(c.And(c.eq(s_.time_signatures[0].numerator, beats),
                       c.eq(s_.time_signatures[0].denominator, beat_type))) and
            len(s_.tempos) == 1 and
            bool(c.And(c.approx(s_.tempos[0].qpm, float(qpm), 1e-9),
                       c.eq(s_.tempos[0].time, 0))),
            'key, meter and tempo of the score read from a %s file' % label)
    c.check(s_.sequence_metadata.title == u'Title é' and
            list(s_.sequence_metadata.composers) == ['Composer'] and
            len(s_.part_infos) == 1 and s_.part_infos[0].name == 'Solo',
            'work title, composer and part name of the %s file' % label)
  c.cover('B sharp / C flat region in a file', alter != 0)


_GOOD_NOTE = ('<note><pitch><step>C</step><octave>4</octave></pitch><duration>4'
              '</duration><voice>1</voice><type>whole</type></note>')
_GOOD_ATTR = ('<divisions>1</divisions><key><fifths>0</fifths></key><time>'
              '<beats>4</beats><beat-type>4</beat-type></time>')


def _wrap_score(measure):
  return ('<score-partwise><part-list><score-part id="P1"><part-name>x'
          '</part-name></score-part></part-list><part id="P1"><measure '
          'number="1">%s</measure></part></score-partwise>' % measure)


def _harmony(kind='major', extra=''):
  return ('<harmony><root><root-step>C</root-step></root><kind>%s</kind>%s'
          '</harmony>' % (kind, extra))


# name -> (file name, bytes | list of zip members): inputs that are NOT valid
# MusicXML files / scores the parser documents as unsupported
_INVALID = {
    'not_xml': ('a.xml', b'<score-partwise><part-list>'),
    'not_a_zip': ('a.mxl', b'<score-partwise/>'),
    'mxl_without_container': ('a.mxl', [('score.xml', _wrap_score(
        '<attributes>' + _GOOD_ATTR + '</attributes>' + _GOOD_NOTE))]),
    'mxl_two_scores': ('a.mxl', [
        ('META-INF/container.xml', _container([('a.xml', _MIME),
                                               ('b.xml', _MIME)])),
        ('a.xml', _wrap_score('<attributes>' + _GOOD_ATTR + '</attributes>' +
                              _GOOD_NOTE)),
        ('b.xml', _wrap_score('<attributes>' + _GOOD_ATTR + '</attributes>' +
                              _GOOD_NOTE))]),
    'mxl_missing_member': ('a.mxl', [
        ('META-INF/container.xml', _container([('gone.xml', _MIME)]))]),
    'mxl_member_not_xml': ('a.mxl', [
        ('META-INF/container.xml', _container([('a.xml', _MIME)])),
        ('a.xml', '<score-partwise>')]),
    'unpitched': ('a.xml', _wrap_score(
        '<attributes>' + _GOOD_ATTR + '</attributes><note><unpitched>'
        '<display-step>E</display-step><display-octave>4</display-octave>'
        '</unpitched><duration>4</duration><voice>1</voice><type>whole</type>'
        '</note>')),
    'step_Q': ('a.xml', _wrap_score(
        '<attributes>' + _GOOD_ATTR + '</attributes>' +
        _GOOD_NOTE.replace('<step>C', '<step>Q'))),
    'note_type': ('a.xml', _wrap_score(
        '<attributes>' + _GOOD_ATTR + '</attributes>' +
        _GOOD_NOTE.replace('whole', 'semibreve'))),
    'two_time': ('a.xml', _wrap_score(
        '<attributes>' + _GOOD_ATTR + '<time><beats>3</beats><beat-type>4'
        '</beat-type></time></attributes>' + _GOOD_NOTE)),
    'alternating_time': ('a.xml', _wrap_score(
        '<attributes><divisions>1</divisions><time><beats>2</beats><beat-type>'
        '4</beat-type><beats>3</beats><beat-type>8</beat-type></time>'
        '</attributes>' + _GOOD_NOTE)),
    'composite_time': ('a.xml', _wrap_score(
        '<attributes><divisions>1</divisions><time><beats>3+2</beats>'
        '<beat-type>8</beat-type></time></attributes>' + _GOOD_NOTE)),
    'key_without_fifths': ('a.xml', _wrap_score(
        '<attributes><divisions>1</divisions><key><mode>major</mode></key>'
        '</attributes>' + _GOOD_NOTE)),
    'unknown_kind': ('a.xml', _wrap_score(
        '<attributes>' + _GOOD_ATTR + '</attributes>' + _harmony('tristan') +
        _GOOD_NOTE)),
    'degree_alter_zero': ('a.xml', _wrap_score(
        '<attributes>' + _GOOD_ATTR + '</attributes>' + _harmony(
            'major', '<degree><degree-value>5</degree-value><degree-alter>0'
            '</degree-alter><degree-type>alter</degree-type></degree>') +
        _GOOD_NOTE)),
    'degree_type': ('a.xml', _wrap_score(
        '<attributes>' + _GOOD_ATTR + '</attributes>' + _harmony(
            'major', '<degree><degree-value>5</degree-value><degree-alter>1'
            '</degree-alter><degree-type>raise</degree-type></degree>') +
        _GOOD_NOTE)),
    'root_alter_3': ('a.xml', _wrap_score(
        '<attributes>' + _GOOD_ATTR + '</attributes>' +
        _harmony().replace('</root-step>',
                           '</root-step><root-alter>3</root-alter>') +
        _GOOD_NOTE)),
    'harmony_without_root': ('a.xml', _wrap_score(
        '<attributes>' + _GOOD_ATTR + '</attributes><harmony><kind>major'
        '</kind></harmony>' + _GOOD_NOTE)),
    'harmony_in_transposed_part': ('a.xml', _wrap_score(
        '<attributes>' + _GOOD_ATTR + '<transpose><chromatic>-2</chromatic>'
        '</transpose></attributes>' + _harmony() + _GOOD_NOTE)),
}


def h_invalid(c):
  """A file that is not a MusicXML file, or a score the parser documents as
  unsupported, raises MusicXMLConversionError (never another exception, never
  a NoteSequence); the valid twin of the same file converts."""
  mr = c.mod('musicxml_reader')
  names = c.params['cases']
  name = c.choice('case', names)
  fname, data = _INVALID[name]
  tmp = tempfile.mkdtemp(prefix='c05_')
  try:
    path = os.path.join(tmp, fname)
    if isinstance(data, list):
      _write_mxl(path, data)
    else:
      with open(path, 'wb') as f:
        f.write(data if isinstance(data, bytes) else data.encode('utf-8'))
    res, err = c.raises(mr.musicxml_file_to_sequence_proto, path)
    # control: the well-formed score of the same shape converts
    good = os.path.join(tmp, 'good.xml')
    with open(good, 'w') as f:
      f.write(_wrap_score('<attributes>' + _GOOD_ATTR + '</attributes>' +
                          _harmony() + _GOOD_NOTE))
    res2, err2 = c.raises(mr.musicxml_file_to_sequence_proto, good)
  finally:
    shutil.rmtree(tmp, ignore_errors=True)
  c.check(res is None and isinstance(err, mr.MusicXMLConversionError),
          'an invalid or unsupported file raises MusicXMLConversionError')
  c.check(err2 is None and len(res2.notes) == 1 and
          len(res2.text_annotations) == 1 and res2.text_annotations[0].text ==
          'C', 'the well-formed twin converts')
  c.cover('an invalid .mxl container', fname.endswith('.mxl'))
  c.cover('an unsupported score', name == 'unpitched')


HARNESSES = {'h_score': h_score, 'h_file': h_file, 'h_invalid': h_invalid}


def jobs(tier):
  J = []

  def add(budget=600, required=True, **params):
    params.setdefault('divisions', 2)
    params.setdefault('meter', [4, 4])
    params.setdefault('qpm', 120)
    J.append({'harness': 'h_score', 'params': params, 'budget_s': budget,
              'required': required})

  deep = tier == 'thorough'
  add(template='single', notes=1, steps=['C'], mode='major')
  add(template='single', notes=1, steps=['B'], mode='minor')
  add(template='single', notes=2, steps=['F', 'A'], mode=None, qpm=97.3)
  add(template='single', notes=2, steps=['D', 'G'], transpose=True,
      meter=[3, 4])
  add(template='chord', mode='minor', meter=[6, 8], divisions=4)
  add(template='rest', mode='dorian')
  add(template='two_voices', divisions=4)
  # a backup that is not a whole number of quarter notes (3/8, 2 divisions)
  add(template='two_voices', divisions=2, meter=[3, 8], qpm=90)
  add(template='two_measures', qpm=60, qpm2=120)
  add(template='two_parts', transpose=True)
  add(template='retranspose', transpose=True)
  add(template='key_changes', mode='minor')
  add(template='key_changes', mode='major', meter=[3, 4], qpm=90)
  add(template='harmony', harmony={'root': 'C', 'kind': 'major'})
  add(template='harmony', harmony={'root': 'F', 'kind': 'minor-seventh',
                                   'degree': [9, 'add'], 'bass': 'A'})
  add(template='harmony', harmony={'root': 'B', 'kind': 'dominant',
                                   'degree': [5, 'alter'], 'offset': True})
  add(template='harmony', harmony={'root': 'G', 'kind': 'major-seventh',
                                   'degree': [3, 'subtract'], 'bass': 'D',
                                   'offset': True}, meter=[3, 4], qpm=90)
  add(template='harmony', harmony={'root': 'D', 'kind': 'none'})
  # measure length in divisions equal to the meter numerator (pickup boundary)
  add(template='two_measures', divisions=1, meter=[4, 4], qpm=120, qpm2=120)
  add(template='two_measures', divisions=1, meter=[3, 4], qpm=120, qpm2=90)
  add(template='single', notes=2, steps=['C', 'D'], mode='major', divisions=2,
      meter=[6, 8])
  add(template='single', notes=2, steps=['C', 'D'], mode='major', divisions=1,
      meter=[6, 4])
  # ---- defaults: a score without tempo mark / without key / both
  add(template='single', notes=2, steps=['C', 'G'], mode=None, no_tempo=True)
  add(template='two_voices', no_tempo=True, no_key=True, meter=[3, 4])
  add(template='single', notes=1, steps=['E'], mode=None, no_key=True, qpm=90)
  # tempo="0" stands for the default tempo
  add(template='single', notes=1, steps=['A'], mode=None, qpm=0)
  # a tempo mark between two notes of a measure
  add(template='single', notes=2, steps=['E', 'B'], mode=None, qpm=90,
      tempo_mid=60)
  # sounding key of a transposing part.
  # (F-C05-c, fixed: fifths + (-5*transpose mod 12) >= 13 was folded with
  # `%= -6`: <fifths>3</fifths> with <chromatic>-2</chromatic> was reported as
  # Db major instead of G major)
  add(template='single', notes=1, steps=['D'], transpose=True, tkey='full')
  add(template='single', notes=1, steps=['G'], transpose=True, tkey='full',
      mode='minor', meter=[6, 8])
  # ---- chords of three notes, chords in a second voice
  add(template='chord', mode='major', stack=3, meter=[3, 4], fixed_key=True)
  add(template='two_voices', layout='chord_v2', qpm=90)
  # ---- second voice: padded at the end, entering after a partial backup,
  # padded by its own rest; a measure that begins with a rest
  add(template='two_voices', layout='fwd_last', meter=[3, 4])
  add(template='two_voices', layout='partial', divisions=4, qpm=97.3)
  add(template='two_voices', layout='rest_v2', meter=[6, 8])
  add(template='rest', rest_at=0, mode='minor', qpm=90)
  # ---- dotted notes, tuplets, other note types
  add(template='rhythm', divisions=12,
      patterns=['dots_triplets', 'double_dot', 'whole', 'triplet_quarters'])
  add(template='rhythm', divisions=5, patterns=['quintuplet'], qpm=90)
  add(template='rhythm', divisions=8, patterns=['half_32nds'], meter=[2, 2])
  add(template='rhythm', divisions=1, patterns=['breve'], meter=[4, 2])
  # ---- a measure without notes (only a <forward>, or a whole-measure rest)
  add(template='empty_measure', middle='forward', meter=[3, 4], qpm=90)
  add(template='empty_measure', middle='rest', divisions=1)
  # ---- the meter and / or the divisions change in the second measure
  add(template='meter_change', meter=[4, 4], meter2=[3, 4])
  add(template='meter_change', meter=[6, 8], meter2=[2, 4], divisions2=1,
      qpm=90)
  add(template='meter_change', meter=[3, 4], divisions=1, divisions2=4)
  add(template='meter_change', meter=[3, 4], meter2=[3, 4], divisions=4)
  # ---- several parts: tempo other than the default carried into the later
  # parts, MIDI information on later parts, a part missing from the part
  # list, keys on several parts, parts of different lengths
  add(template='two_parts', transpose=True, qpm=90)
  add(template='parts', n_parts=2, midi=['none', 'both'], qpm=90,
      part_keys=[True, 'own'], part_measures=[1, 2])
  add(template='parts', n_parts=3, midi=['both', 'unlisted', 'both'],
      part_keys=[True, 'same', 'own'], part_measures=[2, 1, 1], mode='minor',
      meter=[3, 4])
  add(template='parts', n_parts=2, midi=['unlisted', 'none'], no_key=True,
      no_tempo=True)
  # KNOWN FINDING F-C05-d: a tempo change in part 0 (the only part that
  # carries the marks) is not applied to the later parts: they are played
  # throughout at the LAST tempo of part 0.  divisions=1, 4/4, part 0 = tempo
  # 60, whole note, tempo 120, whole note; part 1 = two whole notes without
  # marks -> part 1 is reported at 0-2 s and 2-4 s, but the tempo in force
  # gives 0-4 s and 4-6 s (as in part 0)
  add(template='parts_tempo', qpm=60, qpm2=120, divisions=1)
  # (the same template with one tempo, restated in the second measure)
  add(template='parts_tempo', qpm=90, qpm2=90)
  # ---- chord symbols: before the first note, in the second measure after a
  # tempo change, two degrees, offsets at 4 divisions, the remaining kinds
  add(template='harmony', harmony={'root': 'E', 'kind': 'minor', 'pos': 'start',
                                   'offset': True, 'bass': 'G'}, divisions=4)
  add(template='harmony', harmony={'root': 'A', 'kind': 'dominant-13th',
                                   'pos': 'm2', 'offset': True, 'qpm2': 60},
      divisions=4, qpm=90)
  add(template='harmony', harmony={'root': 'D', 'kind': 'suspended-second',
                                   'degrees': [[7, 'add'], [5, 'alter']]},
      meter=[3, 4])
  rest_kinds = sorted(k for k in _KIND if k not in (
      'major', 'minor-seventh', 'dominant', 'major-seventh', 'none',
      'dominant-13th', 'suspended-second', 'minor'))
  add(template='harmony', harmony={'root': 'F', 'kinds': rest_kinds[:20]})
  add(template='harmony', harmony={'root': 'G', 'kinds': rest_kinds[20:]})
  # ---- other divisions of the quantifier
  add(template='single', notes=2, steps=['C', 'A'], mode=None, divisions=3,
      qpm=97.3)
  add(template='two_measures', divisions=960, qpm=90, qpm2=60, meter=[6, 8])
  add(template='two_voices', divisions=12, meter=[3, 8])
  # ---- real files: .xml and .mxl, invalid files
  J.append({'harness': 'h_file', 'budget_s': 600, 'required': True,
            'params': {'divisions': 2, 'meter': [3, 4], 'qpm': 90,
                       'mode': 'minor'}})
  J.append({'harness': 'h_invalid', 'budget_s': 600, 'required': True,
            'params': {'cases': sorted(_INVALID)}})
  if deep:
    J.append({'harness': 'h_file', 'budget_s': 1800, 'required': True,
              'params': {'divisions': 4, 'meter': [6, 8], 'qpm': 97.3,
                         'mode': None}})
    for D in (1, 2, 4, 24):
      for meter in ([4, 4], [3, 4], [6, 8], [2, 2], [3, 8]):
        if (D * 4) % meter[1]:
          # the property quantifies over scores in which a beat is a whole
          # number of divisions (6/8 needs even divisions)
          continue
        for qpm in (60, 97.3, 120):
          add(template='single', notes=2, steps=['E', 'B'], mode='minor',
              divisions=D, meter=meter, qpm=qpm, budget=900)
        add(template='chord', divisions=D, meter=meter, mode='major', budget=900)
        add(template='two_voices', divisions=D, meter=meter, budget=1800)
        add(template='two_measures', divisions=D, meter=meter, qpm=97.3,
            qpm2=60, budget=1800)
        add(template='two_parts', divisions=D, meter=meter, transpose=True,
            budget=1800)
        add(template='retranspose', divisions=D, meter=meter, transpose=True,
            budget=1800)
    for kind in sorted(_KIND12):
      for deg in (None, [9, 'add'], [5, 'alter'], [7, 'subtract']):
        add(template='harmony', divisions=4, budget=900,
            harmony={'root': 'ACEG'[len(kind) % 4], 'kind': kind,
                     'degree': deg, 'bass': 'E', 'offset': True})
    add(template='single', notes=3, steps=['C', 'E', 'G'], mode='major',
        budget=3000, required=False)
    for D in (1, 4, 24):
      for meter in ([4, 4], [3, 4], [6, 8], [3, 8]):
        if (D * 4) % meter[1]:
          continue
        for layout in ('fwd_last', 'partial', 'rest_v2', 'chord_v2'):
          add(template='two_voices', layout=layout, divisions=D, meter=meter,
              qpm=97.3, budget=1800)
        add(template='chord', stack=3, divisions=D, meter=meter, mode='minor',
            fixed_key=True, budget=1800)
        add(template='rest', rest_at=0, divisions=D, meter=meter, budget=900)
        for middle in ('forward', 'rest'):
          add(template='empty_measure', middle=middle, divisions=D,
              meter=meter, qpm=60, budget=900)
        for meter2, D2 in (([2, 4], None), ([5, 4], 2), (None, 8), ([6, 8], 4)):
          add(template='meter_change', divisions=D, meter=meter, meter2=meter2,
              divisions2=D2, qpm=97.3, budget=900)
        add(template='parts', n_parts=3, midi=['both', 'both', 'both'],
            part_keys=[True, 'own', 'own'], part_measures=[1, 2, 2],
            divisions=D, meter=meter, qpm=97.3, budget=1800)
        add(template='parts', n_parts=3, midi=['none', 'unlisted', 'both'],
            part_keys=[True, None, 'same'], part_measures=[2, 1, 2],
            divisions=D, meter=meter, qpm=60, mode='minor', budget=1800)
        add(template='single', notes=2, steps=['F', 'B'], transpose=True,
            tkey='full', divisions=D, meter=meter, budget=1800)
        add(template='single', notes=2, steps=['D', 'A'], mode=None,
            no_tempo=True, no_key=True, divisions=D, meter=meter, budget=900)
        add(template='single', notes=2, steps=['D', 'A'], mode='minor',
            tempo_mid=97.3, qpm=60, divisions=D, meter=meter, budget=900)
    for D in (24, 96, 480):
      add(template='rhythm', divisions=D, budget=900,
          patterns=['dots_triplets', 'double_dot', 'whole', 'triplet_quarters',
                    'half_32nds'])
    for pos in ('start', 'mid', 'm2'):
      for kind in ('minor-major', 'maj69', 'pedal'):
        add(template='harmony', divisions=24, qpm=97.3, budget=900,
            harmony={'root': 'B', 'kind': kind, 'pos': pos, 'offset': True,
                     'degrees': [[11, 'add'], [9, 'alter']], 'bass': 'F',
                     'qpm2': 60})
  return J
