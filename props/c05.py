"""C05 -- MusicXML scores parse to the notes, key, meter and tempo they declare
(tree level: numeric leaves symbolic, structure from templates)."""
import xml.etree.ElementTree as ET

from props import common as K

META = {
    'level': 'model_checking',
    'level_text':
        'The real MusicXMLDocument/Part/Measure/Note/NoteDuration/KeySignature/'
        'TimeSignature/Tempo classes and musicxml_to_sequence_proto are '
        'executed on real ElementTree elements whose STRUCTURE comes from a '
        'small family of score templates and whose NUMERIC LEAVES (durations, '
        'octave, alter, fifths, chromatic transposition, MIDI channel/program, '
        'voice) are symbolic: the text of those elements is replaced by a '
        'SymText object that the shadowed int()/float() of the parser module '
        'unwrap. On every path the solver compares every emitted note (pitch, '
        'onset, end, voice, part, channel, program), the key (tonic and mode), '
        'the time signature and the tempo marks with an independent cursor '
        'model written in the harness.',
    'level_note':
        'Trusted: z3, reals for doubles, symproto. XML tokenisation '
        '(ET.fromstring) and the .mxl zip container are outside the claim: the '
        'harness hands the parser an already built element tree (in the '
        'replay it is the tree ET parses from the same template with the '
        'model values written in as text). Chord symbols (<harmony>) are only '
        'covered for their time position.',
    'functions': [('musicxml_parser', 'MusicXMLDocument._parse'),
                  ('musicxml_parser', 'ScorePart._parse'),
                  ('musicxml_parser', 'Part._parse'),
                  ('musicxml_parser', 'Measure._parse'),
                  ('musicxml_parser', 'Measure._parse_attributes'),
                  ('musicxml_parser', 'Measure._parse_backup'),
                  ('musicxml_parser', 'Measure._parse_forward'),
                  ('musicxml_parser', 'Measure._parse_direction'),
                  ('musicxml_parser', 'Measure._fix_time_signature'),
                  ('musicxml_parser', 'Note._parse'),
                  ('musicxml_parser', 'Note._parse_pitch'),
                  ('musicxml_parser', 'Note.pitch_to_midi_pitch'),
                  ('musicxml_parser', 'NoteDuration.parse_duration'),
                  ('musicxml_parser', 'KeySignature._parse'),
                  ('musicxml_parser', 'TimeSignature._parse'),
                  ('musicxml_parser', 'Tempo._parse'),
                  ('musicxml_parser', 'ChordSymbol._parse'),
                  ('musicxml_parser', 'ChordSymbol._parse_pitch'),
                  ('musicxml_parser', 'ChordSymbol._parse_degree'),
                  ('musicxml_parser', 'ChordSymbol._alter_to_string'),
                  ('musicxml_parser', 'ChordSymbol.get_figure_string'),
                  ('musicxml_reader', 'musicxml_to_sequence_proto')],
    'assumptions': [
        'complete measures (the voice-1 durations of a measure add up to the '
        'declared meter); chord notes carry the duration of the note they are '
        'stacked on',
        'divisions, meter and tempo values are concrete per job (grid); '
        'durations, octave (0..9), alter (-2..2), fifths (-7..7), transpose '
        '(-12..12), MIDI channel/program, voice are symbolic',
        'score structure from the templates single, chord, rest, two_voices, '
        'two_measures, two_parts, retranspose, key_changes (three measures, '
        'each declaring a key, fifths symbolic in -2..2), harmony (one <harmony> '
        'with root / kind / one degree / bass / offset; step letters, kind '
        'and degree value concrete per job, the three alters and the offset '
        'symbolic)',
    ],
    'bounds': {
        'quick': 'templates with <=3 notes per measure, <=2 measures, <=2 parts',
        'thorough': 'all templates x divisions {1,2,4,24} x meters '
                    '{4/4,3/4,6/8,2/2} x tempi {60,97.3,120}',
    },
    'outside': ['XML text / tokenisation', '.mxl container', 'chord symbol '
                'kinds beyond the 12 in the harness table, several degrees '
                'per symbol', 'incomplete (pickup) measures'],
}

# MusicXML <kind> values -> the figure abbreviation used by note_seq
_KIND = {'major': '', 'minor': 'm', 'augmented': 'aug', 'diminished': 'dim',
         'dominant': '7', 'major-seventh': 'maj7', 'minor-seventh': 'm7',
         'half-diminished': 'm7b5', 'suspended-fourth': 'sus',
         'major-sixth': '6', 'dominant-ninth': '9', 'power': '5'}

_STEP_PC = {'C': 0, 'D': 2, 'E': 4, 'F': 5, 'G': 7, 'A': 9, 'B': 11}


class _Builder(object):
  """Builds the XML text with @markers and the registry of leaf values."""

  def __init__(self, c):
    self.c = c
    self.vals = {}

  def num(self, name, value):
    self.vals[name] = value
    return '@' + name

  def finish(self, xml_text):
    c = self.c
    if c.mode == 'sym':
      from engine import symtext  # pylint: disable=g-import-not-at-top
      root = ET.fromstring(xml_text)
      for el in root.iter():
        if el.text and el.text.startswith('@'):
          el.text = symtext.SymText(self.vals[el.text[1:]])
        for k, v in list(el.attrib.items()):
          if v.startswith('@'):
            el.attrib[k] = symtext.SymText(self.vals[v[1:]])
      return root
    txt = xml_text
    for k in sorted(self.vals, key=len, reverse=True):
      v = self.vals[k]
      txt = txt.replace('@' + k, repr(v) if isinstance(v, float) else str(v))
    return ET.fromstring(txt)


def _note_xml(b, i, step, chord=False, rest=False, voice=None, with_alter=True):
  c = b.c
  s = '<note>'
  if chord:
    s += '<chord/>'
  if rest:
    s += '<rest/>'
  else:
    s += '<pitch><step>%s</step>' % step
    if with_alter:
      s += '<alter>%s</alter>' % b.num('n%d_alter' % i, c.int('n%d_alter' % i, -2,
                                                               2))
    else:
      b.vals['n%d_alter' % i] = 0
    s += '<octave>%s</octave></pitch>' % b.num('n%d_oct' % i,
                                               c.int('n%d_oct' % i, 0, 9))
  s += '<duration>%s</duration>' % b.num('n%d_dur' % i, b.vals['n%d_dur' % i])
  if voice is not None:
    s += '<voice>%s</voice>' % b.num('n%d_voice' % i, voice)
  s += '<type>quarter</type></note>'
  return s


def h_score(c):
  mp = c.mod('musicxml_parser')
  mr = c.mod('musicxml_reader')
  pb = c.pb
  tpl = c.params['template']
  D = c.params['divisions']
  beats, beat_type = c.params['meter']
  qpm = c.params['qpm']
  mode = c.params.get('mode')  # 'major' | 'minor' | 'dorian' | None
  b = _Builder(c)
  assert (D * 4) % beat_type == 0, (
      'job outside the property: a beat must be a whole number of divisions')
  measure_len = D * 4 * beats // beat_type
  # the key is symbolic in the single-measure templates; the larger templates
  # (whose paths multiply with the number of notes) use a fixed key
  if tpl == 'key_changes':
    fifths = c.int('fifths', -2, 2)
  else:
    fifths = c.int('fifths', -7, 7) if tpl in ('single', 'chord') else -3
  transpose = c.int('transpose', -12, 12) if c.params.get('transpose') else None
  chan = c.int('chan', 1, 16)
  prog = c.int('prog', 1, 128)

  def attributes(with_key=True, with_transpose=False):
    s = '<attributes><divisions>%d</divisions>' % D
    if with_key:
      s += '<key><fifths>%s</fifths>' % b.num('fifths', fifths)
      if mode:
        s += '<mode>%s</mode>' % mode
      s += '</key>'
    s += '<time><beats>%d</beats><beat-type>%d</beat-type></time>' % (beats,
                                                                      beat_type)
    if with_transpose:
      s += '<transpose><chromatic>%s</chromatic></transpose>' % b.num(
          'transpose', transpose)
    s += '</attributes>'
    return s

  def tempo(q):
    return '<direction><sound tempo="%s"/></direction>' % repr(float(q))

  # ---- templates: each yields XML for the parts and an event script for the
  # harness's own cursor model: ('note', i, step, voice) / ('chord', i, step,
  # voice) / ('rest', i) / ('backup', name) / ('forward', name) / ('tempo', q)
  parts_xml = []
  scripts = []  # per part: list of measures, each a list of script items
  steps = c.params.get('steps', ['C', 'E', 'G'])

  def durs(names, total):
    ds = [c.int(n, 1, max(64, total)) for n in names]
    c.assume(c.eq(c.Sum(ds), total))
    for n, d in zip(names, ds):
      b.vals[n] = d
    return ds

  if tpl == 'single':
    k = c.params.get('notes', 2)
    durs(['n%d_dur' % i for i in range(k)], measure_len)
    xml = '<measure number="1">' + attributes(
        with_transpose=transpose is not None) + tempo(qpm)
    script = [('tempo', qpm)]
    for i in range(k):
      xml += _note_xml(b, i, steps[i % 3], voice=1)
      script.append(('note', i, steps[i % 3], 1))
    xml += '</measure>'
    parts_xml.append(xml)
    scripts.append([script])
  elif tpl == 'chord':
    durs(['n0_dur', 'n2_dur'], measure_len)
    b.vals['n1_dur'] = b.vals['n0_dur']
    xml = ('<measure number="1">' + attributes() + tempo(qpm) +
           _note_xml(b, 0, 'C', voice=1) + _note_xml(b, 1, 'E', chord=True,
                                                     voice=1) +
           _note_xml(b, 2, 'G', voice=1) + '</measure>')
    parts_xml.append(xml)
    scripts.append([[('tempo', qpm), ('note', 0, 'C', 1), ('chord', 1, 'E', 1),
                     ('note', 2, 'G', 1)]])
  elif tpl == 'rest':
    durs(['n0_dur', 'n1_dur', 'n2_dur'], measure_len)
    xml = ('<measure number="1">' + attributes() + tempo(qpm) +
           _note_xml(b, 0, 'D', voice=1) + _note_xml(b, 1, 'C', rest=True,
                                                     voice=1) +
           _note_xml(b, 2, 'B', voice=1) + '</measure>')
    parts_xml.append(xml)
    scripts.append([[('tempo', qpm), ('note', 0, 'D', 1), ('rest', 1),
                     ('note', 2, 'B', 1)]])
  elif tpl == 'two_voices':
    durs(['n0_dur', 'n1_dur'], measure_len)
    fwd = c.int('fwd', 1, 64)
    d2 = c.int('n2_dur', 1, 64)
    c.assume(c.eq(fwd + d2, measure_len))
    b.vals['n2_dur'] = d2
    v2 = c.int('voice2', 2, 4)
    xml = ('<measure number="1">' + attributes() + tempo(qpm) +
           _note_xml(b, 0, 'C', voice=1) + _note_xml(b, 1, 'F', voice=1, with_alter=False) +
           '<backup><duration>%s</duration></backup>' % b.num('bk', measure_len) +
           '<forward><duration>%s</duration></forward>' % b.num('fwd', fwd) +
           _note_xml(b, 2, 'A', voice=v2) + '</measure>')
    parts_xml.append(xml)
    scripts.append([[('tempo', qpm), ('note', 0, 'C', 1), ('note', 1, 'F', 1),
                     ('backup', 'bk'), ('forward', 'fwd'),
                     ('note', 2, 'A', v2)]])
  elif tpl == 'two_measures':
    q2 = c.params['qpm2']
    durs(['n0_dur', 'n1_dur'], measure_len)
    durs(['n2_dur', 'n3_dur'], measure_len)
    xml = ('<measure number="1">' + attributes() + tempo(qpm) +
           _note_xml(b, 0, 'C', voice=1) + _note_xml(b, 1, 'D', voice=1, with_alter=False) +
           '</measure><measure number="2">' + tempo(q2) +
           _note_xml(b, 2, 'E', voice=1, with_alter=False) +
           _note_xml(b, 3, 'F', voice=1, with_alter=False) +
           '</measure>')
    parts_xml.append(xml)
    scripts.append([[('tempo', qpm), ('note', 0, 'C', 1), ('note', 1, 'D', 1)],
                    [('tempo', q2), ('note', 2, 'E', 1), ('note', 3, 'F', 1)]])
  elif tpl == 'key_changes':
    # three measures, each declaring a key (the third may return to the first)
    fs = [fifths, c.int('fifths2', -2, 2), c.int('fifths3', -2, 2)]
    durs(['n0_dur'], measure_len)
    durs(['n1_dur'], measure_len)
    durs(['n2_dur'], measure_len)
    xml = ''
    script = []
    for mi in range(3):
      xml += '<measure number="%d">' % (mi + 1)
      if mi == 0:
        xml += attributes() + tempo(qpm)
        script.append([('tempo', qpm), ('key', fs[0]), ('note', 0, 'C', 1)])
      else:
        xml += ('<attributes><key><fifths>%s</fifths>%s</key></attributes>' %
                (b.num('fifths%d' % (mi + 1), fs[mi]),
                 '<mode>%s</mode>' % mode if mode else ''))
        script.append([('key', fs[mi]), ('note', mi, 'DEF'[mi], 1)])
      xml += _note_xml(b, mi, 'CEF'[mi] if mi == 0 else 'DEF'[mi], voice=1,
                       with_alter=False) + '</measure>'
    parts_xml.append(xml)
    scripts.append(script)
  elif tpl == 'harmony':
    # <harmony> between two notes: root / kind / one degree / bass / offset
    hp = c.params['harmony']
    durs(['n0_dur', 'n1_dur'], measure_len)
    ra = c.int('root_alter', -2, 2)
    hx = ('<harmony><root><root-step>%s</root-step><root-alter>%s</root-alter>'
          '</root><kind>%s</kind>' % (hp['root'], b.num('root_alter', ra),
                                      hp['kind']))
    harmony = {'root': hp['root'], 'ra': ra, 'kind': hp['kind']}
    if hp.get('degree'):
      dv, dt = hp['degree']
      da = c.int('degree_alter', -2, 2)
      if dt == 'alter':
        c.assume(c.Not(c.eq(da, 0)))  # "alter by zero" is not well-formed
      hx += ('<degree><degree-value>%d</degree-value><degree-alter>%s'
             '</degree-alter><degree-type>%s</degree-type></degree>' %
             (dv, b.num('degree_alter', da), dt))
      harmony['degree'] = (dv, dt, da)
    if hp.get('bass'):
      ba = c.int('bass_alter', -2, 2)
      hx += ('<bass><bass-step>%s</bass-step><bass-alter>%s</bass-alter></bass>'
             % (hp['bass'], b.num('bass_alter', ba)))
      harmony['bass'] = (hp['bass'], ba)
    if hp.get('offset'):
      off = c.int('h_offset', -8, 8)
      c.assume(b.vals['n0_dur'] + off >= 0)
      hx += '<offset>%s</offset>' % b.num('h_offset', off)
      harmony['offset'] = off
    hx += '</harmony>'
    xml = ('<measure number="1">' + attributes() + tempo(qpm) +
           _note_xml(b, 0, 'C', voice=1) + hx +
           _note_xml(b, 1, 'E', voice=1, with_alter=False) + '</measure>')
    parts_xml.append(xml)
    scripts.append([[('tempo', qpm), ('note', 0, 'C', 1),
                     ('harmony', harmony), ('note', 1, 'E', 1)]])
  elif tpl == 'retranspose':
    # a transposing part that changes its transposition in the second measure
    # (possibly back to concert pitch: <chromatic>0</chromatic>)
    t2 = c.int('transpose2', -12, 12)
    durs(['n0_dur'], measure_len)
    durs(['n1_dur'], measure_len)
    xml = ('<measure number="1">' + attributes(with_transpose=True) +
           tempo(qpm) + _note_xml(b, 0, 'C', voice=1) +
           '</measure><measure number="2"><attributes><transpose><chromatic>%s'
           '</chromatic></transpose></attributes>' % b.num('transpose2', t2) +
           _note_xml(b, 1, 'G', voice=1, with_alter=False) + '</measure>')
    parts_xml.append(xml)
    scripts.append([[('tempo', qpm), ('transpose', transpose),
                     ('note', 0, 'C', 1)],
                    [('transpose', t2), ('note', 1, 'G', 1)]])
  elif tpl == 'two_parts':
    durs(['n0_dur', 'n1_dur'], measure_len)
    durs(['n2_dur'], measure_len)
    xml1 = ('<measure number="1">' + attributes() + tempo(qpm) +
            _note_xml(b, 0, 'C', voice=1) +
            _note_xml(b, 1, 'G', voice=1, with_alter=False) + '</measure>')
    xml2 = ('<measure number="1">' + attributes(with_key=False,
                                                with_transpose=True) +
            _note_xml(b, 2, 'B', voice=1) + '</measure>')
    parts_xml += [xml1, xml2]
    scripts.append([[('tempo', qpm), ('note', 0, 'C', 1), ('note', 1, 'G', 1)]])
    scripts.append([[('note', 2, 'B', 1)]])
  else:
    raise ValueError(tpl)

  score = '<score-partwise><part-list>'
  for pi in range(len(parts_xml)):
    score += '<score-part id="P%d"><part-name>Part %d</part-name>' % (pi, pi)
    if pi == 0:
      score += ('<midi-instrument id="P0-I1"><midi-channel>%s</midi-channel>'
                '<midi-program>%s</midi-program></midi-instrument>' %
                (b.num('chan', chan), b.num('prog', prog)))
    score += '</score-part>'
  score += '</part-list>'
  for pi, px in enumerate(parts_xml):
    score += '<part id="P%d">%s</part>' % (pi, px)
  score += '</score-partwise>'
  tree = b.finish(score)

  # hand the prepared tree to the real document class
  orig = mp.MusicXMLDocument._get_score
  mp.MusicXMLDocument._get_score = staticmethod(lambda filename: tree)
  try:
    doc = mp.MusicXMLDocument('in-memory')
  finally:
    mp.MusicXMLDocument._get_score = orig
  seq = mr.musicxml_to_sequence_proto(doc)

  # ---- independent cursor model
  exp = []
  cur_qpm = 120.0
  tempos = []
  chords = []
  keys = []
  for pi, measures in enumerate(scripts):
    t = 0
    tr = 0
    if tpl == 'two_parts' and pi == 1:
      tr = transpose
    elif transpose is not None and tpl == 'single':
      tr = transpose
    last_onset = 0
    for m in measures:
      for item in m:
        if item[0] == 'tempo':
          cur_qpm = float(item[1])
          if pi == 0:
            tempos.append((t, cur_qpm))
        elif item[0] == 'transpose':
          tr = item[1]
        elif item[0] == 'key':
          keys.append((t, item[1]))
        elif item[0] == 'harmony':
          hm = item[1]
          chords.append((t + hm.get('offset', 0) * (60.0 / cur_qpm) / D, hm))
        elif item[0] in ('note', 'chord', 'rest'):
          i = item[1]
          dur = b.vals['n%d_dur' % i]
          secs = dur * (60.0 / cur_qpm) / D
          onset = last_onset if item[0] == 'chord' else t
          if item[0] != 'rest':
            step, voice = item[2], item[3]
            pitch = (12 * (b.vals['n%d_oct' % i] + 1) + _STEP_PC[step] +
                     b.vals['n%d_alter' % i] + tr)
            exp.append((True, (pitch, onset, onset + secs, voice, pi,
                               chan if pi == 0 else 0, prog if pi == 0 else 0)))
          if item[0] != 'chord':
            last_onset = t
            t = t + secs
        elif item[0] == 'backup':
          t = t - b.vals[item[1]] * (60.0 / cur_qpm) / D
        elif item[0] == 'forward':
          t = t + b.vals[item[1]] * (60.0 / cur_qpm) / D
  got = [(n.pitch, n.start_time, n.end_time, n.voice, n.part, n.instrument,
          n.program) for n in seq.notes]
  # times are compared up to 1e-9 relative: the parser multiplies by the
  # concrete double STANDARD_PPQ / divisions, which is not exact for e.g. 24
  # divisions, while the reference divides exactly
  c.check(K.multiset_eq(c, got, exp, approx=(1, 2)),
          'one note per pitched <note>: pitch = step/alter/octave + '
          'transposition, onset/duration by the cursor arithmetic, voice, '
          'part, MIDI channel and program')
  # ---- key, meter, tempo
  c.check(len(seq.key_signatures) >= 1, 'a key signature is reported')
  ks = seq.key_signatures[0]
  eff = fifths
  if transpose is not None and tpl in ('single', 'retranspose'):
    # the written key moves with the part's transposition; only checked for
    # the untransposed templates
    eff = None
  if eff is not None:
    tonic = (eff * 7) % 12
    if mode == 'minor':
      # <fifths> counts accidentals; the tonic of a minor key lies a minor
      # third below the major tonic with the same signature (0 fifths + minor
      # = A minor)
      want_key, want_mode = (tonic + 9) % 12, 1
    else:
      want_key, want_mode = tonic, 0
    c.check(c.eq(ks.key, want_key), 'key tonic from <fifths>')
    c.check(c.eq(ks.mode, want_mode), 'major or minor from <mode>')
    c.check(c.eq(ks.time, 0), 'key signature at the time it occurs')
  if tpl == 'key_changes':
    c.check(len(seq.key_signatures) == len(keys),
            'one key signature per declared key, also when an earlier key '
            'returns')
    for ks_, (kt, kf) in zip(seq.key_signatures, keys):
      tonic_ = (kf * 7) % 12
      if mode == 'minor':
        tonic_ = (tonic_ + 9) % 12
      c.check(c.And(c.approx(ks_.time, kt, 1e-9), c.eq(ks_.key, tonic_),
                    c.eq(ks_.mode, 1 if mode == 'minor' else 0)),
              'every key signature at the time it occurs')
  c.check(len(seq.time_signatures) >= 1 and
          bool(c.And(c.eq(seq.time_signatures[0].numerator, beats),
                     c.eq(seq.time_signatures[0].denominator, beat_type),
                     c.eq(seq.time_signatures[0].time, 0))),
          'declared time signature at time 0')
  c.check(len(seq.time_signatures) == 1,
          'complete measures add no further time signatures')
  c.check(len(seq.tempos) == len(tempos) and bool(c.And(
      [c.And(c.approx(a.time, t_, 1e-9), c.approx(a.qpm, q_, 1e-9))
       for a, (t_, q_) in zip(seq.tempos, tempos)] or [True])),
          'tempo marks at the times they occur')
  c.check(len(seq.part_infos) == len(parts_xml), 'one part_info per part')
  # ---- chord symbols
  c.check(len(seq.text_annotations) == len(chords),
          'one chord-symbol annotation per <harmony>')
  alter_str = {-2: 'bb', -1: 'b', 0: '', 1: '#', 2: '##'}
  for ta, (tm, hm) in zip(seq.text_annotations, chords):
    if hm['kind'] == 'none':
      want = 'N.C.'
    else:
      want = hm['root'] + alter_str[c.concretize(hm['ra'])] + _KIND[hm['kind']]
      if 'degree' in hm:
        dv, dt, da = hm['degree']
        da = c.concretize(da)
        if dt == 'add':
          want += '(%s%d)' % (alter_str[da] or 'add', dv)
        elif dt == 'subtract':
          want += '(no%d)' % dv
        else:
          want += '(%s%d)' % (alter_str[da], dv)
      if 'bass' in hm:
        want += '/' + hm['bass'][0] + alter_str[c.concretize(hm['bass'][1])]
    c.check(ta.text == want,
            'chord symbol figure: root, kind, degrees, bass as declared')
    c.check(c.eq(ta.annotation_type, pb.NoteSequence.TextAnnotation.CHORD_SYMBOL),
            'annotation type CHORD_SYMBOL')
    c.check(c.approx(ta.time, tm, 1e-9),
            'chord symbol at the time it occurs (cursor + <offset>)')
  if tpl == 'single':
    c.cover('alteration crossing an octave boundary (C flat / B sharp)',
            c.Or(c.And(b.vals['n0_alter'] < 0, steps[0] == 'C'),
                 c.And(b.vals['n0_alter'] > 0, steps[0] == 'B')))


HARNESSES = {'h_score': h_score}


def jobs(tier):
  J = []

  def add(budget=600, required=True, **params):
    params.setdefault('divisions', 2)
    params.setdefault('meter', [4, 4])
    params.setdefault('qpm', 120)
    J.append({'harness': 'h_score', 'params': params, 'budget_s': budget,
              'required': required})

  deep = tier == 'thorough'
  add(template='single', notes=1, steps=['C'], mode='major')
  add(template='single', notes=1, steps=['B'], mode='minor')
  add(template='single', notes=2, steps=['F', 'A'], mode=None, qpm=97.3)
  add(template='single', notes=2, steps=['D', 'G'], transpose=True,
      meter=[3, 4])
  add(template='chord', mode='minor', meter=[6, 8], divisions=4)
  add(template='rest', mode='dorian')
  add(template='two_voices', divisions=4)
  # a backup that is not a whole number of quarter notes (3/8, 2 divisions)
  add(template='two_voices', divisions=2, meter=[3, 8], qpm=90)
  add(template='two_measures', qpm=60, qpm2=120)
  add(template='two_parts', transpose=True)
  add(template='retranspose', transpose=True)
  add(template='key_changes', mode='minor')
  add(template='key_changes', mode='major', meter=[3, 4], qpm=90)
  add(template='harmony', harmony={'root': 'C', 'kind': 'major'})
  add(template='harmony', harmony={'root': 'F', 'kind': 'minor-seventh',
                                   'degree': [9, 'add'], 'bass': 'A'})
  add(template='harmony', harmony={'root': 'B', 'kind': 'dominant',
                                   'degree': [5, 'alter'], 'offset': True})
  add(template='harmony', harmony={'root': 'G', 'kind': 'major-seventh',
                                   'degree': [3, 'subtract'], 'bass': 'D',
                                   'offset': True}, meter=[3, 4], qpm=90)
  add(template='harmony', harmony={'root': 'D', 'kind': 'none'})
  # measure length in divisions equal to the meter numerator (pickup boundary)
  add(template='two_measures', divisions=1, meter=[4, 4], qpm=120, qpm2=120)
  add(template='two_measures', divisions=1, meter=[3, 4], qpm=120, qpm2=90)
  add(template='single', notes=2, steps=['C', 'D'], mode='major', divisions=2,
      meter=[6, 8])
  add(template='single', notes=2, steps=['C', 'D'], mode='major', divisions=1,
      meter=[6, 4])
  if deep:
    for D in (1, 2, 4, 24):
      for meter in ([4, 4], [3, 4], [6, 8], [2, 2], [3, 8]):
        if (D * 4) % meter[1]:
          # the property quantifies over scores in which a beat is a whole
          # number of divisions (6/8 needs even divisions)
          continue
        for qpm in (60, 97.3, 120):
          add(template='single', notes=2, steps=['E', 'B'], mode='minor',
              divisions=D, meter=meter, qpm=qpm, budget=900)
        add(template='chord', divisions=D, meter=meter, mode='major', budget=900)
        add(template='two_voices', divisions=D, meter=meter, budget=1800)
        add(template='two_measures', divisions=D, meter=meter, qpm=97.3,
            qpm2=60, budget=1800)
        add(template='two_parts', divisions=D, meter=meter, transpose=True,
            budget=1800)
        add(template='retranspose', divisions=D, meter=meter, transpose=True,
            budget=1800)
    for kind in sorted(_KIND):
      for deg in (None, [9, 'add'], [5, 'alter'], [7, 'subtract']):
        add(template='harmony', divisions=4, budget=900,
            harmony={'root': 'ACEG'[len(kind) % 4], 'kind': kind,
                     'degree': deg, 'bass': 'E', 'offset': True})
    add(template='single', notes=3, steps=['C', 'E', 'G'], mode='major',
        budget=3000, required=False)
  return J
