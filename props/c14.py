"""C14 -- applying the sustain pedal holds exactly the notes the pedal holds."""
from props import common as K

META = {
    'level': 'model_checking',
    'level_text':
        'The real apply_sustain_control_changes (an event-loop over a sorted '
        'note/pedal stream) is executed symbolically for N notes and P control '
        'changes with all times, values, pitches, instruments and drum flags '
        'free, and on every path its output is compared by the solver with a '
        'declarative first-order specification (pedal state at the note end; '
        'new end = min of next release, next same-pitch onset, end of piece). '
        'Coinciding times are explored as the == side of every comparison.',
    'level_note':
        'Trusted: z3, reals for doubles, symproto (validated per sampled path '
        'on upb). Assumes the property\'s own precondition (no overlapping '
        'same-pitch notes on one instrument) and notes of positive length.',
    'functions': [('sequences_lib', 'apply_sustain_control_changes')],
    'assumptions': [
        'double fields are exact reals',
        'no two notes of one pitch on one instrument overlap; every note has '
        'end > start (zero-length notes are outside the claim)',
        'instruments in {0,1} (note 0 on instrument 0 w.l.o.g.), pitches in {60,61}, control numbers in 63..65, '
        'control values 0..127',
    ],
    'bounds': {
        'quick': '(notes, pedal events) in {(1,1),(1,2),(2,1),(2,2),(3,1)}',
        'thorough': 'adds (2,3),(3,2) under a wall-clock budget (not '
                    'required to finish)',
    },
    'outside': ['more than 3 notes / 3 pedal events', 'zero-length notes',
                'overlapping same-pitch notes'],
}


def h_sustain(c):
  N, P = c.params['N'], c.params['P']
  pb, sl = c.pb, c.mod('sequences_lib')
  ns = pb.NoteSequence()
  notes = []
  for i in range(N):
    s = c.real('n%d_s' % i, 0)
    e = c.real('n%d_e' % i)
    c.assume(e >= s)  # zero-duration notes are legal NoteSequence notes
    p = c.int('n%d_p' % i, 60, 61)
    # instruments are concrete per job (all assignments are enumerated as
    # separate jobs so that they run in parallel)
    ins = c.params['ni'][i]
    d = c.bool('n%d_d' % i)
    v = c.int('n%d_v' % i, 1, 127)
    ns.notes.add(start_time=s, end_time=e, pitch=p, instrument=ins, is_drum=d,
                 velocity=v)
    notes.append(dict(s=s, e=e, p=p, i=ins, d=d, v=v))
  for a in range(N):
    for b in range(a + 1, N):
      A, B = notes[a], notes[b]
      # no two overlapping notes of one pitch on one instrument (two notes
      # starting together overlap, also when one of them has no duration)
      c.assume(c.Or(c.Not(c.eq(A['p'], B['p'])), A['i'] != B['i'], A['d'],
                    B['d'],
                    c.And(c.Or(A['e'] <= B['s'], B['e'] <= A['s']),
                          c.Not(c.eq(A['s'], B['s'])))))
  ccs = []
  for j in range(P):
    t = c.real('c%d_t' % j, 0)
    num = c.int('c%d_n' % j, 63, 65) if c.params.get(
        'sustain_number', 64) == 64 else c.int('c%d_n' % j, 64, 66)
    val = c.int('c%d_v' % j, 0, 127)
    ins = c.params['ci'][j]
    ns.control_changes.add(time=t, control_number=num, control_value=val,
                           instrument=ins)
    ccs.append(dict(t=t, n=num, v=val, i=ins))
  tt = c.real('tt', 0)
  for n in notes:
    c.assume(n['e'] <= tt)
  ns.total_time = tt
  before = c.snapshot(ns)
  snum = c.params.get('sustain_number', 64)
  if snum == 64:
    out = sl.apply_sustain_control_changes(ns)
  else:
    out = sl.apply_sustain_control_changes(ns, sustain_control_number=snum)
  c.check(c.msg_eq(ns, before), 'input unchanged')
  c.check(len(out.notes) == N, 'no note removed or invented')
  # ---- declarative specification
  sus = [cc for cc in ccs]  # events that count: control number 64
  is_sus = lambda cc: c.eq(cc['n'], snum)
  is_on = lambda cc: cc['v'] >= 64
  # last event time of the piece (non-drum note starts/ends, sustain events)
  times = []
  for n in notes:
    times.append((c.Not(n['d']), n['s']))
    times.append((c.Not(n['d']), n['e']))
  for cc in ccs:
    times.append((is_sus(cc), cc['t']))
  last = c.Max([0] + [c.If(cd, t, 0) for cd, t in times])
  any_down = c.Or([c.And(is_sus(cc), is_on(cc)) for cc in ccs] or [False])
  for idx, n in enumerate(notes):
    m = out.notes[idx]
    same_i = [cc for cc in ccs if cc['i'] == n['i']]
    # pedal state when this note's NOTE_OFF is processed
    le = [c.And(is_sus(cc), cc['t'] <= n['e']) for cc in same_i]
    exists = c.Or(le or [False])
    tmax = c.Max([0] + [c.If(cd, cc['t'], 0) for cd, cc in zip(le, same_i)])
    off_at_tmax = c.Or([
        c.And(cd, c.eq(cc['t'], tmax), c.Not(is_on(cc)))
        for cd, cc in zip(le, same_i)
    ] or [False])
    down = c.And(exists, c.Not(off_at_tmax))
    # candidates for the new end
    BIG = last
    cands = [BIG]
    for cc in same_i:
      cands.append(c.If(c.And(is_sus(cc), c.Not(is_on(cc)), cc['t'] > n['e']),
                        cc['t'], BIG))
    for k, o in enumerate(notes):
      if k == idx or o['i'] != n['i']:
        continue
      cands.append(c.If(c.And(c.Not(o['d']), c.eq(o['p'], n['p']),
                              o['s'] >= n['e']), o['s'], BIG))
    held_end = c.Min(cands)
    exp_end = c.If(c.And(c.Not(n['d']), down), held_end, n['e'])
    c.check(c.eq(m.end_time, exp_end), 'note end = declarative sustain spec')
    c.check(c.And(c.eq(m.start_time, n['s']), c.eq(m.pitch, n['p']),
                  c.eq(m.velocity, n['v']), c.eq(m.instrument, n['i']),
                  c.eq(m.is_drum, n['d'])), 'everything but the end unchanged')
    c.check(out.total_time >= m.end_time, 'total_time covers every note')
    c.check(m.end_time >= n['e'], 'a note is never shortened')
  c.check(c.Implies(c.Not(any_down), c.msg_eq(out, before)),
          'without pedal-down events the result equals the input')
  c.check(c.And([c.msg_eq(a, b) for a, b in zip(out.control_changes,
                                               before.control_changes)]),
          'control changes unchanged')
  if N >= 1 and P >= 1:
    n0, c0 = notes[0], ccs[0]
    c.cover('note ends while its pedal is down',
            c.And(is_sus(c0), is_on(c0), c0['t'] <= n0['e'], c0['i'] == n0['i'],
                  c.Not(n0['d'])))
    c.cover('pedal event exactly at a note end', c.eq(c0['t'], n0['e']))
    c.cover('pedal value exactly 64', c.eq(c0['v'], 64))
    c.cover('pedal value exactly 63', c.eq(c0['v'], 63))
  if N >= 1:
    c.cover('a note without duration', c.eq(notes[0]['s'], notes[0]['e']))
  if N >= 2:
    c.cover('same pitch struck again while held',
            c.And(c.eq(notes[0]['p'], notes[1]['p']),
                  notes[1]['s'] > notes[0]['e'], notes[0]['i'] == notes[1]['i']))
  if P >= 2:
    c.cover('on and off at the same instant',
            c.And(c.eq(ccs[0]['t'], ccs[1]['t']), ccs[0]['v'] >= 64,
                  ccs[1]['v'] < 64))


def h_quantized(c):
  pb, sl = c.pb, c.mod('sequences_lib')
  ns = pb.NoteSequence()
  ns.notes.add(start_time=0, end_time=1, pitch=60, velocity=1)
  ns.total_time = 1
  which = c.params['which']
  if which == 'spq':
    ns.quantization_info.steps_per_quarter = c.int('spq', 1, 96)
  else:
    ns.quantization_info.steps_per_second = c.int('sps', 1, 1000)
  before = c.snapshot(ns)
  res, err = c.raises(sl.apply_sustain_control_changes, ns)
  c.check(err is not None and isinstance(err, sl.QuantizationStatusError),
          'quantized input rejected with QuantizationStatusError')
  c.check(c.msg_eq(ns, before), 'input unchanged')


HARNESSES = {'h_sustain': h_sustain, 'h_quantized': h_quantized}


def jobs(tier):
  J = []

  def add(h, budget=150, required=True, **params):
    J.append({'harness': h, 'params': params, 'budget_s': budget,
              'required': required})

  add('h_quantized', which='spq')
  add('h_quantized', which='sps')
  import itertools  # pylint: disable=g-import-not-at-top

  def grid(n, p, **kw):
    # note 0 is on instrument 0 w.l.o.g. (the code treats instrument numbers
    # only as dictionary keys); every other assignment is enumerated
    for ni in itertools.product([0, 1], repeat=n):
      if ni[0] != 0:
        continue
      for ci in itertools.product([0, 1], repeat=p):
        add('h_sustain', N=n, P=p, ni=list(ni), ci=list(ci), **kw)

  for (n, p) in [(1, 1), (1, 2), (2, 1), (2, 2)]:
    grid(n, p, budget=400)
  grid(3, 1, budget=900)
  # another controller number as the sustain pedal (e.g. sostenuto, 66)
  add('h_sustain', N=1, P=2, ni=[0], ci=[0, 0], sustain_number=66, budget=400)
  if tier == 'thorough':
    grid(2, 3, budget=3000, required=False)
    grid(3, 2, budget=3000, required=False)
  return J
