"""C14 -- applying the sustain pedal holds exactly the notes the pedal holds."""
from props import common as K

META = {
    'level': 'model_checking',
    'level_text':
        'The real apply_sustain_control_changes (an event-loop over a sorted '
        'note/pedal stream) is executed symbolically for N notes and P control '
        'changes with all times, values, pitches, instruments and drum flags '
        'free, and on every path its output is compared by the solver with a '
        'declarative first-order specification (pedal state at the note end; '
        'new end = min of next release, next same-pitch onset, end of piece). '
        'Coinciding times are explored as the == side of every comparison.',
    'level_note':
        'Trusted: z3, reals for doubles, symproto (validated per sampled path '
        'on upb). Assumes the property\'s own precondition (no overlapping '
        'same-pitch notes on one instrument) and notes of positive length.',
    'functions': [('sequences_lib', 'apply_sustain_control_changes'),
                  ('sequences_lib', 'is_quantized_sequence')],
    'assumptions': [
        'double fields are exact reals',
        'no two notes of one pitch on one instrument overlap; every note has '
        'end > start (zero-length notes are outside the claim)',
        'main grid: instruments in {0,1} (note 0 on instrument 0 w.l.o.g.), '
        'pitches in {60,61}, control numbers in 63..65, control values 0..127; '
        'extra jobs: instruments 2/3/9/15, pitches 0..127, '
        'sustain_control_number 0/66/127 and 64 passed explicitly (keyword and '
        'positional) with control numbers around the chosen one',
        'input total_time covers the notes, except in the stale jobs (there: '
        'total_time only bounded, 0 <= input <= result <= max(input, ends))',
        'all other fields of the sequence, notes and control changes hold '
        'concrete non-default values; the result is compared as a whole '
        'message with the input in which only note ends / total_time are '
        'replaced by the specified values',
    ],
    'bounds': {
        'quick': '(notes, pedal events) in {(1,1),(1,2),(2,1),(2,2),(3,1)} on '
                 'instruments {0,1}; (2,2)/(2,1)/(1,2) variants for other '
                 'controller numbers / call forms / instruments / full pitch '
                 'range / stale total_time / second call; (0,2),(2,0),(0,0); '
                 'step fields without quantization_info; quantized input with '
                 'and without pedal events',
        'thorough': 'adds (2,3),(3,2), (3,1) with three free pitches / three '
                    'instruments / stale total_time, the (2,2) grid with '
                    'controller 66, (2,2) second call, under a wall-clock '
                    'budget (not required to finish)',
    },
    'outside': ['more than 3 notes / 3 pedal events', 'zero-length notes',
                'overlapping same-pitch notes (the note-removal branch)',
                'control values outside 0..127, negative times',
                'total_time covering the extended notes when the input '
                'total_time was stale'],
}


def _other_content(ns):
  """Concrete, non-default content in every part of the sequence the function
  has no business with (the result is documented as a copy of the input with
  note ends extended)."""
  ns.id = 'seq-id'
  ns.filename = 'f.mid'
  ns.collection_name = 'coll'
  ns.ticks_per_quarter = 480
  ns.tempos.add(time=0, qpm=90)
  ns.tempos.add(time=1.5, qpm=150)
  ns.time_signatures.add(time=0, numerator=3, denominator=8)
  ns.key_signatures.add(time=0.5, key=7, mode=1)
  ns.pitch_bends.add(time=0.25, bend=-100, instrument=1, program=3)
  ns.text_annotations.add(time=2, text='Cmaj7', annotation_type=1)
  ns.section_annotations.add(time=1, section_id=4)
  ns.instrument_infos.add(instrument=1, name='instr')
  ns.part_infos.add(part=1, name='part')
  ns.source_info.parser = 2
  ns.sequence_metadata.title = 'title'
  ns.subsequence_info.start_time_offset = 0.75


def h_sustain(c):
  N, P = c.params['N'], c.params['P']
  pb, sl = c.pb, c.mod('sequences_lib')
  ns = pb.NoteSequence()
  _other_content(ns)
  # steps=True: step fields left over from an earlier quantization but an empty
  # quantization_info -- is_quantized_sequence looks at quantization_info only,
  # so such a sequence is unquantized and must be processed like any other
  steps = c.params.get('steps', False)
  if steps:
    ns.total_quantized_steps = 7
  p_lo, p_hi = c.params.get('pitch', (60, 61))
  notes = []
  for i in range(N):
    s = c.real('n%d_s' % i, 0)
    e = c.real('n%d_e' % i)
    c.assume(e >= s)  # zero-duration notes are legal NoteSequence notes
    p = c.int('n%d_p' % i, p_lo, p_hi)
    # instruments are concrete per job (all assignments are enumerated as
    # separate jobs so that they run in parallel)
    ins = c.params['ni'][i]
    d = c.bool('n%d_d' % i)
    v = c.int('n%d_v' % i, 1, 127)
    # program / score fields: notes of one instrument with different programs
    # are still notes of one instrument (the docstring says "per instrument")
    m = ns.notes.add(start_time=s, end_time=e, pitch=p, instrument=ins,
                     is_drum=d, velocity=v, program=10 + i, numerator=1,
                     denominator=4, part=1, voice=2, pitch_name=3 + i)
    if steps:
      m.quantized_start_step = 3 + i
      m.quantized_end_step = 5 + i
    notes.append(dict(s=s, e=e, p=p, i=ins, d=d, v=v))
  for a in range(N):
    for b in range(a + 1, N):
      A, B = notes[a], notes[b]
      # no two overlapping notes of one pitch on one instrument (two notes
      # starting together overlap, also when one of them has no duration)
      c.assume(c.Or(c.Not(c.eq(A['p'], B['p'])), A['i'] != B['i'], A['d'],
                    B['d'],
                    c.And(c.Or(A['e'] <= B['s'], B['e'] <= A['s']),
                          c.Not(c.eq(A['s'], B['s'])))))
  snum = c.params.get('sustain_number', 64)
  if 'cn' in c.params:
    cn_lo, cn_hi = c.params['cn']
  elif snum == 64:
    cn_lo, cn_hi = 63, 65
  else:
    cn_lo, cn_hi = 64, 66
  ccs = []
  for j in range(P):
    t = c.real('c%d_t' % j, 0)
    num = c.int('c%d_n' % j, cn_lo, cn_hi)
    val = c.int('c%d_v' % j, 0, 127)
    ins = c.params['ci'][j]
    m = ns.control_changes.add(time=t, control_number=num, control_value=val,
                               instrument=ins, program=20 + j)
    if steps:
      m.quantized_step = 2 + j
    ccs.append(dict(t=t, n=num, v=val, i=ins))
  tt = c.real('tt', 0)
  # stale=True: total_time of the input is NOT assumed to cover the notes
  stale = c.params.get('stale', False)
  if not stale:
    for n in notes:
      c.assume(n['e'] <= tt)
  ns.total_time = tt
  before = c.snapshot(ns)
  call = c.params.get('call')
  if call == 'pos':  # second positional argument
    apply_ = lambda x: sl.apply_sustain_control_changes(x, snum)
  elif call == 'kw' or snum != 64:
    apply_ = lambda x: sl.apply_sustain_control_changes(
        x, sustain_control_number=snum)
  else:
    apply_ = sl.apply_sustain_control_changes
  out = apply_(ns)
  c.check(c.msg_eq(ns, before), 'input unchanged')
  c.check(out is not ns, 'the result is a new NoteSequence object')
  c.check(len(out.notes) == N, 'no note removed or invented')
  c.check(len(out.control_changes) == P,
          'no control change removed or invented')
  # ---- declarative specification
  sus = [cc for cc in ccs]  # events that count: control number 64
  is_sus = lambda cc: c.eq(cc['n'], snum)
  is_on = lambda cc: cc['v'] >= 64
  # last event time of the piece (non-drum note starts/ends, sustain events)
  times = []
  for n in notes:
    times.append((c.Not(n['d']), n['s']))
    times.append((c.Not(n['d']), n['e']))
  for cc in ccs:
    times.append((is_sus(cc), cc['t']))
  last = c.Max([0] + [c.If(cd, t, 0) for cd, t in times])
  any_down = c.Or([c.And(is_sus(cc), is_on(cc)) for cc in ccs] or [False])
  for idx, n in enumerate(notes):
    m = out.notes[idx]
    same_i = [cc for cc in ccs if cc['i'] == n['i']]
    # pedal state when this note's NOTE_OFF is processed
    le = [c.And(is_sus(cc), cc['t'] <= n['e']) for cc in same_i]
    exists = c.Or(le or [False])
    tmax = c.Max([0] + [c.If(cd, cc['t'], 0) for cd, cc in zip(le, same_i)])
    off_at_tmax = c.Or([
        c.And(cd, c.eq(cc['t'], tmax), c.Not(is_on(cc)))
        for cd, cc in zip(le, same_i)
    ] or [False])
    down = c.And(exists, c.Not(off_at_tmax))
    # candidates for the new end
    BIG = last
    cands = [BIG]
    for cc in same_i:
      cands.append(c.If(c.And(is_sus(cc), c.Not(is_on(cc)), cc['t'] > n['e']),
                        cc['t'], BIG))
    for k, o in enumerate(notes):
      if k == idx or o['i'] != n['i']:
        continue
      cands.append(c.If(c.And(c.Not(o['d']), c.eq(o['p'], n['p']),
                              o['s'] >= n['e']), o['s'], BIG))
    held_end = c.Min(cands)
    exp_end = c.If(c.And(c.Not(n['d']), down), held_end, n['e'])
    c.check(c.eq(m.end_time, exp_end), 'note end = declarative sustain spec')
    c.check(c.And(c.eq(m.start_time, n['s']), c.eq(m.pitch, n['p']),
                  c.eq(m.velocity, n['v']), c.eq(m.instrument, n['i']),
                  c.eq(m.is_drum, n['d'])), 'everything but the end unchanged')
    if not stale:
      c.check(out.total_time >= m.end_time, 'total_time covers every note')
    c.check(m.end_time >= n['e'], 'a note is never shortened')
  c.check(c.Implies(c.Not(any_down), c.msg_eq(out, before)),
          'without pedal-down events the result equals the input')
  c.check(c.And([c.msg_eq(a, b) for a, b in zip(out.control_changes,
                                               before.control_changes)]),
          'control changes unchanged')
  # ---- total_time: the result is a copy, so total_time is the input's unless
  # an extended note needs more.  (The result's note ends were compared with
  # the specification above; using them here keeps the terms small.)
  out_ends = [m.end_time for m in out.notes]
  if not stale:
    c.check(c.eq(out.total_time, c.Max([tt] + out_ends)),
            'total_time = max(input total_time, extended note ends)')
  else:
    # the input's total_time did not cover its own notes: the result must keep
    # it or raise it and has no reason to exceed the latest note end.  (That
    # it covers the notes it extended is NOT demanded: the library leaves
    # total_time alone when a hold is cut by a re-strike -- n1=[0,0] p60, pedal
    # down at 0, n0=[1/8,3/16] p60, pedal up at 3/16, total_time 0 gives
    # total_time 0 with n1 ending at 1/8 -- and "still covers" presupposes an
    # input that was covered.)
    c.check(out.total_time >= tt, 'total_time never decreases (stale input)')
    c.check(out.total_time <= c.Max([tt] + out_ends),
            'total_time <= max(input total_time, note ends) (stale input)')
  # ---- the whole message: a copy of the input in which only note ends and
  # total_time differ (every other field of every note / control change /
  # tempo / signature / annotation / info survives); ends and total_time
  # themselves are checked above
  expected = c.snapshot(before)
  for idx in range(min(N, len(out.notes))):
    expected.notes[idx].end_time = out.notes[idx].end_time
  expected.total_time = out.total_time
  c.check(c.msg_eq(out, expected),
          'result = copy of the input with only note ends / total_time changed')
  if c.params.get('twice'):
    # no hidden state: a second call on the same input gives the same answer.
    # (That the result is a fixed point of the function is not checked
    # separately: the specification above is exact and idempotent, so within
    # these bounds it cannot fail without one of the checks above failing.)
    out2 = apply_(ns)
    c.check(c.msg_eq(out2, out), 'second call on the same input: same result')
    c.check(c.msg_eq(ns, before), 'input unchanged')
  if N >= 1 and P >= 1:
    n0, c0 = notes[0], ccs[0]
    c.cover('note ends while its pedal is down',
            c.And(is_sus(c0), is_on(c0), c0['t'] <= n0['e'], c0['i'] == n0['i'],
                  c.Not(n0['d'])))
    c.cover('pedal event exactly at a note end', c.eq(c0['t'], n0['e']))
    c.cover('pedal value exactly 64', c.eq(c0['v'], 64))
    c.cover('pedal value exactly 63', c.eq(c0['v'], 63))
  if N >= 1:
    c.cover('a note without duration', c.eq(notes[0]['s'], notes[0]['e']))
  if N >= 2:
    c.cover('same pitch struck again while held',
            c.And(c.eq(notes[0]['p'], notes[1]['p']),
                  notes[1]['s'] > notes[0]['e'], notes[0]['i'] == notes[1]['i']))
  if P >= 2:
    c.cover('on and off at the same instant',
            c.And(c.eq(ccs[0]['t'], ccs[1]['t']), ccs[0]['v'] >= 64,
                  ccs[1]['v'] < 64))
  if stale and N >= 1:
    c.cover('input total_time below a note end', tt < notes[0]['e'])


def h_quantized(c):
  pb, sl = c.pb, c.mod('sequences_lib')
  ns = pb.NoteSequence()
  ns.notes.add(start_time=0, end_time=1, pitch=60, velocity=1)
  ns.total_time = 1
  which = c.params['which']
  snum = c.params.get('sustain_number')
  if c.params.get('pedal'):
    # a quantized sequence that does carry pedal events (down before the note
    # ends, up after it) for the controller that is asked for
    k = 64 if snum is None else snum
    ns.control_changes.add(time=0.5, control_number=k, control_value=100)
    ns.control_changes.add(time=2, control_number=k, control_value=0)
    ns.total_time = 2
  # (steps_per_quarter / steps_per_second are members of one oneof: both at
  # once cannot be represented)
  if which == 'spq':
    ns.quantization_info.steps_per_quarter = c.int('spq', 1, 96)
  else:
    ns.quantization_info.steps_per_second = c.int('sps', 1, 1000)
  before = c.snapshot(ns)
  if snum is None:
    res, err = c.raises(sl.apply_sustain_control_changes, ns)
  else:
    res, err = c.raises(sl.apply_sustain_control_changes, ns,
                        sustain_control_number=snum)
  c.check(err is not None and isinstance(err, sl.QuantizationStatusError),
          'quantized input rejected with QuantizationStatusError')
  c.check(c.msg_eq(ns, before), 'input unchanged')


HARNESSES = {'h_sustain': h_sustain, 'h_quantized': h_quantized}


def jobs(tier):
  J = []

  def add(h, budget=150, required=True, **params):
    J.append({'harness': h, 'params': params, 'budget_s': budget,
              'required': required})

  add('h_quantized', which='spq')
  add('h_quantized', which='sps')
  import itertools  # pylint: disable=g-import-not-at-top

  def grid(n, p, **kw):
    # note 0 is on instrument 0 w.l.o.g. (the code treats instrument numbers
    # only as dictionary keys); every other assignment is enumerated
    for ni in itertools.product([0, 1], repeat=n):
      if ni[0] != 0:
        continue
      for ci in itertools.product([0, 1], repeat=p):
        add('h_sustain', N=n, P=p, ni=list(ni), ci=list(ci), **kw)

  for (n, p) in [(1, 1), (1, 2), (2, 1), (2, 2)]:
    grid(n, p, budget=400)
  grid(3, 1, budget=900)
  # another controller number as the sustain pedal (e.g. sostenuto, 66)
  add('h_sustain', N=1, P=2, ni=[0], ci=[0, 0], sustain_number=66, budget=400)
  # ---- quantized input that carries pedal events; another controller asked
  # for
  add('h_quantized', which='spq', pedal=True)
  add('h_quantized', which='sps', pedal=True, sustain_number=66)
  # ---- sustain_control_number: other values (0 is falsy, 127 the last
  # controller), explicit 64, positional form; two notes so that the re-strike
  # cut is reached.  Pitches over the whole MIDI range (0 is falsy).
  FULL = [0, 127]
  add('h_sustain', N=2, P=2, ni=[3, 3], ci=[3, 3], sustain_number=0,
      cn=[0, 1], pitch=FULL, budget=400)
  add('h_sustain', N=2, P=1, ni=[0, 0], ci=[0], sustain_number=66,
      pitch=FULL, budget=400)
  add('h_sustain', N=2, P=1, ni=[0, 0], ci=[0], sustain_number=127,
      cn=[126, 128], call='pos', pitch=FULL, budget=400)
  add('h_sustain', N=2, P=1, ni=[0, 1], ci=[1], sustain_number=64, call='kw',
      pitch=FULL, budget=400)
  add('h_sustain', N=1, P=2, ni=[0], ci=[0, 0], sustain_number=64, call='pos',
      pitch=FULL, budget=400)
  # ---- instrument numbers other than 0/1 (the quantifier allows 4 at once):
  # pedals and notes crossed over instruments 2 and 9; pedals on instruments
  # that only share parity / truthiness with the notes' instruments
  add('h_sustain', N=2, P=2, ni=[2, 9], ci=[9, 2], pitch=FULL, budget=400)
  add('h_sustain', N=2, P=1, ni=[2, 3], ci=[0], pitch=FULL, budget=400)
  add('h_sustain', N=2, P=1, ni=[2, 3], ci=[1], pitch=FULL, budget=400)
  add('h_sustain', N=2, P=1, ni=[15, 15], ci=[15], pitch=FULL, budget=400)
  # ---- input whose total_time does not cover its notes (e.g. never set)
  add('h_sustain', N=2, P=2, ni=[0, 0], ci=[0, 0], stale=True, budget=400)
  add('h_sustain', N=2, P=1, ni=[0, 1], ci=[1], stale=True, budget=400)
  # ---- second call / fixed point
  add('h_sustain', N=2, P=1, ni=[0, 0], ci=[0], twice=True, pitch=FULL,
      budget=400)
  add('h_sustain', N=1, P=2, ni=[0], ci=[0, 0], twice=True, budget=400)
  # ---- nothing to hold / nothing to hold it: no notes, no control changes
  add('h_sustain', N=0, P=2, ni=[], ci=[0, 1], budget=400)
  add('h_sustain', N=2, P=0, ni=[0, 0], ci=[], budget=400)
  add('h_sustain', N=0, P=0, ni=[], ci=[], budget=400)
  # ---- step fields set but quantization_info empty: not quantized
  add('h_sustain', N=1, P=2, ni=[0], ci=[0, 0], steps=True, budget=400)
  if tier == 'thorough':
    grid(2, 3, budget=3000, required=False)
    grid(3, 2, budget=3000, required=False)
    # three notes of three different pitches over the whole range; three
    # instruments at once; the whole (2,2) grid with another controller
    add('h_sustain', N=3, P=1, ni=[0, 0, 0], ci=[0], pitch=FULL, budget=1500,
        required=False)
    add('h_sustain', N=3, P=1, ni=[0, 2, 3], ci=[2], pitch=FULL, budget=1500,
        required=False)
    grid(2, 2, budget=1500, required=False, sustain_number=66, pitch=FULL)
    add('h_sustain', N=3, P=1, ni=[0, 0, 0], ci=[0], stale=True, budget=1500,
        required=False)
    add('h_sustain', N=2, P=2, ni=[0, 0], ci=[0, 0], twice=True, budget=1500,
        required=False)
  return J
