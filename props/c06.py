"""C06 -- rendering an event sequence to notes and extracting it again is the
identity."""
from fractions import Fraction

from props import c07
from props import common as K

META = {
    'level': 'model_checking',
    'level_text':
        'Canonical inputs are produced by construction: E0 = extract(Q) for a '
        'symbolic quantized sequence Q (as in C07) is canonical by the '
        'property\'s own definition; the real to_sequence, '
        'quantize_note_sequence(_absolute) and the extractor are then executed '
        'symbolically and the solver shows extract(quantize(render(E0))) == E0 '
        '(events, start step, resolution) on every path, for all eight '
        'sequence types, with tempo / resolution / velocity-bin / shift-limit '
        'parameters from the grids of the property. The numeric half ("at any '
        'tempo") is lemma L-C06: with one relative rounding error per floating '
        'operation of to_sequence and quantize_to_step the recovered step is '
        'exact for every qpm in [20,300] and step <= 10^5 (z3 nlsat).',
    'level_note':
        'Trusted: z3, symproto/np-lite (validated per sampled path on the real '
        'stack). E1 computes with the exact rational value of every float '
        'constant (so rounding of 60.0/qpm is modelled, rounding of the '
        'individual operations only in L-C06, which is a standard-model '
        'over-approximation of binary64). 4/4 only: the renderers do not write '
        'a time signature, so other meters cannot round-trip by design.',
    'engines': ['symex', 'fpk'],
    'functions': [
        ('melodies_lib', 'Melody.to_sequence'),
        ('melodies_lib', 'Melody.from_quantized_sequence'),
        ('drums_lib', 'DrumTrack.to_sequence'),
        ('drums_lib', 'DrumTrack.from_quantized_sequence'),
        ('chords_lib', 'ChordProgression.to_sequence'),
        ('chords_lib', 'ChordProgression.from_quantized_sequence'),
        ('lead_sheets_lib', 'LeadSheet.to_sequence'),
        ('pianoroll_lib', 'PianorollSequence.to_sequence'),
        ('pianoroll_lib', 'PianorollSequence._from_quantized_sequence'),
        ('performance_lib', 'BasePerformance._to_sequence'),
        ('performance_lib', 'BasePerformance._from_quantized_sequence'),
        ('performance_lib', 'NotePerformance.to_sequence'),
        ('performance_lib', 'NotePerformance._from_quantized_sequence'),
        ('sequences_lib', 'quantize_note_sequence'),
        ('sequences_lib', 'quantize_note_sequence_absolute'),
        ('sequences_lib', 'quantize_to_step'),
    ],
    'assumptions': [
        'Q has the default 4/4 meter; no two notes of one pitch overlap (except '
        'in the performance job marked overlap, where one pitch sounds twice '
        'at once)',
        'tempo, steps_per_quarter / steps_per_second, velocity bins and shift '
        'limits come from the grids listed in the property (concrete per job); '
        'steps <= 8',
        'L-C06: standard model of floating point (each operation has relative '
        'error <= 2^-53), no overflow/underflow in the stated ranges',
    ],
    'bounds': {
        'quick': 'N<=2 notes on <=6 steps; 2-3 tempi per type',
        'thorough': 'N<=2 (3 for performances) on <=8 steps; full tempo and '
                    'resolution grids',
    },
    'outside': ['meters other than 4/4', 'event lists longer than the bounds',
                'symbolic tempo inside E1 (covered by L-C06 only)'],
}


def _same_events(c, a, b):
  if len(a) != len(b):
    return False
  conds = []
  for x, y in zip(a, b):
    if isinstance(x, (tuple, frozenset, str)) or isinstance(y, (tuple, frozenset,
                                                               str)):
      if isinstance(x, frozenset) or isinstance(y, frozenset):
        # drum events: sets of (possibly symbolic) pitches
        xs, ys = list(x), list(y)
        if len(xs) != len(ys):
          return False
        conds.append(c.And([c.Or([c.eq(p, q) for q in ys]) for p in xs] or
                           [True]))
      elif x != y:
        return False
    else:
      conds.append(c.eq(x, y))
  return c.And(conds or [True])


def h_melody(c):
  ml = c.mod('melodies_lib')
  sl = c.mod('sequences_lib')
  N, S, spq, qpm = c.params['N'], c.params['S'], c.params['spq'], c.params['qpm']
  ns, notes, tq = c07._qseq(c, N, S, relative=True, spq=spq, pitch=(60, 62),
                            instruments=(0, 0), vel=(1, 127))
  search = c.params['search']
  pad = c.params['pad']
  m0 = ml.Melody()
  res, err = c.raises(m0.from_quantized_sequence, ns, search, 0, 1, True, pad,
                      False)
  c.check(err is None, 'first extraction succeeds')
  seq = m0.to_sequence(qpm=qpm)
  q2 = sl.quantize_note_sequence(seq, spq)
  m1 = ml.Melody()
  m1.from_quantized_sequence(q2, 0, 0, 1, True, pad, False)
  c.check(_same_events(c, list(m0), list(m1)), 'same events after the round trip')
  if len(m0):
    c.check(m0.start_step == m1.start_step and m0.end_step == m1.end_step,
            'same start and end step')
  c.check(m0.steps_per_quarter == m1.steps_per_quarter and
          m0.steps_per_bar == m1.steps_per_bar, 'same resolution')
  c.cover('melody starts in a later bar', len(m0) > 0 and m0.start_step > 0)


def h_drums(c):
  dl = c.mod('drums_lib')
  sl = c.mod('sequences_lib')
  N, S, spq, qpm = c.params['N'], c.params['S'], c.params['spq'], c.params['qpm']
  ns, notes, tq = c07._qseq(c, N, S, relative=True, spq=spq, pitch=(36, 38),
                            vel=(1, 127))
  pad = c.params['pad']
  d0 = dl.DrumTrack()
  d0.from_quantized_sequence(ns, c.params['search'], 1, pad, True)
  seq = d0.to_sequence(qpm=qpm)
  q2 = sl.quantize_note_sequence(seq, spq)
  d1 = dl.DrumTrack()
  d1.from_quantized_sequence(q2, 0, 1, pad, False)
  c.check(_same_events(c, list(d0), list(d1)), 'same events after the round trip')
  if len(d0):
    c.check(d0.start_step == d1.start_step and d0.end_step == d1.end_step,
            'same start and end step')
  c.check(d0.steps_per_quarter == d1.steps_per_quarter and
          d0.steps_per_bar == d1.steps_per_bar, 'same resolution')


def _chord_seq(c, Kc, S, spq):
  pb = c.pb
  TA = pb.NoteSequence.TextAnnotation
  ns = pb.NoteSequence()
  ns.quantization_info.steps_per_quarter = spq
  ns.time_signatures.add(numerator=4, denominator=4)
  for i in range(Kc):
    q = c.int('c%d_q' % i, 0, S)
    ns.text_annotations.add(text=c07._FIGS[i], quantized_step=q,
                            annotation_type=TA.CHORD_SYMBOL)
  return ns


def h_chords(c):
  cl = c.mod('chords_lib')
  sl = c.mod('sequences_lib')
  Kc, S, spq, qpm = c.params['K'], c.params['S'], c.params['spq'], c.params['qpm']
  ns = _chord_seq(c, Kc, S, spq)
  start, end = c.params['start'], c.params['end']
  p0 = cl.ChordProgression()
  res, err = c.raises(p0.from_quantized_sequence, ns, start, end)
  if err is not None:
    c.check(isinstance(err, cl.CoincidentChordsError), 'only coincident chords')
    return
  seq = p0.to_sequence(qpm=qpm)
  q2 = sl.quantize_note_sequence(seq, spq)
  p1 = cl.ChordProgression()
  p1.from_quantized_sequence(q2, start, end)
  c.check(list(p0) == list(p1), 'same chords after the round trip')
  c.check(p0.start_step == p1.start_step and p0.end_step == p1.end_step and
          p0.steps_per_quarter == p1.steps_per_quarter, 'same steps, resolution')
  c.cover('progression starting after step 0', start > 0)


def h_leadsheet(c):
  """Melody and chords of a lead sheet stay aligned through rendering."""
  ml = c.mod('melodies_lib')
  cl = c.mod('chords_lib')
  ls = c.mod('lead_sheets_lib')
  sl = c.mod('sequences_lib')
  N, S, spq, qpm = c.params['N'], c.params['S'], c.params['spq'], c.params['qpm']
  ns, notes, tq = c07._qseq(c, N, S, relative=True, spq=spq, pitch=(60, 62),
                            instruments=(0, 0), vel=(1, 127))
  TA = c.pb.NoteSequence.TextAnnotation
  ns.text_annotations.add(text='C', quantized_step=c.int('c0_q', 0, S),
                          annotation_type=TA.CHORD_SYMBOL)
  ns.text_annotations.add(text='G7', quantized_step=c.int('c1_q', 0, S),
                          annotation_type=TA.CHORD_SYMBOL)
  m0 = ml.Melody()
  m0.from_quantized_sequence(ns, c.params['search'], 0, 1, True, True, False)
  if not len(m0):
    return
  p0 = cl.ChordProgression()
  res, err = c.raises(p0.from_quantized_sequence, ns, m0.start_step, m0.end_step)
  if err is not None:
    return
  sheet = ls.LeadSheet(m0, p0)
  seq = sheet.to_sequence(qpm=qpm)
  q2 = sl.quantize_note_sequence(seq, spq)
  m1 = ml.Melody()
  m1.from_quantized_sequence(q2, 0, 0, 1, True, True, False)
  c.check(_same_events(c, list(m0), list(m1)) and m0.start_step == m1.start_step,
          'same melody after the round trip')
  p1 = cl.ChordProgression()
  p1.from_quantized_sequence(q2, m1.start_step, m1.end_step)
  c.check(list(p0) == list(p1), 'same chords (aligned with the melody) after '
          'the round trip')
  c.cover('lead sheet starting after step 0', m0.start_step > 0)


def h_pianoroll(c):
  pr = c.mod('pianoroll_lib')
  sl = c.mod('sequences_lib')
  N, S, spq, qpm = c.params['N'], c.params['S'], c.params['spq'], c.params['qpm']
  split = c.params['split']
  ns, notes, tq = c07._qseq(c, N, S, relative=True, spq=spq, pitch=(59, 61),
                            vel=(1, 127))
  start = c.params['start']
  c.assume(tq >= start)
  r0 = pr.PianorollSequence(quantized_sequence=ns, start_step=start,
                            min_pitch=59, max_pitch=61, split_repeats=split)
  seq = r0.to_sequence(qpm=qpm)
  q2 = sl.quantize_note_sequence(seq, spq)
  r1 = pr.PianorollSequence(quantized_sequence=q2, start_step=start,
                            min_pitch=59, max_pitch=61, split_repeats=split)
  c.check(list(r0) == list(r1), 'same events after the round trip')
  c.check(r0.start_step == r1.start_step and
          r0.steps_per_quarter == r1.steps_per_quarter, 'same start, resolution')
  c.cover('roll ends with a silent step', len(r0) > 0 and list(r0)[-1] == ())


def _same_perf(c, a, b):
  a, b = list(a), list(b)
  if len(a) != len(b):
    return False
  return c.And([c.And(x.event_type == y.event_type,
                      c.eq(x.event_value, y.event_value))
                for x, y in zip(a, b)] or [True])


def h_performance(c):
  pl = c.mod('performance_lib')
  sl = c.mod('sequences_lib')
  N, S = c.params['N'], c.params['S']
  bins, ms = c.params['bins'], c.params['ms']
  kind = c.params['kind']
  if kind == 'metric':
    spq, qpm = c.params['spq'], c.params['qpm']
    ns, notes, tq = c07._qseq(c, N, S, relative=True, spq=spq, vel=(1, 127),
                              instruments=(0, 0))
    for n in ns.notes:
      n.is_drum = False
      n.program = 0
    start = c.params['start']
    p0 = pl.MetricPerformance(ns, start_step=start, num_velocity_bins=bins,
                              max_shift_quarters=ms)
    seq = p0.to_sequence(qpm=qpm)
    q2 = sl.quantize_note_sequence(seq, spq)
    p1 = pl.MetricPerformance(q2, start_step=start, num_velocity_bins=bins,
                              max_shift_quarters=ms)
    c.check(p0.steps_per_quarter == p1.steps_per_quarter, 'same resolution')
  else:
    sps = c.params['sps']
    # C06 has no non-overlap precondition: a pitch may sound twice at once
    ns, notes, tq = c07._qseq(c, N, S, relative=False, sps=sps, vel=(1, 127),
                              instruments=(0, 0), pitch=c.params.get(
                                  'pitch', (58, 62)),
                              no_overlap=not c.params.get('overlap', False))
    for n in ns.notes:
      n.is_drum = False
      n.program = 0
    start = c.params['start']
    p0 = pl.Performance(ns, start_step=start, num_velocity_bins=bins,
                        max_shift_steps=ms)
    seq = p0.to_sequence()
    q2 = sl.quantize_note_sequence_absolute(seq, sps)
    p1 = pl.Performance(q2, start_step=start, num_velocity_bins=bins,
                        max_shift_steps=ms)
    c.check(p0.steps_per_second == p1.steps_per_second, 'same resolution')
  c.check(_same_perf(c, p0, p1), 'same events after the round trip')
  c.check(p0.start_step == p1.start_step, 'same start step')
  c.cover('velocity change between notes',
          N >= 2 and bins > 0 and
          c.Not(c.eq(pl.velocity_to_bin(notes[0]['v'], bins),
                     pl.velocity_to_bin(notes[1]['v'], bins))))


def h_noteperf(c):
  pl = c.mod('performance_lib')
  sl = c.mod('sequences_lib')
  N, S, sps, bins = c.params['N'], c.params['S'], c.params['sps'], c.params['bins']
  ns, notes, tq = c07._qseq(c, N, S, relative=False, sps=sps, vel=(1, 127),
                            instruments=(0, 0))
  for n in ns.notes:
    n.is_drum = False
    n.program = 0
  p0 = pl.NotePerformance(ns, bins, 0, 0, 1000, 1000)
  seq = p0.to_sequence()
  q2 = sl.quantize_note_sequence_absolute(seq, sps)
  p1 = pl.NotePerformance(q2, bins, 0, 0, 1000, 1000)
  a, b = list(p0), list(p1)
  c.check(len(a) == len(b) and bool(c.And(
      [c.And([c.eq(x.event_value, y.event_value) for x, y in zip(t, u)])
       for t, u in zip(a, b)] or [True])), 'same tuples after the round trip')


HARNESSES = {
    'h_melody': h_melody,
    'h_drums': h_drums,
    'h_chords': h_chords,
    'h_leadsheet': h_leadsheet,
    'h_pianoroll': h_pianoroll,
    'h_performance': h_performance,
    'h_noteperf': h_noteperf,
}


def _lemma(job):
  """L-C06: step recovered exactly at any tempo (standard model of FP)."""
  import time  # pylint: disable=g-import-not-at-top
  import z3  # pylint: disable=g-import-not-at-top
  u = z3.Q(1, 2**53)
  obligations = []
  for spq in (1, 2, 3, 4, 6, 8, 12, 24):
    qpm, step = z3.Reals('qpm step')
    ds = z3.Reals('d1 d2 d3 d4 d5 d6 d7')
    base = [qpm >= 20, qpm <= 300, step >= 0, step <= 100000, z3.IsInt(step)]
    base += [z3.And(d >= -u, d <= u) for d in ds]
    d1, d2, d3, d4, d5, d6, d7 = ds
    # to_sequence: seconds_per_step = fl(fl(60.0/qpm)/spq); t = fl(step*sps)
    sec = (60 / qpm) * (1 + d1) / spq * (1 + d2)
    t = step * sec * (1 + d3)
    # quantize: steps_per_second = fl(fl(spq*qpm)/60.0); x = fl(t*sps);
    # q = int(fl(x + 0.5))
    sps = (spq * qpm) * (1 + d4) / 60 * (1 + d5)
    x = t * sps * (1 + d6)
    y = (x + z3.Q(1, 2)) * (1 + d7)
    t0 = time.time()
    s = z3.Solver()
    s.set('timeout', 120000)
    s.add(base)
    s.add(z3.Or(y < step, y >= step + 1))
    r = str(s.check())
    obligations.append({
        'lemma': 'L-C06[spq=%d]' % spq,
        'statement': 'forall qpm in [20,300], integer step in [0,1e5], 7 '
                     'relative errors |d|<=2^-53: step <= fl(fl(fl(step*fl(fl('
                     '60/qpm)/spq))*fl(fl(spq*qpm)/60))+0.5) < step+1',
        'expect': 'unsat', 'result': r, 'discharged': r == 'unsat',
        'seconds': round(time.time() - t0, 3), 'backend': 'z3 nlsat'})
    s2 = z3.Solver()
    s2.add(base)
    r2 = str(s2.check())
    obligations.append({'lemma': 'L-C06-twin[spq=%d]' % spq,
                        'statement': 'assumptions satisfiable', 'expect': 'sat',
                        'result': r2, 'discharged': r2 == 'sat', 'seconds': 0,
                        'backend': 'z3 nlsat'})
  out = {'obligations': obligations, 'status': 'ok',
         'solver_queries': len(obligations),
         'solver_seconds': round(sum(o['seconds'] for o in obligations), 3)}
  if not all(o['discharged'] for o in obligations):
    out['status'] = 'inconclusive'
    out['error'] = 'lemma not discharged: %s' % [
        o['lemma'] for o in obligations if not o['discharged']]
  return out


FUNCS = {'lemma_tempo': _lemma}


def jobs(tier):
  J = []

  def add(h, budget=300, required=True, jobkind='symex', **params):
    J.append({'harness': h, 'params': params, 'budget_s': budget,
              'required': required, 'kind': jobkind})

  deep = tier == 'thorough'
  add('lemma_tempo', jobkind='func', budget=600)
  tempi = [20, 97.3, 120, 300] if deep else [97.3, 120]
  spqs = [1, 2, 3, 4, 6, 8, 12, 24] if deep else [1, 4]
  for qpm in tempi:
    for spq in spqs:
      S = 6 if spq == 1 else (4 * spq if spq <= 2 else 2 * spq)
      small = spq > 1
      add('h_melody', N=1 if small else 2, S=min(S, 8), spq=spq, qpm=qpm,
          search=0, pad=False, budget=600)
      add('h_chords', K=2, S=5, spq=spq, qpm=qpm, start=spq * 4, end=spq * 4 + 4)
      add('h_chords', K=2, S=5, spq=spq, qpm=qpm, start=0, end=4)
  add('h_melody', N=2, S=8, spq=1, qpm=120, search=4, pad=True, budget=600)
  add('h_drums', N=2, S=6, spq=1, qpm=97.3, search=0, pad=False)
  add('h_drums', N=2, S=8, spq=1, qpm=120, search=4, pad=True)
  add('h_leadsheet', N=1, S=8, spq=1, qpm=120, search=4)
  add('h_leadsheet', N=1, S=6, spq=1, qpm=97.3, search=0)
  for split in (False, True):
    add('h_pianoroll', N=2, S=4, spq=1, qpm=97.3, split=split, start=0)
    add('h_pianoroll', N=1, S=6, spq=1, qpm=120, split=split, start=4)
  add('h_performance', kind='absolute', N=2, S=6, sps=100, bins=0, ms=3, start=0,
      budget=600)
  add('h_performance', kind='absolute', N=2, S=6, sps=31, bins=4, ms=100,
      start=2, budget=600)
  add('h_performance', kind='metric', N=2, S=6, spq=4, qpm=120, bins=32, ms=1,
      start=0, budget=600)
  add('h_performance', kind='absolute', N=2, S=5, sps=100, bins=4, ms=100,
      start=0, overlap=True, pitch=[60, 60], budget=600)
  add('h_noteperf', N=2, S=6, sps=100, bins=32)
  if deep:
    for sps in (10, 31, 100, 250):
      for bins in (0, 1, 4, 32, 127):
        add('h_performance', kind='absolute', N=2, S=6, sps=sps, bins=bins,
            ms=[1, 3, 100, 1000][bins % 4], start=0, budget=1800)
      add('h_noteperf', N=2, S=6, sps=sps, bins=127, budget=900)
    add('h_performance', kind='absolute', N=3, S=6, sps=100, bins=4, ms=3,
        start=0, budget=3000, required=False)
    for qpm in tempi:
      add('h_performance', kind='metric', N=2, S=8, spq=4, qpm=qpm, bins=4, ms=1,
          start=4, budget=1800)
      add('h_drums', N=2, S=8, spq=2, qpm=qpm, search=0, pad=True, budget=900)
      for split in (False, True):
        add('h_pianoroll', N=2, S=6, spq=2, qpm=qpm, split=split, start=0,
            budget=1800)
  return J
