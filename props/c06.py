"""C06 -- rendering an event sequence to notes and extracting it again is the
identity."""
from fractions import Fraction

from props import c07
from props import common as K

META = {
    'level': 'model_checking',
    'level_text':
        'Canonical inputs are produced by construction: E0 = extract(Q) for a '
        'symbolic quantized sequence Q (as in C07) is canonical by the '
        'property\'s own definition; the real to_sequence, '
        'quantize_note_sequence(_absolute) and the extractor are then executed '
        'symbolically and the solver shows extract(quantize(render(E0))) == E0 '
        '(events, start step, resolution) on every path, for all eight '
        'sequence types, with tempo / resolution / velocity-bin / shift-limit '
        'parameters from the grids of the property. The numeric half ("at any '
        'tempo") is lemma L-C06, generated from the ASTs of the renderers and '
        'of quantize_to_step: with one relative rounding error per floating '
        'operation the step recovered from every grid time a renderer writes '
        'is the step it was written for, for every qpm in [20,300], every '
        'resolution of the property\'s grids and steps <= 10^5 (z3 nlsat).',
    'level_note':
        'Trusted: z3, symproto/np-lite (validated per sampled path on the real '
        'stack). E1 computes with the exact rational value of every float '
        'constant (so rounding of 60.0/qpm is modelled, rounding of the '
        'individual operations only in L-C06, which is a standard-model '
        'over-approximation of binary64). 4/4 only: the renderers do not write '
        'a time signature, so other meters cannot round-trip by design.',
    'engines': ['symex', 'fpk'],
    'technique':
        'bounded symbolic execution of the real functions with z3 (reals) + '
        'NRA lemma L-C06 in the standard model of binary64 generated from the '
        'ASTs of the seven renderers and of quantize_to_step',
    'functions': [
        ('melodies_lib', 'Melody.to_sequence'),
        ('melodies_lib', 'Melody.from_quantized_sequence'),
        ('drums_lib', 'DrumTrack.to_sequence'),
        ('drums_lib', 'DrumTrack.from_quantized_sequence'),
        ('chords_lib', 'ChordProgression.to_sequence'),
        ('chords_lib', 'ChordProgression.from_quantized_sequence'),
        ('lead_sheets_lib', 'LeadSheet.to_sequence'),
        ('pianoroll_lib', 'PianorollSequence.to_sequence'),
        ('pianoroll_lib', 'PianorollSequence._from_quantized_sequence'),
        ('performance_lib', 'BasePerformance._to_sequence'),
        ('performance_lib', 'BasePerformance._from_quantized_sequence'),
        ('performance_lib', 'NotePerformance.to_sequence'),
        ('performance_lib', 'NotePerformance._from_quantized_sequence'),
        ('sequences_lib', 'quantize_note_sequence'),
        ('sequences_lib', 'quantize_note_sequence_absolute'),
        ('sequences_lib', 'quantize_to_step'),
    ],
    'assumptions': [
        'Q has the default 4/4 meter; no two notes of one pitch overlap (except '
        'in the performance job marked overlap, where one pitch sounds twice '
        'at once)',
        'tempo, steps_per_quarter / steps_per_second, velocity bins and shift '
        'limits come from the grids listed in the property (concrete per job); '
        'steps <= 8',
        'L-C06: standard model of floating point (each operation has relative '
        'error <= 2^-53), no overflow/underflow in the stated ranges; terms '
        'generated from the ASTs of the seven to_sequence renderers (every '
        'assignment of the form x.<time> = A * seconds_per_step + '
        'sequence_start_time), steps_per_quarter_to_steps_per_second and '
        'quantize_to_step; qpm in [20,300], step quantities and start_step in '
        '[0,1e5]; a standard-model counterexample is reported only when a '
        'concrete instance near it fails on the real classes',
    ],
    'bounds': {
        'quick': 'N<=2 notes on <=6 steps; 2-3 tempi per type',
        'thorough': 'N<=2 (3 for performances) on <=8 steps; full tempo and '
                    'resolution grids',
    },
    'outside': ['meters other than 4/4', 'event lists longer than the bounds',
                'symbolic tempo inside E1 (covered by L-C06 only)'],
}


def _same_events(c, a, b):
  if len(a) != len(b):
    return False
  conds = []
  for x, y in zip(a, b):
    if isinstance(x, (tuple, frozenset, str)) or isinstance(y, (tuple, frozenset,
                                                               str)):
      if isinstance(x, frozenset) or isinstance(y, frozenset):
        # drum events: sets of (possibly symbolic) pitches
        xs, ys = list(x), list(y)
        if len(xs) != len(ys):
          return False
        conds.append(c.And([c.Or([c.eq(p, q) for q in ys]) for p in xs] or
                           [True]))
      elif x != y:
        return False
    else:
      conds.append(c.eq(x, y))
  return c.And(conds or [True])


def h_melody(c):
  ml = c.mod('melodies_lib')
  sl = c.mod('sequences_lib')
  N, S, spq, qpm = c.params['N'], c.params['S'], c.params['spq'], c.params['qpm']
  ns, notes, tq = c07._qseq(c, N, S, relative=True, spq=spq, pitch=(60, 62),
                            instruments=(0, 0), vel=(1, 127))
  search = c.params['search']
  pad = c.params['pad']
  m0 = ml.Melody()
  res, err = c.raises(m0.from_quantized_sequence, ns, search, 0, 1, True, pad,
                      False)
  c.check(err is None, 'first extraction succeeds')
  seq = m0.to_sequence(qpm=qpm)
  q2 = sl.quantize_note_sequence(seq, spq)
  m1 = ml.Melody()
  m1.from_quantized_sequence(q2, 0, 0, 1, True, pad, False)
  c.check(_same_events(c, list(m0), list(m1)), 'same events after the round trip')
  if len(m0):
    c.check(m0.start_step == m1.start_step and m0.end_step == m1.end_step,
            'same start and end step')
  c.check(m0.steps_per_quarter == m1.steps_per_quarter and
          m0.steps_per_bar == m1.steps_per_bar, 'same resolution')
  c.cover('melody starts in a later bar', len(m0) > 0 and m0.start_step > 0)


def h_drums(c):
  dl = c.mod('drums_lib')
  sl = c.mod('sequences_lib')
  N, S, spq, qpm = c.params['N'], c.params['S'], c.params['spq'], c.params['qpm']
  ns, notes, tq = c07._qseq(c, N, S, relative=True, spq=spq, pitch=(36, 38),
                            vel=(1, 127))
  pad = c.params['pad']
  d0 = dl.DrumTrack()
  d0.from_quantized_sequence(ns, c.params['search'], 1, pad, True)
  seq = d0.to_sequence(qpm=qpm)
  q2 = sl.quantize_note_sequence(seq, spq)
  d1 = dl.DrumTrack()
  d1.from_quantized_sequence(q2, 0, 1, pad, False)
  c.check(_same_events(c, list(d0), list(d1)), 'same events after the round trip')
  if len(d0):
    c.check(d0.start_step == d1.start_step and d0.end_step == d1.end_step,
            'same start and end step')
  c.check(d0.steps_per_quarter == d1.steps_per_quarter and
          d0.steps_per_bar == d1.steps_per_bar, 'same resolution')


def h_direct(c):
  """Canonical DrumTrack / Melody built DIRECTLY from an event list (not by
  the extractor): every step is a solver-closed choice, the canonical-form
  conditions of the property are assumed (first step holds the first event of
  its bar-aligned start, no trailing empty step / note-off, no gap of a whole
  bar), then render -> quantize -> extract must give the same events back.
  This keeps the round trip honest when the extractor itself is changed."""
  sl = c.mod('sequences_lib')
  kind, L, spq, qpm = (c.params['kind'], c.params['L'], c.params['spq'],
                       c.params['qpm'])
  start = c.params.get('start', 0)
  spb = 4 * spq
  if kind == 'perf':
    # three notes A, B (overlapping A), C (after A's release); velocity bins
    # chosen freely; a VELOCITY event exactly where the bin changes
    pl = c.mod('performance_lib')
    PE = pl.PerformanceEvent
    nb = c.params['bins']
    bins_ = [c.choice('bin%d' % i, list(range(1, nb + 1))) for i in range(3)]
    metric = c.params.get('metric', False)
    # non-default shift limit (max_shift_quarters / max_shift_steps): a longer
    # advance is canonical only as maximal shifts followed by the remainder
    msq = c.params.get('msq')
    limit = None if msq is None else (msq * spq if metric else msq)
    s1 = c.choice('s1', [1, 2])
    s2 = c.choice('s2', [1, 3] if limit is None else [1, limit, limit + 1,
                                                       2 * limit + 2])
    ev = []
    cur = None

    def shift(n_):
      while limit is not None and n_ > limit:
        ev.append(PE(PE.TIME_SHIFT, limit))
        n_ -= limit
      ev.append(PE(PE.TIME_SHIFT, n_))

    def on(pitch, b):
      nonlocal cur
      if b != cur:
        ev.append(PE(PE.VELOCITY, b))
        cur = b
      ev.append(PE(PE.NOTE_ON, pitch))
    on(60, bins_[0])
    shift(s1)
    on(64, bins_[1])
    shift(s2)
    ev.append(PE(PE.NOTE_OFF, 60))
    on(67, bins_[2])
    shift(s1)
    ev.append(PE(PE.NOTE_OFF, 64))
    shift(s2)
    ev.append(PE(PE.NOTE_OFF, 67))
    kw = {}
    if msq is not None:
      kw = {'max_shift_quarters': msq} if metric else {'max_shift_steps': msq}
    if metric:
      seq0 = pl.MetricPerformance(steps_per_quarter=spq, start_step=start,
                                  num_velocity_bins=nb, **kw)
    else:
      seq0 = pl.Performance(steps_per_second=100, start_step=start,
                            num_velocity_bins=nb, **kw)
    for e in ev:
      seq0.append(e)
    if metric:
      q = sl.quantize_note_sequence(seq0.to_sequence(qpm=qpm), spq)
      seq1 = pl.MetricPerformance(q, start_step=start, num_velocity_bins=nb,
                                  **kw)
    else:
      q = sl.quantize_note_sequence_absolute(seq0.to_sequence(), 100)
      seq1 = pl.Performance(q, start_step=start, num_velocity_bins=nb, **kw)
    c.check(seq1.max_shift_steps == seq0.max_shift_steps,
            'same shift limit on the extracted performance')
    a = [(e.event_type, e.event_value) for e in seq0]
    b = [(e.event_type, e.event_value) for e in seq1]
    c.check(a == b, 'same performance events after the round trip')
    c.check(seq0.start_step == seq1.start_step, 'same start step')
    c.cover('third note returns to the first note\'s bin',
            bins_[0] == bins_[2] != bins_[1])
    return
  if kind == 'drums':
    dl = c.mod('drums_lib')
    opts = [frozenset(), frozenset([36]), frozenset([38, 42])]
    ev = [c.choice('e%d' % i, opts) for i in range(L)]
    c.assume(len(ev[0]) > 0 and len(ev[-1]) > 0)
    # no silent stretch of a whole bar (extraction would end the track there)
    run = 0
    for e in ev:
      run = 0 if e else run + 1
      c.assume(run < spb)
    seq0 = dl.DrumTrack(list(ev), start_step=start, steps_per_bar=spb,
                        steps_per_quarter=spq)
    rendered = seq0.to_sequence(qpm=qpm)
    q = sl.quantize_note_sequence(rendered, spq)
    seq1 = dl.DrumTrack()
    seq1.from_quantized_sequence(q, start, 1, False, False)
  else:
    ml = c.mod('melodies_lib')
    opts = [ml.MELODY_NO_EVENT, ml.MELODY_NOTE_OFF, 60, 62]
    ev = [c.choice('e%d' % i, opts) for i in range(L)]
    c.assume(ev[0] >= 0 and ev[-1] != ml.MELODY_NOTE_OFF)
    # canonical: a note-off only ends a sounding note; no silent bar
    sounding = False
    silent = 0
    for e in ev:
      if e == ml.MELODY_NOTE_OFF:
        c.assume(sounding)
        sounding = False
      elif e >= 0:
        sounding = True
      silent = 0 if sounding else silent + 1
      c.assume(silent < spb)
    # extraction strips the final note-off: a canonical melody ends while its
    # last note is still sounding
    c.assume(sounding)
    seq0 = ml.Melody(list(ev), start_step=start, steps_per_bar=spb,
                     steps_per_quarter=spq)
    rendered = seq0.to_sequence(qpm=qpm)
    q = sl.quantize_note_sequence(rendered, spq)
    seq1 = ml.Melody()
    pad = c.params.get('pad', False)
    if pad:
      # canonical for pad_end=True: the length is a whole number of bars
      c.assume(L % spb == 0)
    seq1.from_quantized_sequence(q, start, 0, 1, True, pad, False)
  c.check(list(seq1) == list(seq0), 'same events after the round trip')
  c.check(seq1.start_step == seq0.start_step and
          seq1.end_step == seq0.end_step, 'same start and end step')
  c.check(seq1.steps_per_quarter == seq0.steps_per_quarter and
          seq1.steps_per_bar == seq0.steps_per_bar, 'same resolution')
  c.cover('events exactly one bar apart',
          L > spb and bool(ev[0]) and all(
              (not e) or e == -2 for e in ev[1:spb]))


def _chord_seq(c, Kc, S, spq):
  pb = c.pb
  TA = pb.NoteSequence.TextAnnotation
  ns = pb.NoteSequence()
  ns.quantization_info.steps_per_quarter = spq
  ns.time_signatures.add(numerator=4, denominator=4)
  for i in range(Kc):
    q = c.int('c%d_q' % i, 0, S)
    ns.text_annotations.add(text=c07._FIGS[i], quantized_step=q,
                            annotation_type=TA.CHORD_SYMBOL)
  return ns


def h_chords(c):
  cl = c.mod('chords_lib')
  sl = c.mod('sequences_lib')
  Kc, S, spq, qpm = c.params['K'], c.params['S'], c.params['spq'], c.params['qpm']
  ns = _chord_seq(c, Kc, S, spq)
  start, end = c.params['start'], c.params['end']
  p0 = cl.ChordProgression()
  res, err = c.raises(p0.from_quantized_sequence, ns, start, end)
  if err is not None:
    c.check(isinstance(err, cl.CoincidentChordsError), 'only coincident chords')
    return
  seq = p0.to_sequence(qpm=qpm)
  q2 = sl.quantize_note_sequence(seq, spq)
  p1 = cl.ChordProgression()
  p1.from_quantized_sequence(q2, start, end)
  c.check(list(p0) == list(p1), 'same chords after the round trip')
  c.check(p0.start_step == p1.start_step and p0.end_step == p1.end_step and
          p0.steps_per_quarter == p1.steps_per_quarter, 'same steps, resolution')
  c.cover('progression starting after step 0', start > 0)


def h_leadsheet(c):
  """Melody and chords of a lead sheet stay aligned through rendering."""
  ml = c.mod('melodies_lib')
  cl = c.mod('chords_lib')
  ls = c.mod('lead_sheets_lib')
  sl = c.mod('sequences_lib')
  N, S, spq, qpm = c.params['N'], c.params['S'], c.params['spq'], c.params['qpm']
  ns, notes, tq = c07._qseq(c, N, S, relative=True, spq=spq, pitch=(60, 62),
                            instruments=(0, 0), vel=(1, 127))
  TA = c.pb.NoteSequence.TextAnnotation
  ns.text_annotations.add(text='C', quantized_step=c.int('c0_q', 0, S),
                          annotation_type=TA.CHORD_SYMBOL)
  ns.text_annotations.add(text='G7', quantized_step=c.int('c1_q', 0, S),
                          annotation_type=TA.CHORD_SYMBOL)
  m0 = ml.Melody()
  m0.from_quantized_sequence(ns, c.params['search'], 0, 1, True, True, False)
  if not len(m0):
    return
  p0 = cl.ChordProgression()
  res, err = c.raises(p0.from_quantized_sequence, ns, m0.start_step, m0.end_step)
  if err is not None:
    return
  sheet = ls.LeadSheet(m0, p0)
  seq = sheet.to_sequence(qpm=qpm)
  q2 = sl.quantize_note_sequence(seq, spq)
  m1 = ml.Melody()
  m1.from_quantized_sequence(q2, 0, 0, 1, True, True, False)
  c.check(_same_events(c, list(m0), list(m1)) and m0.start_step == m1.start_step,
          'same melody after the round trip')
  p1 = cl.ChordProgression()
  p1.from_quantized_sequence(q2, m1.start_step, m1.end_step)
  c.check(list(p0) == list(p1), 'same chords (aligned with the melody) after '
          'the round trip')
  c.cover('lead sheet starting after step 0', m0.start_step > 0)


def h_pianoroll(c):
  pr = c.mod('pianoroll_lib')
  sl = c.mod('sequences_lib')
  N, S, spq, qpm = c.params['N'], c.params['S'], c.params['spq'], c.params['qpm']
  split = c.params['split']
  ns, notes, tq = c07._qseq(c, N, S, relative=True, spq=spq, pitch=(59, 61),
                            vel=(1, 127))
  start = c.params['start']
  c.assume(tq >= start)
  r0 = pr.PianorollSequence(quantized_sequence=ns, start_step=start,
                            min_pitch=59, max_pitch=61, split_repeats=split)
  seq = r0.to_sequence(qpm=qpm)
  q2 = sl.quantize_note_sequence(seq, spq)
  r1 = pr.PianorollSequence(quantized_sequence=q2, start_step=start,
                            min_pitch=59, max_pitch=61, split_repeats=split)
  c.check(list(r0) == list(r1), 'same events after the round trip')
  c.check(r0.start_step == r1.start_step and
          r0.steps_per_quarter == r1.steps_per_quarter, 'same start, resolution')
  c.cover('roll ends with a silent step', len(r0) > 0 and list(r0)[-1] == ())


def _same_perf(c, a, b):
  a, b = list(a), list(b)
  if len(a) != len(b):
    return False
  return c.And([c.And(x.event_type == y.event_type,
                      c.eq(x.event_value, y.event_value))
                for x, y in zip(a, b)] or [True])


def h_performance(c):
  pl = c.mod('performance_lib')
  sl = c.mod('sequences_lib')
  N, S = c.params['N'], c.params['S']
  bins, ms = c.params['bins'], c.params['ms']
  kind = c.params['kind']
  if kind == 'metric':
    spq, qpm = c.params['spq'], c.params['qpm']
    ns, notes, tq = c07._qseq(c, N, S, relative=True, spq=spq, vel=(1, 127),
                              instruments=(0, 0))
    for n in ns.notes:
      n.is_drum = False
      n.program = 0
    start = c.params['start']
    p0 = pl.MetricPerformance(ns, start_step=start, num_velocity_bins=bins,
                              max_shift_quarters=ms)
    seq = p0.to_sequence(qpm=qpm)
    q2 = sl.quantize_note_sequence(seq, spq)
    p1 = pl.MetricPerformance(q2, start_step=start, num_velocity_bins=bins,
                              max_shift_quarters=ms)
    c.check(p0.steps_per_quarter == p1.steps_per_quarter, 'same resolution')
  else:
    sps = c.params['sps']
    # C06 has no non-overlap precondition: a pitch may sound twice at once
    ns, notes, tq = c07._qseq(c, N, S, relative=False, sps=sps, vel=(1, 127),
                              instruments=(0, 0), pitch=c.params.get(
                                  'pitch', (58, 62)),
                              no_overlap=not c.params.get('overlap', False))
    for n in ns.notes:
      n.is_drum = False
      n.program = 0
    start = c.params['start']
    p0 = pl.Performance(ns, start_step=start, num_velocity_bins=bins,
                        max_shift_steps=ms)
    seq = p0.to_sequence()
    q2 = sl.quantize_note_sequence_absolute(seq, sps)
    p1 = pl.Performance(q2, start_step=start, num_velocity_bins=bins,
                        max_shift_steps=ms)
    c.check(p0.steps_per_second == p1.steps_per_second, 'same resolution')
  c.check(_same_perf(c, p0, p1), 'same events after the round trip')
  c.check(p0.start_step == p1.start_step, 'same start step')
  PE_ = pl.PerformanceEvent
  for p_ in (p0, p1):
    c.check(c.And([e.event_value <= p_.max_shift_steps for e in p_
                   if e.event_type == PE_.TIME_SHIFT] or [True]),
            'no extracted TIME_SHIFT exceeds the performance\'s own shift '
            'limit')
  c.check(p0.max_shift_steps == (ms * c.params['spq'] if kind == 'metric'
                                 else ms), 'shift limit as requested')
  c.cover('velocity change between notes',
          N >= 2 and bins > 0 and
          c.Not(c.eq(pl.velocity_to_bin(notes[0]['v'], bins),
                     pl.velocity_to_bin(notes[1]['v'], bins))))


def h_noteperf(c):
  pl = c.mod('performance_lib')
  sl = c.mod('sequences_lib')
  N, S, sps, bins = c.params['N'], c.params['S'], c.params['sps'], c.params['bins']
  ns, notes, tq = c07._qseq(c, N, S, relative=False, sps=sps, vel=(1, 127),
                            instruments=(0, 0))
  for n in ns.notes:
    n.is_drum = False
    n.program = 0
  start = c.params.get('start', 0)
  p0 = pl.NotePerformance(ns, bins, 0, start, 1000, 1000)
  seq = p0.to_sequence()
  q2 = sl.quantize_note_sequence_absolute(seq, sps)
  p1 = pl.NotePerformance(q2, bins, 0, start, 1000, 1000)
  c.check(p0.start_step == p1.start_step == start, 'same start step')
  a, b = list(p0), list(p1)
  c.check(len(a) == len(b) and bool(c.And(
      [c.And([c.eq(x.event_value, y.event_value) for x, y in zip(t, u)])
       for t, u in zip(a, b)] or [True])), 'same tuples after the round trip')


HARNESSES = {
    'h_melody': h_melody,
    'h_drums': h_drums,
    'h_chords': h_chords,
    'h_leadsheet': h_leadsheet,
    'h_pianoroll': h_pianoroll,
    'h_performance': h_performance,
    'h_noteperf': h_noteperf,
    'h_direct': h_direct,
}


# (module, method defining seconds_per_step, method assigning the times, mode)
_RENDERERS = [
    ('melodies_lib', 'Melody.to_sequence', 'Melody.to_sequence', 'metric'),
    ('drums_lib', 'DrumTrack.to_sequence', 'DrumTrack.to_sequence', 'metric'),
    ('chords_lib', 'ChordProgression.to_sequence',
     'ChordProgression.to_sequence', 'metric'),
    ('pianoroll_lib', 'PianorollSequence.to_sequence',
     'PianorollSequence.to_sequence', 'metric'),
    ('performance_lib', 'MetricPerformance.to_sequence',
     'BasePerformance._to_sequence', 'metric'),
    ('performance_lib', 'Performance.to_sequence',
     'BasePerformance._to_sequence', 'absolute'),
    ('performance_lib', 'NotePerformance.to_sequence',
     'NotePerformance.to_sequence', 'absolute'),
]
_TIME_FIELDS = ('start_time', 'end_time', 'time', 'total_time')


def _grid_obligations(modname, q_sps, q_times, mode, res):
  """For every assignment `<x>.<time field> = A * seconds_per_step +
  sequence_start_time` of a renderer, the term of the step that
  quantize_to_step recovers from it, in the standard model of binary64, and
  the step A + start_step it must equal.  Everything is read from the ASTs of
  the working tree; anything that does not fit the pattern makes the lemma
  inconclusive.  Returns [(label, variables, base constraints, q, want)]."""
  import ast  # pylint: disable=g-import-not-at-top
  import z3  # pylint: disable=g-import-not-at-top
  from engine import fpk  # pylint: disable=g-import-not-at-top
  f_sps, _ = fpk.get_function(modname, q_sps)
  f_times, _ = fpk.get_function(modname, q_times)
  f_q, _ = fpk.get_function('sequences_lib', 'quantize_to_step')
  f_conv, _ = fpk.get_function('sequences_lib',
                               'steps_per_quarter_to_steps_per_second')
  cutoff = fpk.get_constant('sequences_lib', 'QUANTIZE_CUTOFF')
  out = []
  assigns = [n for n in ast.walk(f_times) if isinstance(n, ast.Assign) and
             len(n.targets) == 1 and isinstance(n.targets[0], ast.Attribute)
             and n.targets[0].attr in _TIME_FIELDS and
             'seconds_per_step' in ast.unparse(n.value)]
  if not assigns:
    raise fpk.UnsupportedConstruct('%s.%s assigns no grid times' %
                                   (modname, q_times))
  for asg in sorted(assigns, key=lambda n: n.lineno):
    tr = fpk.StdModel(consts={'QUANTIZE_CUTOFF': cutoff}, tag='g')
    qpm = z3.Real('qpm')
    start = z3.Int('start_step')
    rv = fpk.V(z3.IntVal(res), 'int')
    env = {'qpm': fpk.V(qpm, 'fp'), 'self.start_step': fpk.V(start, 'int'),
           'self.steps_per_quarter': rv, 'self._steps_per_quarter': rv,
           'self.steps_per_second': rv}
    base = [qpm >= 20, qpm <= 300, start >= 0, start <= 100000]
    tr.declare_nonneg(qpm)
    tr.declare_nonneg(start)
    # seconds_per_step
    sps_as = [n for n in ast.walk(f_sps) if isinstance(n, ast.Assign) and
              isinstance(n.targets[0], ast.Name) and
              n.targets[0].id == 'seconds_per_step']
    if len(sps_as) != 1:
      raise fpk.UnsupportedConstruct('seconds_per_step not assigned once in '
                                     '%s.%s' % (modname, q_sps))
    env['seconds_per_step'] = tr.expr(sps_as[0].value, env)
    # sequence_start_time: parameter default, then (aug)assignments in order
    params = [a.arg for a in f_times.args.args]
    if 'sequence_start_time' in params:
      k = params.index('sequence_start_time') - (
          len(params) - len(f_times.args.defaults))
      env['sequence_start_time'] = tr.expr(f_times.args.defaults[k], {})
    for n in sorted([n for n in ast.walk(f_times) if
                     isinstance(n, (ast.Assign, ast.AugAssign))],
                    key=lambda n: n.lineno):
      tgt = n.targets[0] if isinstance(n, ast.Assign) else n.target
      if not (isinstance(tgt, ast.Name) and tgt.id == 'sequence_start_time'):
        continue
      if isinstance(n, ast.Assign):
        env['sequence_start_time'] = tr.expr(n.value, env)
      else:
        env['sequence_start_time'] = tr.binop(
            n.op, env['sequence_start_time'], tr.expr(n.value, env), n)
    if 'sequence_start_time' not in env:
      raise fpk.UnsupportedConstruct('sequence_start_time not found')
    # pattern A * seconds_per_step + sequence_start_time
    v = asg.value
    ok = isinstance(v, ast.BinOp) and isinstance(v.op, ast.Add)
    a_node = None
    if ok:
      prod, off = v.left, v.right
      if isinstance(prod, ast.Name):
        prod, off = off, prod
      ok = (isinstance(off, ast.Name) and off.id == 'sequence_start_time' and
            isinstance(prod, ast.BinOp) and isinstance(prod.op, ast.Mult))
      if ok:
        if ast.unparse(prod.right) == 'seconds_per_step':
          a_node = prod.left
        elif ast.unparse(prod.left) == 'seconds_per_step':
          a_node = prod.right
        else:
          ok = False
    if not ok:
      raise fpk.UnsupportedConstruct(
          'time expression not of the form A * seconds_per_step + '
          'sequence_start_time: %s (line %d)' % (ast.unparse(v), asg.lineno))
    # free step quantities of A: non-negative integers
    for sub in ast.walk(a_node):
      key = None
      if isinstance(sub, ast.Name) and sub.id not in env:
        key = sub.id
      elif isinstance(sub, (ast.Call, ast.Attribute, ast.Subscript)):
        key = ast.unparse(sub)
      if key and key not in env:
        fv = z3.Int('v_' + ''.join(ch if ch.isalnum() else '_' for ch in key))
        env[key] = fpk.V(fv, 'int')
        tr.declare_nonneg(fv)
        base += [fv >= 0, fv <= 100000]
    a_val = tr.expr(a_node, env)
    if a_val.kind != 'int':
      raise fpk.UnsupportedConstruct('step quantity is not an integer')
    t = tr.expr(v, env)
    if mode == 'metric':
      conv_params = [a.arg for a in f_conv.args.args]
      sps2 = tr.function(f_conv, {conv_params[0]: rv,
                                  conv_params[1]: fpk.V(qpm, 'fp')})
    else:
      sps2 = rv
    qparams = [a.arg for a in f_q.args.args]
    q = tr.function(f_q, {qparams[0]: t, qparams[1]: sps2})
    if q.kind != 'int':
      raise fpk.UnsupportedConstruct('quantize_to_step does not return an int')
    out.append(('%s line %d: %s' % (q_times, asg.lineno, ast.unparse(asg)),
                base + list(tr.side), q.t, a_val.t + start))
  return out


_PROBE_CLASS = {
    'Melody.to_sequence': 'melody', 'DrumTrack.to_sequence': 'drums',
    'ChordProgression.to_sequence': 'chords',
    'PianorollSequence.to_sequence': 'pianoroll',
    'MetricPerformance.to_sequence': 'metric_perf',
    'Performance.to_sequence': 'perf'}


def _tempo_probe(mod, cls, res, qpm, start, step):
  """Renders one event at relative step `step` of a sequence starting at
  `start` with the real class, quantizes the result with the real quantizer
  and returns (recovered absolute step, expected absolute step)."""
  sl = mod('sequences_lib')
  if cls == 'melody':
    ml = mod('melodies_lib')
    ev = ml.Melody([ml.MELODY_NO_EVENT] * step + [60], start_step=start,
                   steps_per_quarter=res)
    q = sl.quantize_note_sequence(ev.to_sequence(qpm=qpm), res)
    return q.notes[0].quantized_start_step, start + step
  if cls == 'drums':
    dl = mod('drums_lib')
    ev = dl.DrumTrack([frozenset()] * step + [frozenset([36])],
                      start_step=start, steps_per_quarter=res)
    q = sl.quantize_note_sequence(ev.to_sequence(qpm=qpm), res)
    return q.notes[0].quantized_start_step, start + step
  if cls == 'chords':
    cl = mod('chords_lib')
    ev = cl.ChordProgression(['N.C.'] * step + ['C'], start_step=start,
                             steps_per_quarter=res)
    q = sl.quantize_note_sequence(ev.to_sequence(qpm=qpm), res)
    return ([ta.quantized_step for ta in q.text_annotations
             if ta.text == 'C'][0], start + step)
  if cls == 'pianoroll':
    pl = mod('pianoroll_lib')
    ev = pl.PianorollSequence(events_list=[()] * step + [(60,)],
                              steps_per_quarter=res, start_step=start)
    q = sl.quantize_note_sequence(ev.to_sequence(qpm=qpm), res)
    return q.notes[0].quantized_start_step, start + step
  if cls in ('metric_perf', 'perf'):
    pf = mod('performance_lib')
    PE = pf.PerformanceEvent
    if cls == 'metric_perf':
      ev = pf.MetricPerformance(steps_per_quarter=res, start_step=start)
    else:
      ev = pf.Performance(steps_per_second=res, start_step=start)
    left = step
    while left > 0:
      k = min(left, ev.max_shift_steps)
      ev.append(PE(PE.TIME_SHIFT, k))
      left -= k
    ev.append(PE(PE.NOTE_ON, 60))
    ev.append(PE(PE.TIME_SHIFT, 1))
    ev.append(PE(PE.NOTE_OFF, 60))
    if cls == 'metric_perf':
      q = sl.quantize_note_sequence(ev.to_sequence(qpm=qpm), res)
    else:
      q = sl.quantize_note_sequence_absolute(ev.to_sequence(), res)
    return q.notes[0].quantized_start_step, start + step
  raise ValueError(cls)


def _search_real(cls, res, qpm, start, step):
  """Looks for a concrete failing step near a standard-model counterexample by
  running the real renderer + quantizer (in a subprocess on the real stack)."""
  import json  # pylint: disable=g-import-not-at-top
  import os  # pylint: disable=g-import-not-at-top
  import subprocess  # pylint: disable=g-import-not-at-top
  import sys  # pylint: disable=g-import-not-at-top
  verif = os.path.dirname(os.path.dirname(os.path.abspath(__file__)))
  code = ('import sys, json\nsys.path.insert(0, %r)\n'
          'from engine import loader\nfrom props import c06\n'
          'env = loader.RealEnv()\ncls, res, qpm, start, step = %r\n'
          'found = None\n'
          'cands = sorted(set(min(100000, max(0, step * m + d))'
          ' for m in (1, 2, 4, 8, 16, 32, 64) for d in range(-20, 21)),'
          ' key=lambda s: abs(s - step))\n'
          'for s in cands:\n'
          '  try:\n'
          '    got, want = c06._tempo_probe(env.mod, cls, res, qpm, start, s)\n'
          '  except Exception as e:\n'
          '    got, want = repr(e), None\n'
          '  if got != want:\n'
          '    found = {"step": s, "got": got, "want": want}\n'
          '    break\n'
          'print(json.dumps(found))' % (verif, (cls, res, qpm, start, step)))
  p = subprocess.run([sys.executable, '-c', code], stdout=subprocess.PIPE,
                     stderr=subprocess.PIPE, text=True, timeout=600)
  try:
    return json.loads(p.stdout.strip().splitlines()[-1])
  except (ValueError, IndexError):
    return None


def h_tempo_witness(c):
  """Replay of a confirmed L-C06 counterexample on the real classes."""
  v = c.values
  got, want = _tempo_probe(c.mod, v['cls'], int(v['res']), float(v['qpm']),
                           int(v['start']), int(v['step']))
  c.check(got == want, 'L-C06 a rendered grid time is not recovered by '
                       'quantize_to_step')


def _lemma(job):
  """L-C06: every grid time a renderer writes is recovered by
  quantize_to_step as the step it was written for, at any tempo (standard
  model of binary64; terms generated from the ASTs of the working tree)."""
  import time  # pylint: disable=g-import-not-at-top
  import z3  # pylint: disable=g-import-not-at-top
  from engine import fpk  # pylint: disable=g-import-not-at-top
  obligations = []
  violations = []
  unconfirmed = []
  seen = {}
  status, err = 'ok', None
  grid = job['params'].get('resolutions') or {
      'metric': [1, 2, 3, 4, 6, 8, 12, 24], 'absolute': [10, 31, 100, 250]}
  t_budget = time.time() + job.get('budget_s', 600) - 20
  for modname, q_sps, q_times, mode in _RENDERERS:
    for res in grid[mode]:
      try:
        obs = _grid_obligations(modname, q_sps, q_times, mode, res)
      except fpk.UnsupportedConstruct as e:
        return {'status': 'inconclusive', 'obligations': obligations,
                'error': 'cannot regenerate L-C06 from the source (%s.%s): %s'
                         % (modname, q_times, e)}
      for label, base, q, want in obs:
        s = z3.Solver()
        s.add(base)
        s.add(q != want)
        key = s.sexpr()
        name = 'L-C06[%s %s=%d] %s' % (
            modname, 'spq' if mode == 'metric' else 'sps', res, label)
        if key in seen:
          obligations.append({'lemma': name, 'expect': 'unsat',
                              'result': seen[key], 'discharged':
                                  seen[key] == 'unsat', 'seconds': 0,
                              'statement': 'same query as an earlier lemma',
                              'backend': 'z3 nlsat (deduplicated)'})
          continue
        if time.time() > t_budget:
          status, err = 'inconclusive', 'budget exhausted at %s' % name
          break
        s.set('timeout', 120000)
        t0 = time.time()
        r = str(s.check())
        seen[key] = r
        obligations.append({
            'lemma': name, 'statement':
                'forall qpm in [20,300], start_step and step quantities in '
                '[0,1e5], relative errors |d| <= 2^-53 per operation: '
                'quantize_to_step(time written by the renderer) == the step '
                'it was written for',
            'expect': 'unsat', 'result': r, 'discharged': r == 'unsat',
            'seconds': round(time.time() - t0, 3), 'backend': 'z3 nlsat'})
        if r == 'sat':
          m = s.model()

          def val(nm):
            for dcl in m.decls():
              if dcl.name() == nm:
                x = m[dcl]
                if z3.is_int_value(x):
                  return x.as_long()
                return (float(x.numerator_as_long()) /
                        float(x.denominator_as_long()))
            return 0
          steps = [val(dcl.name()) for dcl in m.decls()
                   if dcl.name().startswith('v_')]
          cand = {'lemma': name, 'cls': _PROBE_CLASS.get(q_sps), 'res': res,
                  'qpm': float(val('qpm')) if mode == 'metric' else 120.0,
                  'start': val('start_step'),
                  'step': max(steps) if steps else 0}
          found = None
          if cand['cls'] and len(unconfirmed) + len(violations) < 3:
            found = _search_real(cand['cls'], res, cand['qpm'], cand['start'],
                                 cand['step'])
          if found:
            cand['step'] = found['step']
            violations.append({
                'label': 'L-C06 a rendered grid time is not recovered by '
                         'quantize_to_step',
                'values': cand, 'source': 'solver'})
          else:
            unconfirmed.append(cand)
        elif r != 'unsat':
          status, err = 'inconclusive', '%s: %s' % (name, r)
        s2 = z3.Solver()
        s2.set('timeout', 30000)
        s2.add(base)
        s2.add(q == want)
        r2 = str(s2.check())
        obligations.append({'lemma': name + ' (twin)',
                            'statement': 'assumptions and conclusion jointly '
                                         'satisfiable', 'expect': 'sat',
                            'result': r2, 'discharged': r2 == 'sat',
                            'seconds': 0, 'backend': 'z3 nlsat'})
        if r2 != 'sat':
          status, err = 'inconclusive', '%s twin: %s' % (name, r2)
  out = {'obligations': obligations, 'status': status,
         'solver_queries': len(obligations),
         'solver_seconds': round(sum(o['seconds'] for o in obligations), 3)}
  if violations:
    # confirmed on the real renderer + quantizer near the model point
    out['status'] = 'violation'
    out['violations'] = violations[:2]
  elif unconfirmed:
    # a standard-model counterexample is only a candidate (the deltas are
    # existential): without a concrete instance nothing is reported
    out['status'] = 'inconclusive'
    out['error'] = ('standard-model counterexample(s) not reproduced on the '
                    'real code: %s' % unconfirmed[:2])
  elif err:
    out['error'] = err
  return out


FUNCS = {'lemma_tempo': _lemma}
HARNESSES['lemma_tempo'] = h_tempo_witness


def jobs(tier):
  J = []

  def add(h, budget=300, required=True, jobkind='symex', **params):
    J.append({'harness': h, 'params': params, 'budget_s': budget,
              'required': required, 'kind': jobkind})

  deep = tier == 'thorough'
  add('lemma_tempo', jobkind='func', budget=600)
  tempi = [20, 97.3, 120, 300] if deep else [97.3, 120]
  spqs = [1, 2, 3, 4, 6, 8, 12, 24] if deep else [1, 4]
  for qpm in tempi:
    for spq in spqs:
      S = 6 if spq == 1 else (4 * spq if spq <= 2 else 2 * spq)
      small = spq > 1
      add('h_melody', N=1 if small else 2, S=min(S, 8), spq=spq, qpm=qpm,
          search=0, pad=False, budget=600)
      add('h_chords', K=2, S=5, spq=spq, qpm=qpm, start=spq * 4, end=spq * 4 + 4)
      add('h_chords', K=2, S=5, spq=spq, qpm=qpm, start=0, end=4)
  add('h_melody', N=2, S=8, spq=1, qpm=120, search=4, pad=True, budget=600)
  add('h_drums', N=2, S=6, spq=1, qpm=97.3, search=0, pad=False)
  add('h_drums', N=2, S=8, spq=1, qpm=120, search=4, pad=True)
  add('h_leadsheet', N=1, S=8, spq=1, qpm=120, search=4)
  add('h_leadsheet', N=1, S=6, spq=1, qpm=97.3, search=0)
  for split in (False, True):
    add('h_pianoroll', N=2, S=4, spq=1, qpm=97.3, split=split, start=0)
    add('h_pianoroll', N=1, S=6, spq=1, qpm=120, split=split, start=4)
  add('h_performance', kind='absolute', N=2, S=6, sps=100, bins=0, ms=3, start=0,
      budget=600)
  add('h_performance', kind='absolute', N=2, S=6, sps=31, bins=4, ms=100,
      start=2, budget=600)
  add('h_performance', kind='metric', N=2, S=6, spq=4, qpm=120, bins=32, ms=1,
      start=0, budget=600)
  add('h_performance', kind='absolute', N=2, S=5, sps=100, bins=4, ms=100,
      start=0, overlap=True, pitch=[60, 60], budget=600)
  add('h_noteperf', N=2, S=6, sps=100, bins=32)
  add('h_noteperf', N=2, S=6, sps=31, bins=32, start=2)
  # canonical sequences built without the extractor (one-bar-apart events fit)
  add('h_direct', kind='drums', L=5, spq=1, qpm=120, budget=600)
  add('h_direct', kind='drums', L=6, spq=1, qpm=97.3, start=4, budget=600)
  add('h_direct', kind='melody', L=5, spq=1, qpm=120, budget=600)
  add('h_direct', kind='melody', L=6, spq=1, qpm=97.3, start=4, budget=900)
  add('h_direct', kind='melody', L=4, spq=1, qpm=120, pad=True, budget=600)
  if deep:
    add('h_direct', kind='melody', L=8, spq=1, qpm=97.3, start=4, pad=True,
        budget=1800)
  add('h_direct', kind='perf', L=0, spq=4, qpm=120, bins=3, budget=600)
  # a non-default shift limit below and above the default of 4 quarters / 100
  # steps, with advances longer than the limit
  add('h_direct', kind='perf', L=0, spq=4, qpm=93.5, bins=2, metric=True, msq=2,
      budget=600)
  add('h_direct', kind='perf', L=0, spq=2, qpm=60, bins=2, metric=True, msq=5,
      start=16, budget=600)
  add('h_direct', kind='perf', L=0, spq=4, qpm=120, bins=2, msq=7, budget=600)
  add('h_direct', kind='perf', L=0, spq=12, qpm=93.7, bins=3, start=96,
      metric=True, budget=600)
  if deep:
    for sps in (10, 31, 100, 250):
      for bins in (0, 1, 4, 32, 127):
        add('h_performance', kind='absolute', N=2, S=6, sps=sps, bins=bins,
            ms=[1, 3, 100, 1000][bins % 4], start=0, budget=1800)
      add('h_noteperf', N=2, S=6, sps=sps, bins=127, budget=900)
    add('h_performance', kind='absolute', N=3, S=6, sps=100, bins=4, ms=3,
        start=0, budget=3000, required=False)
    for qpm in tempi:
      add('h_performance', kind='metric', N=2, S=8, spq=4, qpm=qpm, bins=4, ms=1,
          start=4, budget=1800)
      add('h_drums', N=2, S=8, spq=2, qpm=qpm, search=0, pad=True, budget=900)
      for split in (False, True):
        add('h_pianoroll', N=2, S=6, spq=2, qpm=qpm, split=split, start=0,
            budget=1800)
  return J
