"""C06 -- rendering an event sequence to notes and extracting it again is the
identity."""
from fractions import Fraction

from props import c07
from props import common as K

META = {
    'level': 'model_checking',
    'level_text':
        'Canonical inputs are produced by construction: E0 = extract(Q) for a '
        'symbolic quantized sequence Q (as in C07) is canonical by the '
        'property\'s own definition; the real to_sequence, '
        'quantize_note_sequence(_absolute) and the extractor are then executed '
        'symbolically and the solver shows extract(quantize(render(E0))) == E0 '
        '(events, start step, resolution) on every path, for all eight '
        'sequence types, with tempo / resolution / velocity-bin / shift-limit '
        'parameters from the grids of the property. The numeric half ("at any '
        'tempo") is lemma L-C06, generated from the ASTs of the renderers and '
        'of quantize_to_step: with one relative rounding error per floating '
        'operation the step recovered from every grid time a renderer writes '
        'is the step it was written for, for every qpm in [20,300], every '
        'resolution of the property\'s grids and steps <= 10^5 (z3 nlsat).',
    'level_note':
        'Trusted: z3, symproto/np-lite (validated per sampled path on the real '
        'stack). E1 computes with the exact rational value of every float '
        'constant (so rounding of 60.0/qpm is modelled, rounding of the '
        'individual operations only in L-C06, which is a standard-model '
        'over-approximation of binary64). 4/4 only: the renderers do not write '
        'a time signature, so other meters cannot round-trip by design.',
    'engines': ['symex', 'fpk'],
    'technique':
        'bounded symbolic execution of the real functions with z3 (reals) + '
        'NRA lemma L-C06 in the standard model of binary64 generated from the '
        'ASTs of the seven renderers and of quantize_to_step',
    'functions': [
        ('melodies_lib', 'Melody.to_sequence'),
        ('melodies_lib', 'Melody.from_quantized_sequence'),
        ('drums_lib', 'DrumTrack.to_sequence'),
        ('drums_lib', 'DrumTrack.from_quantized_sequence'),
        ('chords_lib', 'ChordProgression.to_sequence'),
        ('chords_lib', 'ChordProgression.from_quantized_sequence'),
        ('lead_sheets_lib', 'LeadSheet.to_sequence'),
        ('pianoroll_lib', 'PianorollSequence.to_sequence'),
        ('pianoroll_lib', 'PianorollSequence._from_quantized_sequence'),
        ('performance_lib', 'BasePerformance._to_sequence'),
        ('performance_lib', 'BasePerformance._from_quantized_sequence'),
        ('performance_lib', 'NotePerformance.to_sequence'),
        ('performance_lib', 'NotePerformance._from_quantized_sequence'),
        ('sequences_lib', 'quantize_note_sequence'),
        ('sequences_lib', 'quantize_note_sequence_absolute'),
        ('sequences_lib', 'quantize_to_step'),
        ('lead_sheets_lib', 'LeadSheet.__init__'),
        ('performance_lib', 'Performance.__init__'),
        ('performance_lib', 'MetricPerformance.__init__'),
        ('performance_lib', 'NotePerformance.__init__'),
        ('performance_lib', '_program_and_is_drum_from_sequence'),
        ('pianoroll_lib', 'PianorollSequence.__init__'),
        ('events_lib', 'SimpleEventSequence.append'),
        ('events_lib', 'SimpleEventSequence.__getitem__'),
    ],
    'assumptions': [
        'Q has the default 4/4 meter; no two notes of one pitch overlap (except '
        'in the performance job marked overlap, where one pitch sounds twice '
        'at once)',
        'tempo, steps_per_quarter / steps_per_second, velocity bins and shift '
        'limits come from the grids listed in the property (concrete per job); '
        'steps <= 8',
        'h_shape / h_steps / h_tuples / h_perf_attrs / h_direct: the canonical '
        'sequence is constructed (not extracted) and the expected events, '
        'start / end step and resolution are the constructed ones; rest and '
        'note lengths are choices from {0, 1, 2-3, a bar - 1, gap_bars bars '
        '- 1, gap_bars bars}, pitches include 0 and 127 (rolls: both ends of '
        'the range, pitches just outside it with shift_range); rendered '
        'velocity / instrument / program are symbolic; sequence_start_time '
        'is a whole number of bars and only used with start_step 0 (first '
        'event lands on it); documented keyword semantics only: other '
        'instrument extracts nothing, explicit program overrides the '
        'performance\'s, drum performances report program None, '
        'max_note_duration truncates (unused by NotePerformance), shifts / '
        'durations beyond the NotePerformance limits raise, mismatching lead '
        'sheet parts and a base_note_sequence of another tempo are rejected',
        'L-C06: standard model of floating point (each operation has relative '
        'error <= 2^-53), no overflow/underflow in the stated ranges; terms '
        'generated from the ASTs of the seven to_sequence renderers (every '
        'assignment of the form x.<time> = A * seconds_per_step + '
        'sequence_start_time), steps_per_quarter_to_steps_per_second and '
        'quantize_to_step; qpm in [20,300], step quantities and start_step in '
        '[0,1e5]; a standard-model counterexample is reported only when a '
        'concrete instance near it fails on the real classes',
    ],
    'bounds': {
        'quick': 'N<=2 notes on <=6 steps (chords up to step 20); 2-3 tempi '
                 'per type; constructed shapes: 2 notes / drum hits with rests '
                 'up to gap_bars (1-2) bars at spq 1, 2, 4, lead sheets with '
                 'one chord change, 5-step chord lists, 4-step rolls '
                 '(default, 0..127 and 59..61 ranges), 3 note-performance '
                 'tuples (limits 3/2 and 1000/1000), 2-note performances with '
                 'program in {None,0,5,127} x is_drum in {None,False,True}; '
                 'tempi 20, 93.7, 97.3, 120 (also by omission), 300',
        'thorough': 'N<=2 (3 for performances) on <=8 steps; full tempo and '
                    'resolution grids; constructed shapes at every spq of the '
                    'grid',
    },
    'outside': ['meters other than 4/4', 'event lists longer than the bounds',
                'symbolic tempo inside E1 (covered by L-C06 only)'],
}


def _same_events(c, a, b):
  if len(a) != len(b):
    return False
  conds = []
  for x, y in zip(a, b):
    if isinstance(x, (tuple, frozenset, str)) or isinstance(y, (tuple, frozenset,
                                                               str)):
      if isinstance(x, frozenset) or isinstance(y, frozenset):
        # drum events: sets of (possibly symbolic) pitches
        xs, ys = list(x), list(y)
        if len(xs) != len(ys):
          return False
        conds.append(c.And([c.Or([c.eq(p, q) for q in ys]) for p in xs] or
                           [True]))
      elif x != y:
        return False
    else:
      conds.append(c.eq(x, y))
  return c.And(conds or [True])


def h_melody(c):
  ml = c.mod('melodies_lib')
  sl = c.mod('sequences_lib')
  N, S, spq, qpm = c.params['N'], c.params['S'], c.params['spq'], c.params['qpm']
  ns, notes, tq = c07._qseq(c, N, S, relative=True, spq=spq, pitch=(60, 62),
                            instruments=(0, 0), vel=(1, 127))
  search = c.params['search']
  pad = c.params['pad']
  m0 = ml.Melody()
  res, err = c.raises(m0.from_quantized_sequence, ns, search, 0, 1, True, pad,
                      False)
  c.check(err is None, 'first extraction succeeds')
  seq = m0.to_sequence(qpm=qpm)
  q2 = sl.quantize_note_sequence(seq, spq)
  m1 = ml.Melody()
  m1.from_quantized_sequence(q2, 0, 0, 1, True, pad, False)
  c.check(_same_events(c, list(m0), list(m1)), 'same events after the round trip')
  if len(m0):
    c.check(m0.start_step == m1.start_step and m0.end_step == m1.end_step,
            'same start and end step')
  c.check(m0.steps_per_quarter == m1.steps_per_quarter and
          m0.steps_per_bar == m1.steps_per_bar, 'same resolution')
  c.cover('melody starts in a later bar', len(m0) > 0 and m0.start_step > 0)


def h_drums(c):
  dl = c.mod('drums_lib')
  sl = c.mod('sequences_lib')
  N, S, spq, qpm = c.params['N'], c.params['S'], c.params['spq'], c.params['qpm']
  ns, notes, tq = c07._qseq(c, N, S, relative=True, spq=spq, pitch=(36, 38),
                            vel=(1, 127))
  pad = c.params['pad']
  d0 = dl.DrumTrack()
  d0.from_quantized_sequence(ns, c.params['search'], 1, pad, True)
  seq = d0.to_sequence(qpm=qpm)
  q2 = sl.quantize_note_sequence(seq, spq)
  d1 = dl.DrumTrack()
  d1.from_quantized_sequence(q2, 0, 1, pad, False)
  c.check(_same_events(c, list(d0), list(d1)), 'same events after the round trip')
  if len(d0):
    c.check(d0.start_step == d1.start_step and d0.end_step == d1.end_step,
            'same start and end step')
  c.check(d0.steps_per_quarter == d1.steps_per_quarter and
          d0.steps_per_bar == d1.steps_per_bar, 'same resolution')


def h_direct(c):
  """Canonical DrumTrack / Melody built DIRECTLY from an event list (not by
  the extractor): every step is a solver-closed choice, the canonical-form
  conditions of the property are assumed (first step holds the first event of
  its bar-aligned start, no trailing empty step / note-off, no gap of a whole
  bar), then render -> quantize -> extract must give the same events back.
  This keeps the round trip honest when the extractor itself is changed."""
  sl = c.mod('sequences_lib')
  kind, L, spq, qpm = (c.params['kind'], c.params['L'], c.params['spq'],
                       c.params['qpm'])
  start = c.params.get('start', 0)
  spb = 4 * spq
  if kind == 'perf':
    # three notes A, B (overlapping A), C (after A's release); velocity bins
    # chosen freely; a VELOCITY event exactly where the bin changes
    pl = c.mod('performance_lib')
    PE = pl.PerformanceEvent
    nb = c.params['bins']
    bins_ = [c.choice('bin%d' % i, list(range(1, nb + 1))) for i in range(3)]
    metric = c.params.get('metric', False)
    # non-default shift limit (max_shift_quarters / max_shift_steps): a longer
    # advance is canonical only as maximal shifts followed by the remainder
    msq = c.params.get('msq')
    limit = None if msq is None else (msq * spq if metric else msq)
    s1 = c.choice('s1', [1, 2])
    s2 = c.choice('s2', [1, 3] if limit is None else [1, limit, limit + 1,
                                                       2 * limit + 2])
    ev = []
    cur = None

    def shift(n_):
      while limit is not None and n_ > limit:
        ev.append(PE(PE.TIME_SHIFT, limit))
        n_ -= limit
      ev.append(PE(PE.TIME_SHIFT, n_))

    def on(pitch, b):
      nonlocal cur
      if b != cur:
        ev.append(PE(PE.VELOCITY, b))
        cur = b
      ev.append(PE(PE.NOTE_ON, pitch))
    on(60, bins_[0])
    shift(s1)
    on(64, bins_[1])
    shift(s2)
    ev.append(PE(PE.NOTE_OFF, 60))
    on(67, bins_[2])
    shift(s1)
    ev.append(PE(PE.NOTE_OFF, 64))
    shift(s2)
    ev.append(PE(PE.NOTE_OFF, 67))
    kw = {}
    if msq is not None:
      kw = {'max_shift_quarters': msq} if metric else {'max_shift_steps': msq}
    if metric:
      seq0 = pl.MetricPerformance(steps_per_quarter=spq, start_step=start,
                                  num_velocity_bins=nb, **kw)
    else:
      seq0 = pl.Performance(steps_per_second=100, start_step=start,
                            num_velocity_bins=nb, **kw)
    for e in ev:
      seq0.append(e)
    if metric:
      q = sl.quantize_note_sequence(seq0.to_sequence(qpm=qpm), spq)
      seq1 = pl.MetricPerformance(q, start_step=start, num_velocity_bins=nb,
                                  **kw)
    else:
      q = sl.quantize_note_sequence_absolute(seq0.to_sequence(), 100)
      seq1 = pl.Performance(q, start_step=start, num_velocity_bins=nb, **kw)
    c.check(seq1.max_shift_steps == seq0.max_shift_steps,
            'same shift limit on the extracted performance')
    a = [(e.event_type, e.event_value) for e in seq0]
    b = [(e.event_type, e.event_value) for e in seq1]
    c.check(a == b, 'same performance events after the round trip')
    c.check(seq0.start_step == seq1.start_step, 'same start step')
    c.check((seq1.steps_per_quarter == spq) if metric else
            (seq1.steps_per_second == 100),
            'same resolution (direct performance)')
    c.cover('third note returns to the first note\'s bin',
            bins_[0] == bins_[2] != bins_[1])
    return
  if kind == 'drums':
    dl = c.mod('drums_lib')
    opts = [frozenset(), frozenset([36]), frozenset([38, 42])]
    ev = [c.choice('e%d' % i, opts) for i in range(L)]
    c.assume(len(ev[0]) > 0 and len(ev[-1]) > 0)
    # no silent stretch of a whole bar (extraction would end the track there)
    run = 0
    for e in ev:
      run = 0 if e else run + 1
      c.assume(run < spb)
    seq0 = dl.DrumTrack(list(ev), start_step=start, steps_per_bar=spb,
                        steps_per_quarter=spq)
    rendered = seq0.to_sequence(qpm=qpm)
    q = sl.quantize_note_sequence(rendered, spq)
    seq1 = dl.DrumTrack()
    seq1.from_quantized_sequence(q, start, 1, False, False)
  else:
    ml = c.mod('melodies_lib')
    opts = [ml.MELODY_NO_EVENT, ml.MELODY_NOTE_OFF, 60, 62]
    ev = [c.choice('e%d' % i, opts) for i in range(L)]
    c.assume(ev[0] >= 0 and ev[-1] != ml.MELODY_NOTE_OFF)
    # canonical: a note-off only ends a sounding note; no silent bar
    sounding = False
    silent = 0
    for e in ev:
      if e == ml.MELODY_NOTE_OFF:
        c.assume(sounding)
        sounding = False
      elif e >= 0:
        sounding = True
      silent = 0 if sounding else silent + 1
      c.assume(silent < spb)
    # extraction strips the final note-off: a canonical melody ends while its
    # last note is still sounding
    c.assume(sounding)
    seq0 = ml.Melody(list(ev), start_step=start, steps_per_bar=spb,
                     steps_per_quarter=spq)
    rendered = seq0.to_sequence(qpm=qpm)
    q = sl.quantize_note_sequence(rendered, spq)
    seq1 = ml.Melody()
    pad = c.params.get('pad', False)
    if pad:
      # canonical for pad_end=True: the length is a whole number of bars
      c.assume(L % spb == 0)
    seq1.from_quantized_sequence(q, start, 0, 1, True, pad, False)
  c.check(list(seq1) == list(seq0), 'same events after the round trip')
  c.check(seq1.start_step == seq0.start_step and
          seq1.end_step == seq0.end_step, 'same start and end step')
  c.check(seq1.steps_per_quarter == seq0.steps_per_quarter and
          seq1.steps_per_bar == seq0.steps_per_bar, 'same resolution')
  c.cover('events exactly one bar apart',
          L > spb and bool(ev[0]) and all(
              (not e) or e == -2 for e in ev[1:spb]))


def _chord_seq(c, Kc, S, spq, figs=None):
  figs = figs or c07._FIGS
  pb = c.pb
  TA = pb.NoteSequence.TextAnnotation
  ns = pb.NoteSequence()
  ns.quantization_info.steps_per_quarter = spq
  ns.time_signatures.add(numerator=4, denominator=4)
  for i in range(Kc):
    q = c.int('c%d_q' % i, 0, S)
    ns.text_annotations.add(text=figs[i], quantized_step=q,
                            annotation_type=TA.CHORD_SYMBOL)
  return ns


def h_chords(c):
  cl = c.mod('chords_lib')
  sl = c.mod('sequences_lib')
  Kc, S, spq, qpm = c.params['K'], c.params['S'], c.params['spq'], c.params['qpm']
  ns = _chord_seq(c, Kc, S, spq, c.params.get('figs'))
  start, end = c.params['start'], c.params['end']
  p0 = cl.ChordProgression()
  res, err = c.raises(p0.from_quantized_sequence, ns, start, end)
  if err is not None:
    c.check(isinstance(err, cl.CoincidentChordsError), 'only coincident chords')
    return
  seq = p0.to_sequence(qpm=qpm)
  q2 = sl.quantize_note_sequence(seq, spq)
  p1 = cl.ChordProgression()
  p1.from_quantized_sequence(q2, start, end)
  c.check(list(p0) == list(p1), 'same chords after the round trip')
  c.check(p0.start_step == p1.start_step and p0.end_step == p1.end_step and
          p0.steps_per_quarter == p1.steps_per_quarter, 'same steps, resolution')
  c.check(p1.start_step == start and p1.end_step == end and
          len(p1) == end - start and p1.steps_per_quarter == spq and
          p1.steps_per_bar == 4 * spq,
          'extracted progression covers exactly the requested window at the '
          'sequence\'s resolution')
  c.cover('progression starting after step 0', start > 0)


def h_leadsheet(c):
  """Melody and chords of a lead sheet stay aligned through rendering."""
  ml = c.mod('melodies_lib')
  cl = c.mod('chords_lib')
  ls = c.mod('lead_sheets_lib')
  sl = c.mod('sequences_lib')
  N, S, spq, qpm = c.params['N'], c.params['S'], c.params['spq'], c.params['qpm']
  ns, notes, tq = c07._qseq(c, N, S, relative=True, spq=spq, pitch=(60, 62),
                            instruments=(0, 0), vel=(1, 127))
  TA = c.pb.NoteSequence.TextAnnotation
  ns.text_annotations.add(text='C', quantized_step=c.int('c0_q', 0, S),
                          annotation_type=TA.CHORD_SYMBOL)
  ns.text_annotations.add(text='G7', quantized_step=c.int('c1_q', 0, S),
                          annotation_type=TA.CHORD_SYMBOL)
  m0 = ml.Melody()
  m0.from_quantized_sequence(ns, c.params['search'], 0, 1, True, True, False)
  if not len(m0):
    return
  p0 = cl.ChordProgression()
  res, err = c.raises(p0.from_quantized_sequence, ns, m0.start_step, m0.end_step)
  if err is not None:
    return
  sheet = ls.LeadSheet(m0, p0)
  seq = sheet.to_sequence(qpm=qpm)
  q2 = sl.quantize_note_sequence(seq, spq)
  m1 = ml.Melody()
  m1.from_quantized_sequence(q2, 0, 0, 1, True, True, False)
  c.check(_same_events(c, list(m0), list(m1)) and m0.start_step == m1.start_step,
          'same melody after the round trip')
  p1 = cl.ChordProgression()
  p1.from_quantized_sequence(q2, m1.start_step, m1.end_step)
  c.check(list(p0) == list(p1), 'same chords (aligned with the melody) after '
          'the round trip')
  c.cover('lead sheet starting after step 0', m0.start_step > 0)


def h_pianoroll(c):
  pr = c.mod('pianoroll_lib')
  sl = c.mod('sequences_lib')
  N, S, spq, qpm = c.params['N'], c.params['S'], c.params['spq'], c.params['qpm']
  split = c.params['split']
  ns, notes, tq = c07._qseq(c, N, S, relative=True, spq=spq, pitch=(59, 61),
                            vel=(1, 127))
  start = c.params['start']
  c.assume(tq >= start)
  r0 = pr.PianorollSequence(quantized_sequence=ns, start_step=start,
                            min_pitch=59, max_pitch=61, split_repeats=split)
  seq = r0.to_sequence(qpm=qpm)
  q2 = sl.quantize_note_sequence(seq, spq)
  r1 = pr.PianorollSequence(quantized_sequence=q2, start_step=start,
                            min_pitch=59, max_pitch=61, split_repeats=split)
  c.check(list(r0) == list(r1), 'same events after the round trip')
  c.check(r0.start_step == r1.start_step and
          r0.steps_per_quarter == r1.steps_per_quarter, 'same start, resolution')
  c.cover('roll ends with a silent step', len(r0) > 0 and list(r0)[-1] == ())


def _same_perf(c, a, b):
  a, b = list(a), list(b)
  if len(a) != len(b):
    return False
  return c.And([c.And(x.event_type == y.event_type,
                      c.eq(x.event_value, y.event_value))
                for x, y in zip(a, b)] or [True])


def h_performance(c):
  pl = c.mod('performance_lib')
  sl = c.mod('sequences_lib')
  N, S = c.params['N'], c.params['S']
  bins, ms = c.params['bins'], c.params['ms']
  kind = c.params['kind']
  if kind == 'metric':
    spq, qpm = c.params['spq'], c.params['qpm']
    ns, notes, tq = c07._qseq(c, N, S, relative=True, spq=spq, vel=(1, 127),
                              instruments=(0, 0))
    for n in ns.notes:
      n.is_drum = False
      n.program = 0
    start = c.params['start']
    p0 = pl.MetricPerformance(ns, start_step=start, num_velocity_bins=bins,
                              max_shift_quarters=ms)
    seq = p0.to_sequence(qpm=qpm)
    q2 = sl.quantize_note_sequence(seq, spq)
    p1 = pl.MetricPerformance(q2, start_step=start, num_velocity_bins=bins,
                              max_shift_quarters=ms)
    c.check(p0.steps_per_quarter == p1.steps_per_quarter, 'same resolution')
  else:
    sps = c.params['sps']
    # C06 has no non-overlap precondition: a pitch may sound twice at once
    ns, notes, tq = c07._qseq(c, N, S, relative=False, sps=sps, vel=(1, 127),
                              instruments=(0, 0), pitch=c.params.get(
                                  'pitch', (58, 62)),
                              no_overlap=not c.params.get('overlap', False))
    for n in ns.notes:
      n.is_drum = False
      n.program = 0
    start = c.params['start']
    p0 = pl.Performance(ns, start_step=start, num_velocity_bins=bins,
                        max_shift_steps=ms)
    seq = p0.to_sequence()
    q2 = sl.quantize_note_sequence_absolute(seq, sps)
    p1 = pl.Performance(q2, start_step=start, num_velocity_bins=bins,
                        max_shift_steps=ms)
    c.check(p0.steps_per_second == p1.steps_per_second, 'same resolution')
  c.check(_same_perf(c, p0, p1), 'same events after the round trip')
  c.check(p0.start_step == p1.start_step, 'same start step')
  PE_ = pl.PerformanceEvent
  for p_ in (p0, p1):
    c.check(c.And([e.event_value <= p_.max_shift_steps for e in p_
                   if e.event_type == PE_.TIME_SHIFT] or [True]),
            'no extracted TIME_SHIFT exceeds the performance\'s own shift '
            'limit')
  c.check(p0.max_shift_steps == (ms * c.params['spq'] if kind == 'metric'
                                 else ms), 'shift limit as requested')
  c.cover('velocity change between notes',
          N >= 2 and bins > 0 and
          c.Not(c.eq(pl.velocity_to_bin(notes[0]['v'], bins),
                     pl.velocity_to_bin(notes[1]['v'], bins))))


def h_noteperf(c):
  pl = c.mod('performance_lib')
  sl = c.mod('sequences_lib')
  N, S, sps, bins = c.params['N'], c.params['S'], c.params['sps'], c.params['bins']
  ns, notes, tq = c07._qseq(c, N, S, relative=False, sps=sps, vel=(1, 127),
                            instruments=(0, 0))
  uniform = c.params.get('prog', False)
  if uniform:
    # one program / drum flag for the whole track (symbolic choice)
    g_ = c.choice('prog', [0, 5, 127])
    d_ = c.choice('drum', [False, True])
  for n in ns.notes:
    n.is_drum = d_ if uniform else False
    n.program = g_ if uniform else 0
  start = c.params.get('start', 0)
  ms, md = c.params.get('ms', 1000), c.params.get('md', 1000)
  p0, err = c.raises(pl.NotePerformance, ns, bins, 0, start, ms, md)
  if err is not None:
    # only possible with the non-default limits: Q has no canonical form
    c.check(isinstance(err, pl.NotePerformanceError) and
            (ms, md) != (1000, 1000), 'only the documented limit errors')
    c.cover('first extraction exceeds a limit')
    return
  seq = p0.to_sequence()
  q2 = sl.quantize_note_sequence_absolute(seq, sps)
  p1 = pl.NotePerformance(q2, bins, 0, start, ms, md)
  c.check(p0.steps_per_second == p1.steps_per_second == sps,
          'same resolution (note performance)')
  c.check(p0.max_shift_steps == p1.max_shift_steps == ms,
          'same shift limit (note performance)')
  if uniform and len(p0):
    w_prog = None if d_ else g_
    c.check(p0.is_drum == d_ and p0.program == w_prog and
            c.And([c.And(n.is_drum == d_, n.program == (0 if d_ else g_))
                   for n in seq.notes]) and
            p1.is_drum == d_ and p1.program == w_prog,
            'rendered notes and the re-extracted performance carry the '
            'track\'s program / drum flag')
  c.check(p0.start_step == p1.start_step == start, 'same start step')
  a, b = list(p0), list(p1)
  c.check(len(a) == len(b) and bool(c.And(
      [c.And([c.eq(x.event_value, y.event_value) for x, y in zip(t, u)])
       for t, u in zip(a, b)] or [True])), 'same tuples after the round trip')


# ---------------------------------------------------------------------------
# canonical sequences given by construction, with the keyword arguments of the
# renderers / extractors (instrument, velocity, program, sequence_start_time,
# gap_bars, defaults by omission) and independent expected values


def _junk(cls, ev):
  """An object that already holds events at another position / resolution
  (extraction must reset it)."""
  return cls([ev] * 9, start_step=3, steps_per_bar=7, steps_per_quarter=5)


def _wiring(c, rendered, qpm, vel=None, inst=None, prog=None):
  """Documented meaning of the renderers' keyword arguments, read off the
  rendered NoteSequence itself."""
  c.check(len(rendered.tempos) == 1 and
          c.approx(rendered.tempos[0].qpm, qpm),
          'rendered sequence carries the requested tempo')
  conds = []
  for n in rendered.notes:
    if vel is not None:
      conds.append(c.eq(n.velocity, vel))
    if inst is not None:
      conds.append(c.eq(n.instrument, inst))
    if prog is not None:
      conds.append(c.eq(n.program, prog))
  c.check(c.And(conds or [True]),
          'every rendered note has the requested velocity / instrument / '
          'program')


def h_shape(c):
  """Canonical Melody / DrumTrack / LeadSheet given by a SHAPE: the lengths of
  the leading rest, of the notes and of the rest between them are
  solver-closed choices (so whole bars at steps_per_quarter=4 stay cheap) and
  the expected result of render -> quantize -> extract is written down here,
  not taken from the extractor.  Keyword arguments: instrument / velocity /
  program (symbolic), sequence_start_time (whole bars), gap_bars, pad_end,
  everything omitted (`defaults`), extraction into a used object (`reuse`),
  sequences built by append() or by slicing (`via`)."""
  sl = c.mod('sequences_lib')
  P = c.params
  kind, spq = P['kind'], P['spq']
  spb = 4 * spq
  start, gap, pad = P.get('start', 0), P.get('gap', 1), P.get('pad', False)
  qpm = P.get('qpm', 120)
  defaults = P.get('defaults', False)
  via = P.get('via', 'ctor')
  sst_bars = P.get('sst_bars', 0)
  assert not (sst_bars and start)
  if defaults:
    assert (spq, start, gap, pad, qpm, sst_bars) == (4, 0, 1, False, 120, 0)
  small = kind == 'leadsheet'     # the chord choices multiply the paths
  lead = c.choice('lead', [0, spb - 1] if small else [0, 1, spb - 1])
  rests = sorted(set([0, 1, spb - 1, gap * spb - 1]))
  if not pad and kind != 'leadsheet':
    rests.append(gap * spb)      # not canonical: extraction ends at the gap
  r1 = c.choice('r1', rests)
  cut = r1 >= gap * spb
  if kind == 'drums':
    mod = c.mod('drums_lib')
    cls, empty = mod.DrumTrack, frozenset()
    e1 = c.choice('e1', [frozenset([36]), frozenset([0, 127]),
                         frozenset([38, 42])])
    e2 = c.choice('e2', [frozenset([36]), frozenset([38, 42])])
    ev = [empty] * lead + [e1] + [empty] * r1 + [e2]
    want = ev if not cut else [empty] * lead + [e1]
  else:
    mod = c.mod('melodies_lib')
    cls, empty = mod.Melody, mod.MELODY_NO_EVENT
    p1, p2 = c.choice('pp', [(60, 62), (0, 127)] if small else
                      [(60, 62), (0, 127), (127, 0), (60, 60)])
    d1 = c.choice('d1', [1, spb] if small else [1, 2, spb])
    d2 = c.choice('d2', [1, 3])
    ev = ([empty] * lead + [p1] + [empty] * (d1 - 1) +
          ([mod.MELODY_NOTE_OFF] + [empty] * (r1 - 1) if r1 else []) +
          [p2] + [empty] * (d2 - 1))
    want = ev if not cut else [empty] * lead + [p1] + [empty] * (d1 - 1)
  if pad:
    # canonical for pad_end=True: a whole number of bars (a sustained last
    # note / silence up to the bar line)
    ev = ev + [empty] * (-len(ev) % spb)
    want = ev
  ev = list(ev)
  geom = {} if defaults else dict(start_step=start, steps_per_bar=spb,
                                  steps_per_quarter=spq)
  if via == 'append':
    seq0 = cls(**geom)
    for e in ev:
      seq0.append(e)
  elif via == 'slice':
    first = frozenset([36]) if kind == 'drums' else 60
    full = cls([first] + [empty] * (spb - 1) + ev, **geom)
    seq0 = full[spb:]
    start += spb
  else:
    seq0 = cls(list(ev), **geom)
  c.check(list(seq0) == ev and seq0.start_step == start and
          seq0.end_step == start + len(ev) and seq0.steps_per_bar == spb and
          seq0.steps_per_quarter == spq,
          'constructed sequence has the given events, steps and resolution')
  sps = 60.0 / qpm / spq
  sst = sst_bars * spb * sps
  vel = inst = prog = None
  if defaults:
    kw = {}
    w_vel, w_inst, w_prog = 100, (9 if kind == 'drums' else 0), 0
  else:
    vel = c.int('vel', 1, 127)
    inst = c.int('inst', 0, 15)
    kw = dict(velocity=vel, instrument=inst, qpm=qpm)
    if kind != 'leadsheet':
      prog = c.int('prog', 0, 127)
      kw['program'] = prog
    if sst_bars:
      kw['sequence_start_time'] = sst
    w_vel, w_inst, w_prog = vel, inst, prog
  chords0 = None
  if kind == 'leadsheet':
    cl = c.mod('chords_lib')
    ls = c.mod('lead_sheets_lib')
    fa = c.choice('fa', [cl.NO_CHORD, 'C'])
    fb = c.choice('fb', ['C', 'G7', cl.NO_CHORD])
    b = c.choice('b', [0, 1, len(ev) - 1])
    chords0 = [fa] * b + [fb] * (len(ev) - b)
    p0 = cl.ChordProgression(list(chords0), **geom)
    obj = ls.LeadSheet(seq0, p0)
    bad = cl.ChordProgression(list(chords0), start_step=start + spb,
                              steps_per_bar=spb, steps_per_quarter=spq)
    res, err = c.raises(ls.LeadSheet, seq0, bad)
    c.check(isinstance(err, ls.MelodyChordsMismatchError),
            'melody and chords at different positions are rejected')
    bad = cl.ChordProgression(list(chords0), start_step=start,
                              steps_per_bar=spb, steps_per_quarter=spq + 1)
    res, err = c.raises(ls.LeadSheet, seq0, bad)
    c.check(isinstance(err, ls.MelodyChordsMismatchError),
            'melody and chords of different resolution are rejected')
    c.check(obj.start_step == start and obj.end_step == start + len(ev) and
            obj.steps_per_quarter == spq and obj.steps_per_bar == spb and
            list(obj) == list(zip(ev, chords0)),
            'lead sheet exposes the steps, resolution and events of its parts')
  else:
    obj = seq0
  rendered = obj.to_sequence(**kw)
  _wiring(c, rendered, qpm, w_vel, w_inst, w_prog)
  c.check(list(seq0) == ev and seq0.start_step == start and
          seq0.end_step == start + len(ev),
          'rendering leaves the source sequence unchanged')
  c.check(c.msg_eq(rendered, obj.to_sequence(**kw)),
          'rendering twice gives the same NoteSequence')
  if sst_bars and lead == 0:
    c.check(c.approx(rendered.notes[0].start_time, sst),
            'first note lands on sequence_start_time')
  snap = c.snapshot(rendered)
  q = sl.quantize_note_sequence(rendered, spq)
  c.check(c.msg_eq(rendered, snap), 'quantizing leaves its input unchanged')
  want_start = start + sst_bars * spb
  cls1 = cls
  seq1 = _junk(cls1, ev[lead]) if P.get('reuse') else cls1()
  search = c.choice('search', [0, want_start]) if want_start else 0
  if defaults:
    seq1.from_quantized_sequence(q)
  elif kind == 'drums':
    seq1.from_quantized_sequence(q, search_start_step=search, gap_bars=gap,
                                 pad_end=pad)
  else:
    seq1.from_quantized_sequence(q, search_start_step=search, instrument=inst,
                                 gap_bars=gap, pad_end=pad)
    other = cls1()
    other.from_quantized_sequence(q, search_start_step=search,
                                  instrument=inst + 1, gap_bars=gap,
                                  pad_end=pad)
    c.check(len(other) == 0, 'nothing is extracted for another instrument')
  c.check(list(seq1) == list(want), 'same events after the round trip (shape)')
  c.check(seq1.start_step == want_start and
          seq1.end_step == want_start + len(want),
          'same start and end step (shape)')
  c.check(seq1.steps_per_quarter == spq and seq1.steps_per_bar == spb,
          'same resolution (shape)')
  c.cover('rest of exactly gap_bars ends the extraction', cut)
  c.cover('longest rest that does not end the extraction',
          r1 == gap * spb - 1)
  if kind == 'leadsheet':
    p1_ = _junk(cl.ChordProgression, 'G7') if P.get('reuse') else (
        cl.ChordProgression())
    p1_.from_quantized_sequence(q, seq1.start_step, seq1.end_step)
    c.check(list(p1_) == chords0, 'same chords after the round trip (shape)')
    sheet1, err = c.raises(ls.LeadSheet, seq1, p1_)
    c.check(err is None and list(sheet1) == list(zip(ev, chords0)),
            'extracted melody and chords form the same lead sheet')


def h_steps(c):
  """Canonical ChordProgression / PianorollSequence built DIRECTLY from an
  event list (every step a solver-closed choice; every such list is
  canonical), rendered, quantized and extracted again; expected values are the
  constructed ones."""
  sl = c.mod('sequences_lib')
  P = c.params
  kind, L, spq, qpm = P['kind'], P['L'], P['spq'], P['qpm']
  spb = 4 * spq
  start = P.get('start', 0)
  sst_bars = P.get('sst_bars', 0)
  assert not (sst_bars and start)
  sps = 60.0 / qpm / spq
  if kind == 'chords':
    cl = c.mod('chords_lib')
    ev = [c.choice('e%d' % i, [cl.NO_CHORD, 'C', 'G7']) for i in range(L)]
    seq0 = cl.ChordProgression(list(ev), start_step=start, steps_per_bar=spb,
                               steps_per_quarter=spq)
    kw = dict(qpm=qpm)
    if sst_bars:
      kw['sequence_start_time'] = sst_bars * spb * sps
    rendered = seq0.to_sequence(**kw)
    c.check(len(rendered.tempos) == 1 and
            c.approx(rendered.tempos[0].qpm, qpm),
            'rendered sequence carries the requested tempo')
    c.check(list(seq0) == ev and seq0.start_step == start and
            seq0.end_step == start + L,
            'rendering leaves the source sequence unchanged')
    c.check(c.msg_eq(rendered, seq0.to_sequence(**kw)),
            'rendering twice gives the same NoteSequence')
    if sst_bars and ev[0] != cl.NO_CHORD:
      c.check(c.approx(rendered.text_annotations[0].time,
                       sst_bars * spb * sps),
              'first chord lands on sequence_start_time')
    q = sl.quantize_note_sequence(rendered, spq)
    w0 = start + sst_bars * spb
    seq1 = _junk(cl.ChordProgression, 'G7') if P.get('reuse') else (
        cl.ChordProgression())
    seq1.from_quantized_sequence(q, w0, w0 + L)
    c.check(list(seq1) == ev, 'same chords after the round trip (direct)')
    c.check(seq1.start_step == w0 and seq1.end_step == w0 + L,
            'same start and end step (direct chords)')
    c.check(seq1.steps_per_quarter == spq and seq1.steps_per_bar == spb,
            'same resolution (direct chords)')
    c.cover('progression returns to an earlier chord',
            L >= 3 and ev[0] == ev[2] != ev[1])
    c.cover('explicit no-chord inside the progression',
            L >= 3 and ev[1] == cl.NO_CHORD and ev[0] != cl.NO_CHORD)
    return
  pr = c.mod('pianoroll_lib')
  split = P['split']
  rng = P.get('range')              # None: constructor defaults 21..108
  lo, hi = rng if rng else (21, 108)
  pk = {} if rng is None else dict(min_pitch=lo, max_pitch=hi)
  top = hi - lo
  shift = P.get('shift', False)
  if shift:
    # events in MIDI pitches, including pitches just outside the range
    raw = [c.choice('e%d' % i, [(), (lo,), (lo - 1, lo, hi), (hi, hi + 1)])
           for i in range(L)]
    ev = [tuple(p - lo for p in e if lo <= p <= hi) for e in raw]
    r0 = pr.PianorollSequence(events_list=list(raw), steps_per_quarter=spq,
                              start_step=start, shift_range=True, **pk)
  else:
    ev = [c.choice('e%d' % i, [(), (0,), (0, top), (top,)]) for i in range(L)]
    r0 = pr.PianorollSequence(events_list=list(ev), steps_per_quarter=spq,
                              start_step=start, **pk)
  # an empty events_list is "no list": keep one sounding step
  c.assume(any(len(e) > 0 for e in ev))
  c.check([tuple(e) for e in r0] == ev and r0.start_step == start and
          r0.steps_per_quarter == spq and r0.end_step == start + L,
          'constructed roll has the given events (shifted and filtered when '
          'shift_range), start step and resolution')
  vel = c.int('vel', 1, 127)
  inst = c.int('inst', 0, 15)
  prog = c.int('prog', 0, 127)
  kw = dict(velocity=vel, instrument=inst, program=prog, qpm=qpm)
  base = None
  if P.get('base'):
    base = c.pb.NoteSequence()
    base.tempos.add(qpm=qpm)
    base.ticks_per_quarter = 480
    base.time_signatures.add(numerator=4, denominator=4)
    kw['base_note_sequence'] = base
    wrong = c.pb.NoteSequence()
    wrong.tempos.add(qpm=qpm + 1)
    res, err = c.raises(r0.to_sequence, qpm=qpm, base_note_sequence=wrong)
    c.check(isinstance(err, ValueError),
            'base_note_sequence with another tempo is rejected')
  rendered = r0.to_sequence(**kw)
  _wiring(c, rendered, qpm, vel, inst, prog)
  if base is not None:
    c.check(rendered.ticks_per_quarter == 480 and
            len(rendered.time_signatures) == 1 and len(base.notes) == 0,
            'base_note_sequence is the starting point and is not modified')
  c.check([tuple(e) for e in r0] == ev,
          'rendering leaves the source sequence unchanged')
  c.check(c.msg_eq(rendered, r0.to_sequence(**kw)),
          'rendering twice gives the same NoteSequence')
  c.check(c.And([c.And(n.pitch >= lo, n.pitch <= hi) for n in rendered.notes]
                or [True]), 'rendered pitches lie in the roll\'s range')
  q = sl.quantize_note_sequence(rendered, spq)
  r1 = pr.PianorollSequence(quantized_sequence=q, start_step=start,
                            split_repeats=split, **pk)
  c.check([tuple(int(x) for x in e) for e in r1] == ev,
          'same events after the round trip (direct roll)')
  c.check(r1.start_step == start and r1.end_step == start + L and
          r1.steps_per_quarter == spq,
          'same start / end step and resolution (direct roll)')
  c.cover('roll ends with a silent step (direct)', len(ev[-1]) == 0)
  c.cover('lowest and highest pitch of the range together',
          any(e == (0, top) for e in ev))


def h_tuples(c):
  """Canonical NotePerformance given directly as (shift, pitch, velocity bin,
  duration) tuples appended to an empty performance, with non-default shift /
  duration limits; tuples beyond a limit cannot be extracted (documented
  errors)."""
  pl = c.mod('performance_lib')
  sl = c.mod('sequences_lib')
  P = c.params
  sps, nb, start = P['sps'], P['bins'], P.get('start', 0)
  ms, md = P.get('ms'), P.get('md')
  PE = pl.PerformanceEvent
  empty = c.pb.NoteSequence()
  empty.quantization_info.steps_per_second = sps
  lim = {} if ms is None else dict(max_shift_steps=ms, max_duration_steps=md)
  lim_s = 1000 if ms is None else ms
  lim_d = 1000 if md is None else md
  p0 = pl.NotePerformance(empty, nb, start_step=start, **lim)
  want = []
  for i, pitch in enumerate((60, 64)):
    sh = c.choice('sh%d' % i, sorted(set([0, 1, lim_s, lim_s + 1])))
    du = c.choice('du%d' % i, sorted(set([1, lim_d, lim_d + 1])))
    b = c.choice('b%d' % i, sorted(set([1, nb])))
    want.append((sh, pitch, b, du))
  want.append((0, 67, 1, 1))
  for sh, pitch, b, du in want:
    p0.append((PE(PE.TIME_SHIFT, sh), PE(PE.NOTE_ON, pitch),
               PE(PE.VELOCITY, b), PE(PE.DURATION, du)))
  inst = c.int('inst', 0, 15)
  prog = c.int('prog', 0, 127)
  kw = dict(instrument=inst, program=prog)
  if P.get('mnd'):
    kw['max_note_duration'] = 0.5 / sps      # documented as not used
  rendered = p0.to_sequence(**kw)
  conds = [c.And(c.eq(n.instrument, inst), c.eq(n.program, prog))
           for n in rendered.notes]
  c.check(len(rendered.notes) == 3 and bool(c.And(conds)),
          'one rendered note per tuple, with the requested instrument / '
          'program')
  c.check(c.msg_eq(rendered, p0.to_sequence(**kw)),
          'rendering twice gives the same NoteSequence')
  q = sl.quantize_note_sequence_absolute(rendered, sps)
  ie = c.choice('extract', ['same', 'all', 'other'])
  xi = {'same': inst, 'all': None, 'other': inst + 1}[ie]
  p1, err = c.raises(pl.NotePerformance, q, nb, instrument=xi,
                     start_step=start, **lim)
  over_s = any(t[0] > lim_s for t in want)
  over_d = any(t[3] > lim_d for t in want)
  c.cover('tuple beyond a limit', over_s or over_d)
  if ie == 'other':
    c.check(err is None and len(p1) == 0,
            'nothing is extracted for another instrument')
    return
  if over_s or over_d:
    c.check(isinstance(err, pl.NotePerformanceError) and
            (over_d or isinstance(err, pl.TooManyTimeShiftStepsError)) and
            (over_s or isinstance(err, pl.TooManyDurationStepsError)),
            'a shift / duration beyond the limit is rejected')
    return
  c.check(err is None, 'tuples within the limits are extracted')
  if err is not None:
    return
  got = [tuple(e.event_value for e in t) for t in p1]
  types = [tuple(e.event_type for e in t) for t in p1]
  c.check(got == want and all(
      t == (PE.TIME_SHIFT, PE.NOTE_ON, PE.VELOCITY, PE.DURATION)
      for t in types), 'same tuples after the round trip (direct)')
  c.check(p1.start_step == start and p1.steps_per_second == sps and
          p1.max_shift_steps == lim_s,
          'same start step, resolution and shift limit (direct tuples)')


def h_perf_attrs(c):
  """program / is_drum / instrument / velocity / max_note_duration of
  Performance and MetricPerformance: what to_sequence writes and what the
  re-extracted performance reports, against the docstrings."""
  pl = c.mod('performance_lib')
  sl = c.mod('sequences_lib')
  P = c.params
  metric, nb, start = P['metric'], P['bins'], P.get('start', 0)
  qpm = P.get('qpm')           # None: to_sequence() without qpm (120)
  spq = P.get('spq', 4)
  PE = pl.PerformanceEvent
  prog0 = c.choice('prog0', [None, 0, 5, 127])
  drum0 = c.choice('drum0', [None, False, True])
  if metric:
    p0 = pl.MetricPerformance(steps_per_quarter=spq, start_step=start,
                              num_velocity_bins=nb, program=prog0,
                              is_drum=drum0)
    sec = 60.0 / (spq * (120.0 if qpm is None else qpm))
  else:
    p0 = pl.Performance(steps_per_second=100, start_step=start,
                        num_velocity_bins=nb, program=prog0, is_drum=drum0)
    sec = 1.0 / 100
  c.check(p0.program == prog0 and p0.is_drum == drum0,
          'constructor keeps program / is_drum')
  a = c.choice('a', [1, 2])
  b = c.choice('b', [1, 3])
  ev = []
  if nb:
    ev.append(PE(PE.VELOCITY, nb))
  ev += [PE(PE.NOTE_ON, 60), PE(PE.TIME_SHIFT, a)]
  if nb:
    ev.append(PE(PE.VELOCITY, 1))
  ev += [PE(PE.NOTE_ON, 64), PE(PE.TIME_SHIFT, b), PE(PE.NOTE_OFF, 60),
         PE(PE.NOTE_OFF, 64)]
  for e in ev:
    p0.append(e)
  vel = c.int('vel', 1, 127)
  inst = c.int('inst', 0, 15)
  over = c.choice('program', [None, 7])
  mnd = c.choice('mnd', [None, 'generous', 'one step'])
  kw = dict(velocity=vel, instrument=inst, program=over)
  if mnd == 'generous':
    kw['max_note_duration'] = 1000 * sec
  elif mnd == 'one step':
    kw['max_note_duration'] = sec
  if metric and qpm is not None:
    kw['qpm'] = qpm
  rendered = p0.to_sequence(**kw)
  w_prog = over if over is not None else (prog0 if prog0 is not None else 0)
  conds = [c.And(c.eq(n.instrument, inst), n.program == w_prog)
           for n in rendered.notes]
  if drum0 is not None:
    conds += [n.is_drum == drum0 for n in rendered.notes]
  if not nb:
    conds += [c.eq(n.velocity, vel) for n in rendered.notes]
  c.check(len(rendered.notes) == 2 and bool(c.And(conds)),
          'rendered notes carry the requested instrument, the explicit or the '
          'performance\'s program, its is_drum and (without bins) velocity')
  if metric:
    c.check(len(rendered.tempos) == 1 and c.approx(
        rendered.tempos[0].qpm, 120.0 if qpm is None else qpm),
            'rendered sequence carries the requested tempo')
  c.check(p0.program == prog0 and p0.is_drum == drum0 and
          [(e.event_type, e.event_value) for e in p0] ==
          [(e.event_type, e.event_value) for e in ev] and
          p0.start_step == start,
          'rendering leaves the performance unchanged')
  c.check(c.msg_eq(rendered, p0.to_sequence(**kw)),
          'rendering twice gives the same NoteSequence')
  if metric:
    q = sl.quantize_note_sequence(rendered, spq)
  else:
    q = sl.quantize_note_sequence_absolute(rendered, 100)
  if mnd == 'one step':
    # both notes are longer than or equal to one step: truncated to one step
    c.check(all(n.quantized_end_step - n.quantized_start_step == 1
                for n in q.notes) and
            sorted((n.pitch, n.quantized_start_step) for n in q.notes) ==
            [(60, start), (64, start + a)],
            'notes longer than max_note_duration are truncated to it')
    return
  ie = c.choice('extract', ['same', 'all', 'other'])
  xi = {'same': inst, 'all': None, 'other': inst + 1}[ie]
  if metric:
    p1 = pl.MetricPerformance(q, start_step=start, num_velocity_bins=nb,
                              instrument=xi)
    c.check(p1.steps_per_quarter == spq, 'same resolution (attrs)')
  else:
    p1 = pl.Performance(q, start_step=start, num_velocity_bins=nb,
                        instrument=xi)
    c.check(p1.steps_per_second == 100, 'same resolution (attrs)')
  if ie == 'other':
    c.check(len(p1) == 0, 'nothing is extracted for another instrument')
    return
  c.check([(e.event_type, e.event_value) for e in p1] ==
          [(e.event_type, e.event_value) for e in ev] and
          p1.start_step == start, 'same events and start step (attrs)')
  if drum0 is not None:
    c.check(p1.is_drum == drum0 and
            (p1.program is None if drum0 else p1.program == w_prog),
            'extracted performance reports the rendered program / is_drum')
  c.cover('drum performance', drum0 is True)
  c.cover('explicit program overrides the performance\'s',
          over is not None and prog0 is not None and prog0 != over)


HARNESSES = {
    'h_melody': h_melody,
    'h_drums': h_drums,
    'h_chords': h_chords,
    'h_leadsheet': h_leadsheet,
    'h_pianoroll': h_pianoroll,
    'h_performance': h_performance,
    'h_noteperf': h_noteperf,
    'h_direct': h_direct,
    'h_shape': h_shape,
    'h_steps': h_steps,
    'h_tuples': h_tuples,
    'h_perf_attrs': h_perf_attrs,
}


# (module, method defining seconds_per_step, method assigning the times, mode)
_RENDERERS = [
    ('melodies_lib', 'Melody.to_sequence', 'Melody.to_sequence', 'metric'),
    ('drums_lib', 'DrumTrack.to_sequence', 'DrumTrack.to_sequence', 'metric'),
    ('chords_lib', 'ChordProgression.to_sequence',
     'ChordProgression.to_sequence', 'metric'),
    ('pianoroll_lib', 'PianorollSequence.to_sequence',
     'PianorollSequence.to_sequence', 'metric'),
    ('performance_lib', 'MetricPerformance.to_sequence',
     'BasePerformance._to_sequence', 'metric'),
    ('performance_lib', 'Performance.to_sequence',
     'BasePerformance._to_sequence', 'absolute'),
    ('performance_lib', 'NotePerformance.to_sequence',
     'NotePerformance.to_sequence', 'absolute'),
]
_TIME_FIELDS = ('start_time', 'end_time', 'time', 'total_time')


def _grid_obligations(modname, q_sps, q_times, mode, res):
  """For every assignment `<x>.<time field> = A * seconds_per_step +
  sequence_start_time` of a renderer, the term of the step that
  quantize_to_step recovers from it, in the standard model of binary64, and
  the step A + start_step it must equal.  Everything is read from the ASTs of
  the working tree; anything that does not fit the pattern makes the lemma
  inconclusive.  Returns [(label, variables, base constraints, q, want)]."""
  import ast  # pylint: disable=g-import-not-at-top
  import z3  # pylint: disable=g-import-not-at-top
  from engine import fpk  # pylint: disable=g-import-not-at-top
  f_sps, _ = fpk.get_function(modname, q_sps)
  f_times, _ = fpk.get_function(modname, q_times)
  f_q, _ = fpk.get_function('sequences_lib', 'quantize_to_step')
  f_conv, _ = fpk.get_function('sequences_lib',
                               'steps_per_quarter_to_steps_per_second')
  cutoff = fpk.get_constant('sequences_lib', 'QUANTIZE_CUTOFF')
  out = []
  assigns = [n for n in ast.walk(f_times) if isinstance(n, ast.Assign) and
             len(n.targets) == 1 and isinstance(n.targets[0], ast.Attribute)
             and n.targets[0].attr in _TIME_FIELDS and
             'seconds_per_step' in ast.unparse(n.value)]
  if not assigns:
    raise fpk.UnsupportedConstruct('%s.%s assigns no grid times' %
                                   (modname, q_times))
  for asg in sorted(assigns, key=lambda n: n.lineno):
    tr = fpk.StdModel(consts={'QUANTIZE_CUTOFF': cutoff}, tag='g')
    qpm = z3.Real('qpm')
    start = z3.Int('start_step')
    rv = fpk.V(z3.IntVal(res), 'int')
    env = {'qpm': fpk.V(qpm, 'fp'), 'self.start_step': fpk.V(start, 'int'),
           'self.steps_per_quarter': rv, 'self._steps_per_quarter': rv,
           'self.steps_per_second': rv}
    base = [qpm >= 20, qpm <= 300, start >= 0, start <= 100000]
    tr.declare_nonneg(qpm)
    tr.declare_nonneg(start)
    # seconds_per_step
    sps_as = [n for n in ast.walk(f_sps) if isinstance(n, ast.Assign) and
              isinstance(n.targets[0], ast.Name) and
              n.targets[0].id == 'seconds_per_step']
    if len(sps_as) != 1:
      raise fpk.UnsupportedConstruct('seconds_per_step not assigned once in '
                                     '%s.%s' % (modname, q_sps))
    env['seconds_per_step'] = tr.expr(sps_as[0].value, env)
    # sequence_start_time: parameter default, then (aug)assignments in order
    params = [a.arg for a in f_times.args.args]
    if 'sequence_start_time' in params:
      k = params.index('sequence_start_time') - (
          len(params) - len(f_times.args.defaults))
      env['sequence_start_time'] = tr.expr(f_times.args.defaults[k], {})
    for n in sorted([n for n in ast.walk(f_times) if
                     isinstance(n, (ast.Assign, ast.AugAssign))],
                    key=lambda n: n.lineno):
      tgt = n.targets[0] if isinstance(n, ast.Assign) else n.target
      if not (isinstance(tgt, ast.Name) and tgt.id == 'sequence_start_time'):
        continue
      if isinstance(n, ast.Assign):
        env['sequence_start_time'] = tr.expr(n.value, env)
      else:
        env['sequence_start_time'] = tr.binop(
            n.op, env['sequence_start_time'], tr.expr(n.value, env), n)
    if 'sequence_start_time' not in env:
      raise fpk.UnsupportedConstruct('sequence_start_time not found')
    # pattern A * seconds_per_step + sequence_start_time
    v = asg.value
    ok = isinstance(v, ast.BinOp) and isinstance(v.op, ast.Add)
    a_node = None
    if ok:
      prod, off = v.left, v.right
      if isinstance(prod, ast.Name):
        prod, off = off, prod
      ok = (isinstance(off, ast.Name) and off.id == 'sequence_start_time' and
            isinstance(prod, ast.BinOp) and isinstance(prod.op, ast.Mult))
      if ok:
        if ast.unparse(prod.right) == 'seconds_per_step':
          a_node = prod.left
        elif ast.unparse(prod.left) == 'seconds_per_step':
          a_node = prod.right
        else:
          ok = False
    if not ok:
      raise fpk.UnsupportedConstruct(
          'time expression not of the form A * seconds_per_step + '
          'sequence_start_time: %s (line %d)' % (ast.unparse(v), asg.lineno))
    # free step quantities of A: non-negative integers
    for sub in ast.walk(a_node):
      key = None
      if isinstance(sub, ast.Name) and sub.id not in env:
        key = sub.id
      elif isinstance(sub, (ast.Call, ast.Attribute, ast.Subscript)):
        key = ast.unparse(sub)
      if key and key not in env:
        fv = z3.Int('v_' + ''.join(ch if ch.isalnum() else '_' for ch in key))
        env[key] = fpk.V(fv, 'int')
        tr.declare_nonneg(fv)
        base += [fv >= 0, fv <= 100000]
    a_val = tr.expr(a_node, env)
    if a_val.kind != 'int':
      raise fpk.UnsupportedConstruct('step quantity is not an integer')
    t = tr.expr(v, env)
    if mode == 'metric':
      conv_params = [a.arg for a in f_conv.args.args]
      sps2 = tr.function(f_conv, {conv_params[0]: rv,
                                  conv_params[1]: fpk.V(qpm, 'fp')})
    else:
      sps2 = rv
    qparams = [a.arg for a in f_q.args.args]
    q = tr.function(f_q, {qparams[0]: t, qparams[1]: sps2})
    if q.kind != 'int':
      raise fpk.UnsupportedConstruct('quantize_to_step does not return an int')
    out.append(('%s line %d: %s' % (q_times, asg.lineno, ast.unparse(asg)),
                base + list(tr.side), q.t, a_val.t + start))
  return out


_PROBE_CLASS = {
    'Melody.to_sequence': 'melody', 'DrumTrack.to_sequence': 'drums',
    'ChordProgression.to_sequence': 'chords',
    'PianorollSequence.to_sequence': 'pianoroll',
    'MetricPerformance.to_sequence': 'metric_perf',
    'Performance.to_sequence': 'perf'}


def _tempo_probe(mod, cls, res, qpm, start, step):
  """Renders one event at relative step `step` of a sequence starting at
  `start` with the real class, quantizes the result with the real quantizer
  and returns (recovered absolute step, expected absolute step)."""
  sl = mod('sequences_lib')
  if cls == 'melody':
    ml = mod('melodies_lib')
    ev = ml.Melody([ml.MELODY_NO_EVENT] * step + [60], start_step=start,
                   steps_per_quarter=res)
    q = sl.quantize_note_sequence(ev.to_sequence(qpm=qpm), res)
    return q.notes[0].quantized_start_step, start + step
  if cls == 'drums':
    dl = mod('drums_lib')
    ev = dl.DrumTrack([frozenset()] * step + [frozenset([36])],
                      start_step=start, steps_per_quarter=res)
    q = sl.quantize_note_sequence(ev.to_sequence(qpm=qpm), res)
    return q.notes[0].quantized_start_step, start + step
  if cls == 'chords':
    cl = mod('chords_lib')
    ev = cl.ChordProgression(['N.C.'] * step + ['C'], start_step=start,
                             steps_per_quarter=res)
    q = sl.quantize_note_sequence(ev.to_sequence(qpm=qpm), res)
    return ([ta.quantized_step for ta in q.text_annotations
             if ta.text == 'C'][0], start + step)
  if cls == 'pianoroll':
    pl = mod('pianoroll_lib')
    ev = pl.PianorollSequence(events_list=[()] * step + [(60,)],
                              steps_per_quarter=res, start_step=start)
    q = sl.quantize_note_sequence(ev.to_sequence(qpm=qpm), res)
    return q.notes[0].quantized_start_step, start + step
  if cls in ('metric_perf', 'perf'):
    pf = mod('performance_lib')
    PE = pf.PerformanceEvent
    if cls == 'metric_perf':
      ev = pf.MetricPerformance(steps_per_quarter=res, start_step=start)
    else:
      ev = pf.Performance(steps_per_second=res, start_step=start)
    left = step
    while left > 0:
      k = min(left, ev.max_shift_steps)
      ev.append(PE(PE.TIME_SHIFT, k))
      left -= k
    ev.append(PE(PE.NOTE_ON, 60))
    ev.append(PE(PE.TIME_SHIFT, 1))
    ev.append(PE(PE.NOTE_OFF, 60))
    if cls == 'metric_perf':
      q = sl.quantize_note_sequence(ev.to_sequence(qpm=qpm), res)
    else:
      q = sl.quantize_note_sequence_absolute(ev.to_sequence(), res)
    return q.notes[0].quantized_start_step, start + step
  raise ValueError(cls)


def _search_real(cls, res, qpm, start, step):
  """Looks for a concrete failing step near a standard-model counterexample by
  running the real renderer + quantizer (in a subprocess on the real stack)."""
  import json  # pylint: disable=g-import-not-at-top
  import os  # pylint: disable=g-import-not-at-top
  import subprocess  # pylint: disable=g-import-not-at-top
  import sys  # pylint: disable=g-import-not-at-top
  verif = os.path.dirname(os.path.dirname(os.path.abspath(__file__)))
  code = ('import sys, json\nsys.path.insert(0, %r)\n'
          'from engine import loader\nfrom props import c06\n'
          'env = loader.RealEnv()\ncls, res, qpm, start, step = %r\n'
          'found = None\n'
          'cands = sorted(set(min(100000, max(0, step * m + d))'
          ' for m in (1, 2, 4, 8, 16, 32, 64) for d in range(-20, 21)),'
          ' key=lambda s: abs(s - step))\n'
          'for s in cands:\n'
          '  try:\n'
          '    got, want = c06._tempo_probe(env.mod, cls, res, qpm, start, s)\n'
          '  except Exception as e:\n'
          '    got, want = repr(e), None\n'
          '  if got != want:\n'
          '    found = {"step": s, "got": got, "want": want}\n'
          '    break\n'
          'print(json.dumps(found))' % (verif, (cls, res, qpm, start, step)))
  p = subprocess.run([sys.executable, '-c', code], stdout=subprocess.PIPE,
                     stderr=subprocess.PIPE, text=True, timeout=600)
  try:
    return json.loads(p.stdout.strip().splitlines()[-1])
  except (ValueError, IndexError):
    return None


def h_tempo_witness(c):
  """Replay of a confirmed L-C06 counterexample on the real classes."""
  v = c.values
  got, want = _tempo_probe(c.mod, v['cls'], int(v['res']), float(v['qpm']),
                           int(v['start']), int(v['step']))
  c.check(got == want, 'L-C06 a rendered grid time is not recovered by '
                       'quantize_to_step')


def _lemma(job):
  """L-C06: every grid time a renderer writes is recovered by
  quantize_to_step as the step it was written for, at any tempo (standard
  model of binary64; terms generated from the ASTs of the working tree)."""
  import time  # pylint: disable=g-import-not-at-top
  import z3  # pylint: disable=g-import-not-at-top
  from engine import fpk  # pylint: disable=g-import-not-at-top
  obligations = []
  violations = []
  unconfirmed = []
  seen = {}
  status, err = 'ok', None
  grid = job['params'].get('resolutions') or {
      'metric': [1, 2, 3, 4, 6, 8, 12, 24], 'absolute': [10, 31, 100, 250]}
  t_budget = time.time() + job.get('budget_s', 600) - 20
  for modname, q_sps, q_times, mode in _RENDERERS:
    for res in grid[mode]:
      try:
        obs = _grid_obligations(modname, q_sps, q_times, mode, res)
      except fpk.UnsupportedConstruct as e:
        return {'status': 'inconclusive', 'obligations': obligations,
                'error': 'cannot regenerate L-C06 from the source (%s.%s): %s'
                         % (modname, q_times, e)}
      for label, base, q, want in obs:
        s = z3.Solver()
        s.add(base)
        s.add(q != want)
        key = s.sexpr()
        name = 'L-C06[%s %s=%d] %s' % (
            modname, 'spq' if mode == 'metric' else 'sps', res, label)
        if key in seen:
          obligations.append({'lemma': name, 'expect': 'unsat',
                              'result': seen[key], 'discharged':
                                  seen[key] == 'unsat', 'seconds': 0,
                              'statement': 'same query as an earlier lemma',
                              'backend': 'z3 nlsat (deduplicated)'})
          continue
        if time.time() > t_budget:
          status, err = 'inconclusive', 'budget exhausted at %s' % name
          break
        s.set('timeout', 120000)
        t0 = time.time()
        r = str(s.check())
        seen[key] = r
        obligations.append({
            'lemma': name, 'statement':
                'forall qpm in [20,300], start_step and step quantities in '
                '[0,1e5], relative errors |d| <= 2^-53 per operation: '
                'quantize_to_step(time written by the renderer) == the step '
                'it was written for',
            'expect': 'unsat', 'result': r, 'discharged': r == 'unsat',
            'seconds': round(time.time() - t0, 3), 'backend': 'z3 nlsat'})
        if r == 'sat':
          m = s.model()

          def val(nm):
            for dcl in m.decls():
              if dcl.name() == nm:
                x = m[dcl]
                if z3.is_int_value(x):
                  return x.as_long()
                return (float(x.numerator_as_long()) /
                        float(x.denominator_as_long()))
            return 0
          steps = [val(dcl.name()) for dcl in m.decls()
                   if dcl.name().startswith('v_')]
          cand = {'lemma': name, 'cls': _PROBE_CLASS.get(q_sps), 'res': res,
                  'qpm': float(val('qpm')) if mode == 'metric' else 120.0,
                  'start': val('start_step'),
                  'step': max(steps) if steps else 0}
          found = None
          if cand['cls'] and len(unconfirmed) + len(violations) < 3:
            found = _search_real(cand['cls'], res, cand['qpm'], cand['start'],
                                 cand['step'])
          if found:
            cand['step'] = found['step']
            violations.append({
                'label': 'L-C06 a rendered grid time is not recovered by '
                         'quantize_to_step',
                'values': cand, 'source': 'solver'})
          else:
            unconfirmed.append(cand)
        elif r != 'unsat':
          status, err = 'inconclusive', '%s: %s' % (name, r)
        s2 = z3.Solver()
        s2.set('timeout', 30000)
        s2.add(base)
        s2.add(q == want)
        r2 = str(s2.check())
        obligations.append({'lemma': name + ' (twin)',
                            'statement': 'assumptions and conclusion jointly '
                                         'satisfiable', 'expect': 'sat',
                            'result': r2, 'discharged': r2 == 'sat',
                            'seconds': 0, 'backend': 'z3 nlsat'})
        if r2 != 'sat':
          status, err = 'inconclusive', '%s twin: %s' % (name, r2)
  out = {'obligations': obligations, 'status': status,
         'solver_queries': len(obligations),
         'solver_seconds': round(sum(o['seconds'] for o in obligations), 3)}
  if violations:
    # confirmed on the real renderer + quantizer near the model point
    out['status'] = 'violation'
    out['violations'] = violations[:2]
  elif unconfirmed:
    # a standard-model counterexample is only a candidate (the deltas are
    # existential): without a concrete instance nothing is reported
    out['status'] = 'inconclusive'
    out['error'] = ('standard-model counterexample(s) not reproduced on the '
                    'real code: %s' % unconfirmed[:2])
  elif err:
    out['error'] = err
  return out


FUNCS = {'lemma_tempo': _lemma}
HARNESSES['lemma_tempo'] = h_tempo_witness


def jobs(tier):
  J = []

  def add(h, budget=300, required=True, jobkind='symex', **params):
    J.append({'harness': h, 'params': params, 'budget_s': budget,
              'required': required, 'kind': jobkind})

  deep = tier == 'thorough'
  add('lemma_tempo', jobkind='func', budget=600)
  tempi = [20, 97.3, 120, 300] if deep else [97.3, 120]
  spqs = [1, 2, 3, 4, 6, 8, 12, 24] if deep else [1, 4]
  for qpm in tempi:
    for spq in spqs:
      S = 6 if spq == 1 else (4 * spq if spq <= 2 else 2 * spq)
      small = spq > 1
      add('h_melody', N=1 if small else 2, S=min(S, 8), spq=spq, qpm=qpm,
          search=0, pad=False, budget=600)
      add('h_chords', K=2, S=5, spq=spq, qpm=qpm, start=spq * 4, end=spq * 4 + 4)
      add('h_chords', K=2, S=5, spq=spq, qpm=qpm, start=0, end=4)
  add('h_melody', N=2, S=8, spq=1, qpm=120, search=4, pad=True, budget=600)
  add('h_drums', N=2, S=6, spq=1, qpm=97.3, search=0, pad=False)
  add('h_drums', N=2, S=8, spq=1, qpm=120, search=4, pad=True)
  add('h_leadsheet', N=1, S=8, spq=1, qpm=120, search=4)
  add('h_leadsheet', N=1, S=6, spq=1, qpm=97.3, search=0)
  for split in (False, True):
    add('h_pianoroll', N=2, S=4, spq=1, qpm=97.3, split=split, start=0)
    add('h_pianoroll', N=1, S=6, spq=1, qpm=120, split=split, start=4)
  add('h_performance', kind='absolute', N=2, S=6, sps=100, bins=0, ms=3, start=0,
      budget=600)
  add('h_performance', kind='absolute', N=2, S=6, sps=31, bins=4, ms=100,
      start=2, budget=600)
  add('h_performance', kind='metric', N=2, S=6, spq=4, qpm=120, bins=32, ms=1,
      start=0, budget=600)
  add('h_performance', kind='absolute', N=2, S=5, sps=100, bins=4, ms=100,
      start=0, overlap=True, pitch=[60, 60], budget=600)
  add('h_noteperf', N=2, S=6, sps=100, bins=32)
  add('h_noteperf', N=2, S=6, sps=31, bins=32, start=2)
  # canonical sequences built without the extractor (one-bar-apart events fit)
  add('h_direct', kind='drums', L=5, spq=1, qpm=120, budget=600)
  add('h_direct', kind='drums', L=6, spq=1, qpm=97.3, start=4, budget=600)
  add('h_direct', kind='melody', L=5, spq=1, qpm=120, budget=600)
  add('h_direct', kind='melody', L=6, spq=1, qpm=97.3, start=4, budget=900)
  add('h_direct', kind='melody', L=4, spq=1, qpm=120, pad=True, budget=600)
  if deep:
    add('h_direct', kind='melody', L=8, spq=1, qpm=97.3, start=4, pad=True,
        budget=1800)
  add('h_direct', kind='perf', L=0, spq=4, qpm=120, bins=3, budget=600)
  # a non-default shift limit below and above the default of 4 quarters / 100
  # steps, with advances longer than the limit
  add('h_direct', kind='perf', L=0, spq=4, qpm=93.5, bins=2, metric=True, msq=2,
      budget=600)
  add('h_direct', kind='perf', L=0, spq=2, qpm=60, bins=2, metric=True, msq=5,
      start=16, budget=600)
  add('h_direct', kind='perf', L=0, spq=4, qpm=120, bins=2, msq=7, budget=600)
  add('h_direct', kind='perf', L=0, spq=12, qpm=93.7, bins=3, start=96,
      metric=True, budget=600)
  # --- keyword arguments, sibling situations and outputs that the round trip
  # above never varied / compared
  # chords before AND inside a shifted window at spq=4; return to an earlier
  # figure
  add('h_chords', K=2, S=20, spq=4, qpm=97.3, start=16, end=20)
  add('h_chords', K=3, S=5, spq=1, qpm=97.3, start=0, end=5,
      figs=['C', 'G7', 'C'])
  # two notes in a roll that starts in the second bar
  add('h_pianoroll', N=2, S=6, spq=1, qpm=120, split=True, start=4)
  # non-default NotePerformance limits; program / drum flag of the track
  add('h_noteperf', N=2, S=6, sps=100, bins=32, ms=3, md=2)
  add('h_noteperf', N=2, S=5, sps=31, bins=4, prog=True)
  # shapes with whole bars at steps_per_quarter 4 (steps_per_bar 16), boundary
  # pitches, instrument / velocity / program, gap_bars, sequence_start_time,
  # omitted arguments, append()/slice-built sources, reused target objects
  add('h_shape', kind='melody', spq=4, qpm=97.3)
  add('h_shape', kind='melody', spq=4, defaults=True)
  add('h_shape', kind='melody', spq=4, defaults=True, via='append')
  add('h_shape', kind='melody', spq=4, qpm=300, start=16, pad=True, reuse=True)
  add('h_shape', kind='melody', spq=1, qpm=20, gap=2, via='slice')
  add('h_shape', kind='melody', spq=2, qpm=97.3, sst_bars=1)
  add('h_shape', kind='drums', spq=4, qpm=97.3, reuse=True)
  add('h_shape', kind='drums', spq=4, defaults=True, via='append')
  add('h_shape', kind='drums', spq=1, qpm=300, gap=2, start=4, via='slice')
  add('h_shape', kind='drums', spq=2, qpm=20, sst_bars=2, pad=True)
  add('h_shape', kind='leadsheet', spq=4, qpm=97.3)
  add('h_shape', kind='leadsheet', spq=1, qpm=300, start=4, pad=True,
      reuse=True)
  add('h_shape', kind='leadsheet', spq=2, qpm=20, sst_bars=1)
  # chord progressions / piano rolls / note-performance tuples given directly
  add('h_steps', kind='chords', L=5, spq=4, qpm=97.3, start=16)
  add('h_steps', kind='chords', L=5, spq=1, qpm=300, sst_bars=1, reuse=True)
  add('h_steps', kind='roll', L=4, spq=1, qpm=97.3, split=True)
  add('h_steps', kind='roll', L=4, spq=4, qpm=20, split=False, start=16,
      range=[0, 127], base=True)
  add('h_steps', kind='roll', L=4, spq=2, qpm=300, split=True, start=8,
      range=[59, 61], shift=True)
  add('h_tuples', sps=100, bins=32)
  add('h_tuples', sps=31, bins=4, ms=3, md=2, start=2, mnd=True)
  # program / is_drum / instrument / velocity / max_note_duration of
  # performances
  add('h_perf_attrs', metric=False, bins=0)
  add('h_perf_attrs', metric=False, bins=4, start=2)
  add('h_perf_attrs', metric=True, bins=0, spq=4)
  add('h_perf_attrs', metric=True, bins=4, spq=12, qpm=93.7, start=96)
  if deep:
    for i, spq in enumerate((2, 3, 6, 8, 12, 24)):
      qpm = tempi[i % 4]
      add('h_shape', kind='melody', spq=spq, qpm=qpm, gap=1 + i % 2,
          start=4 * spq * (i % 3), budget=900)
      add('h_shape', kind='drums', spq=spq, qpm=qpm, gap=1 + i % 2,
          pad=bool(i % 2), budget=900)
      add('h_shape', kind='leadsheet', spq=spq, qpm=qpm, budget=900)
      add('h_steps', kind='chords', L=6, spq=spq, qpm=qpm, start=4 * spq,
          budget=900)
      add('h_steps', kind='roll', L=5, spq=spq, qpm=qpm, split=bool(i % 2),
          start=4 * spq, budget=900)
    for sps in (10, 250):
      add('h_tuples', sps=sps, bins=127, ms=1000, md=1, budget=900)
      add('h_tuples', sps=sps, bins=1, ms=1, md=1000, budget=900)
  if deep:
    for sps in (10, 31, 100, 250):
      for bins in (0, 1, 4, 32, 127):
        # a shift limit of one step turns every advance into a run of
        # events: those jobs take 30+ min each and are optional
        add('h_performance', kind='absolute', N=2, S=6, sps=sps, bins=bins,
            ms=[1, 3, 100, 1000][bins % 4], start=0, budget=1800,
            required=[1, 3, 100, 1000][bins % 4] != 1)
      add('h_noteperf', N=2, S=6, sps=sps, bins=127, budget=900)
    add('h_performance', kind='absolute', N=3, S=6, sps=100, bins=4, ms=3,
        start=0, budget=3000, required=False)
    for qpm in tempi:
      add('h_performance', kind='metric', N=2, S=8, spq=4, qpm=qpm, bins=4, ms=1,
          start=4, budget=1800)
      add('h_drums', N=2, S=8, spq=2, qpm=qpm, search=0, pad=True, budget=900)
      for split in (False, True):
        add('h_pianoroll', N=2, S=6, spq=2, qpm=qpm, split=split, start=0,
            budget=1800)
  return J
