"""C11 -- sequence operations never modify their argument and return
well-formed sequences (a monitor over the whole operation catalogue)."""
from fractions import Fraction

from props import common as K

META = {
    'level': 'model_checking',
    'level_text':
        'For every operation of the catalogue the real function is executed '
        'on a fully populated symbolic sequence (every repeated field incl. '
        'section annotations/groups and metadata, all times and arguments '
        'free, including the raising regions); on every path the solver '
        'shows: the argument tree is unchanged on return and on raise, a '
        'second call yields an equal result, the result is well-formed '
        '(0 <= start <= end <= total_time / steps, no negative time) and every '
        'output note is the image of an input note.',
    'level_note':
        'Trusted: z3, reals for doubles, symproto (its copy-on-extend / '
        'share-on-index aliasing behaviour is what makes aliasing defects '
        'visible; validated per sampled path on upb). "Byte-for-byte '
        'unchanged" is checked as value identity of the whole message tree.',
    'functions': [('sequences_lib', f) for f in (
        'trim_note_sequence', 'extract_subsequence', 'split_note_sequence',
        'split_note_sequence_on_time_changes', 'split_note_sequence_on_silence',
        'shift_sequence_times', 'stretch_note_sequence',
        'transpose_note_sequence', 'quantize_note_sequence',
        'quantize_note_sequence_absolute', 'apply_sustain_control_changes',
        'concatenate_sequences', 'merge_sequences',
        'repeat_sequence_to_duration', 'expand_section_groups',
        'remove_redundant_data', 'adjust_notesequence_times', 'rectify_beats')],
    'assumptions': [
        'double fields are exact reals',
        'well-formed input; arguments non-negative where they are times',
        'operations built on extraction (extract, split*, repeat, expand, '
        'rectify) place all non-note events at one shared symbolic instant '
        '(independent instants only in the optional thorough jobs)',
        'transpose amount in [-2,2] (the chord-symbol spelling walk loops over '
        'the amount); time maps piecewise linear with concrete slopes',
    ],
    'bounds': {
        'quick': '1 note (2 for sustain/concatenate) + one element of every '
                 'repeated field per input sequence',
        'thorough': '2 notes everywhere, 3 for trim/shift/stretch',
    },
    'outside': ['larger inputs', 'float rounding'],
}


def _wf(c, r, label):
  """Well-formedness of a result sequence."""
  conds = []
  quant = c.Or(r.quantization_info.steps_per_quarter > 0,
               r.quantization_info.steps_per_second > 0)
  for n in r.notes:
    conds.append(c.And(n.start_time >= 0, n.start_time <= n.end_time,
                       n.end_time <= r.total_time))
    conds.append(c.Implies(quant, c.And(
        n.quantized_start_step >= 0,
        n.quantized_start_step <= n.quantized_end_step,
        n.quantized_end_step <= r.total_quantized_steps)))
  for name in ('time_signatures', 'key_signatures', 'tempos', 'pitch_bends',
               'control_changes', 'text_annotations', 'section_annotations'):
    for e in getattr(r, name):
      conds.append(e.time >= 0)
  conds.append(r.total_time >= 0)
  c.check(c.And(conds), label + ': result well-formed')


def _not_invented(c, r, inputs, shift, limit, label):
  """Every output note carries the identity fields of some input note."""
  src = [n for ns in inputs for n in ns.notes]
  c.check(len(r.notes) <= limit, label + ': no more notes than the inputs allow')
  for m in r.notes:
    c.check(c.Or([c.And(c.Or(c.eq(m.pitch, n.pitch + shift),
                             c.And(n.is_drum, c.eq(m.pitch, n.pitch))),
                        c.eq(m.velocity, n.velocity),
                        c.eq(m.instrument, n.instrument),
                        c.eq(m.program, n.program), c.eq(m.is_drum, n.is_drum))
                  for n in src] or [False]),
            label + ': output note is the image of an input note')


def _results(res):
  if res is None:
    return []
  if isinstance(res, tuple):
    res = res[0]
  if isinstance(res, list):
    return list(res)
  return [res]


def _same(c, a, b):
  ra, rb = _results(a), _results(b)
  if len(ra) != len(rb):
    return False
  return c.And([c.msg_eq(x, y) for x, y in zip(ra, rb)] or [True])


def _monitor(c, label, inputs, call, limit, shift=0, allowed=()):
  befores = [c.snapshot(x) for x in inputs]
  res, err = c.raises(call)
  for x, b in zip(inputs, befores):
    c.check(c.msg_eq(x, b), label + ': argument unchanged' +
            (' (raising path)' if err is not None else ''))
  if err is not None:
    c.check(isinstance(err, allowed), label + ': only documented errors')
    c.cover(label + ' raises')
    # a second call must raise the same way
    res2, err2 = c.raises(call)
    c.check(err2 is not None and type(err2) is type(err),
            label + ': second call raises again')
    return None
  c.cover(label + ' returns')
  res2, err2 = c.raises(call)
  c.check(err2 is None, label + ': second call does not raise')
  c.check(_same(c, res, res2), label + ': second call gives the same result')
  for x, b in zip(inputs, befores):
    c.check(c.msg_eq(x, b), label + ': argument unchanged after second call')
  for r in _results(res):
    c.check(all(r is not x for x in inputs), label + ': returns a new object')
    _wf(c, r, label)
    _not_invented(c, r, inputs, shift, limit, label)
  return res


def _full(c, N, prefix='', **kw):
  ns = c.pb.NoteSequence()
  kw.setdefault('shared_time', c.params.get('shared_time', False))
  info = K.populate_full(c, ns, N, prefix=prefix, groups=kw.pop('groups', False),
                         **kw)
  return ns, info


def op_trim(c, sl, N):
  ns, _ = _full(c, N)
  a, b = c.real('a', 0), c.real('b', 0)
  _monitor(c, 'trim', [ns], lambda: sl.trim_note_sequence(ns, a, b), N)


def op_extract(c, sl, N):
  ns, _ = _full(c, N)
  a, b = c.real('a', 0), c.real('b', 0)
  _monitor(c, 'extract', [ns], lambda: sl.extract_subsequence(ns, a, b), N,
           allowed=(ValueError,))


def op_split_list(c, sl, N):
  ns, _ = _full(c, N)
  ts = [c.real('t%d' % i, 0) for i in range(c.params.get('M', 1))]
  skip = c.params['skip']
  _monitor(c, 'split(list)', [ns],
           lambda: sl.split_note_sequence(ns, list(ts), skip), N,
           allowed=(ValueError,))


def op_split_hop(c, sl, N):
  ns, info = _full(c, N)
  hop = c.real('hop')
  c.assume(hop > 0)
  c.assume(info['tt'] <= c.params.get('max_hops', 2) * hop)
  skip = c.params['skip']
  _monitor(c, 'split(hop)', [ns], lambda: sl.split_note_sequence(ns, hop, skip),
           N, allowed=(ValueError,))


def op_split_changes(c, sl, N):
  ns, _ = _full(c, N)
  skip = c.params['skip']
  _monitor(c, 'split(time changes)', [ns],
           lambda: sl.split_note_sequence_on_time_changes(ns, skip), N,
           allowed=(ValueError,))


def op_split_silence(c, sl, N):
  ns, _ = _full(c, N)
  gap = c.real('gap', 0)
  _monitor(c, 'split(silence)', [ns],
           lambda: sl.split_note_sequence_on_silence(ns, gap), N,
           allowed=(ValueError,))


def op_shift(c, sl, N):
  ns, _ = _full(c, N)
  s = c.real('s')
  _monitor(c, 'shift', [ns], lambda: sl.shift_sequence_times(ns, s), N,
           allowed=(ValueError,))


def op_stretch(c, sl, N):
  ns, _ = _full(c, N)
  f = c.real('f')
  c.assume(f > 0)
  _monitor(c, 'stretch', [ns], lambda: sl.stretch_note_sequence(ns, f), N)


def op_transpose(c, sl, N):
  ns, _ = _full(c, N)
  k = c.int('k', -2, 2)
  lo = c.int('lo', 0, 127)
  hi = c.int('hi', 0, 127)
  cs = c.mod('chord_symbols_lib')
  res = _monitor(c, 'transpose', [ns],
                 lambda: sl.transpose_note_sequence(ns, k, lo, hi), N, shift=k,
                 allowed=(cs.ChordSymbolError,))


def op_quantize_rel(c, sl, N):
  ns, _ = _full(c, N)
  spq = c.params['spq']
  _monitor(c, 'quantize', [ns], lambda: sl.quantize_note_sequence(ns, spq), N,
           allowed=(sl.MultipleTempoError, sl.MultipleTimeSignatureError,
                    sl.BadTimeSignatureError, sl.NegativeTimeError))


def op_quantize_abs(c, sl, N):
  ns, _ = _full(c, N)
  sps = c.params['sps']
  _monitor(c, 'quantize_absolute', [ns],
           lambda: sl.quantize_note_sequence_absolute(ns, sps), N,
           allowed=(sl.NegativeTimeError,))


def op_sustain(c, sl, N):
  ns, _ = _full(c, N)
  # make the populated control change a pedal event on a note's instrument
  ns.control_changes.add(time=c.real('sus_t', 0), control_number=64,
                         control_value=c.int('sus_v', 0, 127),
                         instrument=ns.notes[0].instrument)
  _monitor(c, 'apply_sustain', [ns],
           lambda: sl.apply_sustain_control_changes(ns), N)


def op_concat(c, sl, N):
  a, _ = _full(c, N, prefix='A')
  b, _ = _full(c, N, prefix='B')
  _monitor(c, 'concatenate', [a, b], lambda: sl.concatenate_sequences([a, b]),
           2 * N)


def op_concat_dur(c, sl, N):
  a, _ = _full(c, N, prefix='A')
  b, _ = _full(c, N, prefix='B')
  d = [c.real('d0', 0), c.real('d1', 0)]
  _monitor(c, 'concatenate(durations)', [a, b],
           lambda: sl.concatenate_sequences([a, b], list(d)), 2 * N,
           allowed=(ValueError,))


def op_merge(c, sl, N):
  a, _ = _full(c, N, prefix='A')
  b, _ = _full(c, N, prefix='B')
  _monitor(c, 'merge', [a, b], lambda: sl.merge_sequences([a, b]), 2 * N)


def op_repeat(c, sl, N):
  ns, info = _full(c, N)
  c.assume(info['tt'] > 0)
  d = c.real('dur')
  c.assume(d > 0)
  c.assume(d <= 2 * info['tt'])
  _monitor(c, 'repeat', [ns], lambda: sl.repeat_sequence_to_duration(ns, d),
           2 * N, allowed=(ValueError,))


def op_expand(c, sl, N):
  pb = c.pb
  ns, info = _full(c, N, section=False)
  # two sections A(id 0) B(id 1) and the form |: A :| B
  t1 = c.real('sec1_t', 0)
  c.assume(t1 < info['tt'])
  c.assume(t1 > 0)
  if c.params.get('reversed_annotations'):
    # stored out of time order: the call may raise, the input must stay as is
    ns.section_annotations.add(time=t1, section_id=1)
    ns.section_annotations.add(time=0, section_id=0)
  else:
    ns.section_annotations.add(time=0, section_id=0)
    ns.section_annotations.add(time=t1, section_id=1)
  g = ns.section_groups.add(num_times=2)
  g.sections.add(section_id=0)
  g2 = ns.section_groups.add(num_times=1)
  g2.sections.add(section_id=1)
  _monitor(c, 'expand_section_groups', [ns],
           lambda: sl.expand_section_groups(ns), 3 * N, allowed=(ValueError,))


def op_expand_nogroups(c, sl, N):
  ns, _ = _full(c, N)
  _monitor(c, 'expand_section_groups(no groups)', [ns],
           lambda: sl.expand_section_groups(ns), N)


def op_redundant(c, sl, N):
  ns, _ = _full(c, N)
  ns.tempos.add(time=c.real('tp2_t', 0), qpm=c.real('tp2_q', 10, 480))
  ns.sequence_metadata.composers.append('a')
  _monitor(c, 'remove_redundant_data', [ns],
           lambda: sl.remove_redundant_data(ns), N)


def op_adjust(c, sl, N):
  ns, _ = _full(c, N)
  m1 = Fraction(*c.params['m1']) if c.mode == 'sym' else (
      c.params['m1'][0] / c.params['m1'][1])
  m2 = Fraction(*c.params['m2']) if c.mode == 'sym' else (
      c.params['m2'][0] / c.params['m2'][1])
  bp = c.real('bp', 0)
  off = c.real('off', -2, 2)

  def f(t):
    if t < bp:
      return off + m1 * t
    return off + m1 * bp + m2 * (t - bp)

  _monitor(c, 'adjust_notesequence_times', [ns],
           lambda: sl.adjust_notesequence_times(ns, f), N,
           allowed=(sl.InvalidTimeAdjustmentError,))


def op_rectify(c, sl, N):
  ns, _ = _full(c, N)
  ns.text_annotations.add(
      time=c.real('beat_t', 0),
      annotation_type=c.pb.NoteSequence.TextAnnotation.BEAT)
  _monitor(c, 'rectify_beats', [ns], lambda: sl.rectify_beats(ns, 120), N,
           allowed=(sl.RectifyBeatsError, sl.InvalidTimeAdjustmentError))


_QUANT_OPS = {
    'trim': lambda sl, ns: sl.trim_note_sequence(ns, 0, 1),
    'extract': lambda sl, ns: sl.extract_subsequence(ns, 0, 1),
    'shift': lambda sl, ns: sl.shift_sequence_times(ns, 1),
    'stretch': lambda sl, ns: sl.stretch_note_sequence(ns, 2),
    'apply_sustain': lambda sl, ns: sl.apply_sustain_control_changes(ns),
    'rectify_beats': lambda sl, ns: sl.rectify_beats(ns, 120),
}


def op_quantized_input(c, sl, N):
  """Operations documented to reject quantized input leave it untouched."""
  ns, _ = _full(c, 1)
  which = c.params['which']
  if c.params['abs']:
    ns.quantization_info.steps_per_second = c.int('qsps', 1, 100)
  else:
    ns.quantization_info.steps_per_quarter = c.int('qspq', 1, 96)
  before = c.snapshot(ns)
  res, err = c.raises(_QUANT_OPS[which], sl, ns)
  c.check(err is not None and isinstance(err, sl.QuantizationStatusError),
          which + ': quantized input rejected with QuantizationStatusError')
  c.check(c.msg_eq(ns, before), which + ': argument unchanged (raising path)')


OPS = {
    'trim': op_trim, 'extract': op_extract, 'split_list': op_split_list,
    'split_hop': op_split_hop, 'split_changes': op_split_changes,
    'split_silence': op_split_silence, 'shift': op_shift,
    'stretch': op_stretch, 'transpose': op_transpose,
    'quantize_rel': op_quantize_rel, 'quantize_abs': op_quantize_abs,
    'sustain': op_sustain, 'concat': op_concat, 'concat_dur': op_concat_dur,
    'merge': op_merge, 'repeat': op_repeat, 'expand': op_expand,
    'expand_nogroups': op_expand_nogroups, 'redundant': op_redundant,
    'adjust': op_adjust, 'rectify': op_rectify,
    'quantized_input': op_quantized_input,
}


def _mk(name):
  def h(c):
    OPS[name](c, c.mod('sequences_lib'), c.params.get('N', 1))
  h.__name__ = 'op_' + name
  return h


HARNESSES = {'op_' + k: _mk(k) for k in OPS}


def jobs(tier):
  J = []

  def add(h, budget=200, required=True, **params):
    J.append({'harness': 'op_' + h, 'params': params, 'budget_s': budget,
              'required': required})

  deep = tier == 'thorough'
  # operations built on _extract_subsequences case-split on the position of
  # every event relative to every split point; their non-note events share one
  # symbolic instant so the split is not multiplied across the 7 event kinds
  shared = ('extract', 'split_silence', 'repeat', 'expand', 'rectify',
            'split_list', 'split_hop', 'split_changes')
  for name in ('trim', 'extract', 'split_silence', 'shift', 'stretch',
               'transpose', 'sustain', 'concat', 'concat_dur', 'merge',
               'repeat', 'expand', 'expand_nogroups', 'redundant', 'rectify'):
    add(name, N=1, shared_time=name in shared)
  for skip in (False, True):
    add('split_list', N=1, skip=skip, shared_time=True)
    add('split_hop', N=1, skip=skip, shared_time=True)
    add('split_changes', N=1, skip=skip, shared_time=True)
  add('expand', N=1, shared_time=True, reversed_annotations=True)
  add('quantize_rel', N=1, spq=4)
  add('quantize_abs', N=1, sps=100)
  # two notes where that costs seconds (sustain and the _extract_subsequences
  # family stay at one note in this tier)
  for name in ('trim', 'shift', 'stretch', 'transpose', 'concat', 'merge',
               'redundant'):
    add(name, N=2, shared_time=False, budget=400)
  add('quantize_rel', N=2, spq=4, budget=400)
  add('quantize_abs', N=2, sps=100, budget=400)
  add('adjust', N=1, m1=[1, 2], m2=[2, 1])
  add('adjust', N=1, m1=[1, 1], m2=[-1, 1])
  for which in _QUANT_OPS:
    add('quantized_input', which=which, abs=False)
  add('quantized_input', which='shift', abs=True)
  if deep:
    for name in ('trim', 'extract', 'split_silence', 'shift', 'stretch',
                 'transpose', 'sustain', 'concat', 'merge', 'repeat', 'expand',
                 'redundant', 'rectify'):
      add(name, N=2, budget=1800, required=name not in ('sustain', 'expand'),
          shared_time=name in shared)
    for name in ('extract', 'split_silence'):
      add(name, N=1, budget=2400, required=False, shared_time=False)
    for skip in (False, True):
      add('split_list', N=2, M=1, skip=skip, budget=1800, shared_time=True)
      add('split_list', N=1, M=2, skip=skip, budget=1800, shared_time=True)
      add('split_hop', N=1, max_hops=3, skip=skip, budget=1800, shared_time=True)
      add('split_changes', N=2, skip=skip, budget=1800, shared_time=True)
    add('quantize_rel', N=2, spq=24, budget=900)
    add('quantize_abs', N=2, sps=31, budget=900)
    add('adjust', N=2, m1=[0, 1], m2=[1, 1], budget=1800)
    for name in ('trim', 'shift', 'stretch'):
      add(name, N=3, budget=1800)
  return J
