"""C11 -- sequence operations never modify their argument and return
well-formed sequences (a monitor over the whole operation catalogue)."""
from fractions import Fraction

from props import common as K

META = {
    'level': 'model_checking',
    'level_text':
        'For every operation of the catalogue the real function is executed '
        'on a fully populated symbolic sequence (every repeated field incl. '
        'section annotations/groups and metadata, all times and arguments '
        'free, including the raising regions); on every path the solver '
        'shows: the argument tree is unchanged on return and on raise, a '
        'second call yields an equal result, the result is well-formed '
        '(0 <= start <= end <= total_time / steps, no negative time or step) '
        'and every output note is the image of an input note.  Keyword '
        'arguments and documented defaults, raise conditions and counts are '
        'checked against oracles written from the docstrings.',
    'level_note':
        'Trusted: z3, reals for doubles, symproto (its copy-on-extend / '
        'share-on-index aliasing behaviour is what makes aliasing defects '
        'visible; validated per sampled path on upb). "Byte-for-byte '
        'unchanged" is checked as value identity of the whole message tree.',
    'functions': [('sequences_lib', f) for f in (
        'trim_note_sequence', 'extract_subsequence', 'split_note_sequence',
        'split_note_sequence_on_time_changes', 'split_note_sequence_on_silence',
        'shift_sequence_times', 'stretch_note_sequence',
        'transpose_note_sequence', 'quantize_note_sequence',
        'quantize_note_sequence_absolute', 'apply_sustain_control_changes',
        'concatenate_sequences', 'merge_sequences',
        'repeat_sequence_to_duration', 'expand_section_groups',
        'remove_redundant_data', 'adjust_notesequence_times', 'rectify_beats')],
    'assumptions': [
        'double fields are exact reals',
        'well-formed input; arguments non-negative where they are times',
        'operations built on extraction (extract, split*, repeat, expand, '
        'rectify) place all non-note events of the fully populated input at '
        'one shared symbolic instant; independent instants in the lean inputs '
        '(notes + one or two events of the listed kinds) and in the optional '
        'thorough jobs',
        'transpose amount in [-2,2] with chord symbols (the spelling walk '
        'loops over the amount), [-24,24] with transpose_chords=False; time '
        'maps piecewise linear with concrete slopes',
        'concrete where the library hashes or multiplies: steps_per_quarter '
        '3/4, steps_per_second 7/100, beats_per_minute 90/120, '
        'preserve_control_numbers [7], sustain_control_number 66',
        'merge / concatenate of already quantized sequences only on the '
        'refusing path',
    ],
    'bounds': {
        'quick': 'fully populated input: 1 note (2 for trim/shift/stretch/'
                 'transpose/concat/merge/redundant/quantize) + one element of '
                 'every repeated field; lean input: 0-2 notes in any storage '
                 'order + 0-2 events of one or two kinds in any storage order; '
                 'keyword arguments: minimum_duration, sequence_duration, '
                 'transpose_chords, in_place (stretch, transpose), default '
                 'pitch range / skip_splits_inside_notes / gap_seconds, '
                 'sustain_control_number, preserve_control_numbers; 0/1/3 '
                 'sequences and one object twice for concatenate/merge, '
                 'duration lists of the wrong length; <= 3 pieces, <= 3 '
                 'repeats; nested section group x 0..2; quantized input '
                 '(relative and absolute) for every operation that refuses it '
                 'and for transpose/redundant/quantize*; tuple results '
                 '(counts, alignment) and caller-owned lists are compared too',
        'thorough': '2 notes everywhere, 3 for trim/shift/stretch; the '
                    'keyword variants on fully populated inputs',
    },
    'outside': ['larger inputs', 'float rounding',
                'total_time == 0 for repeat (ZeroDivisionError), stretch '
                'factor <= 0, section groups naming a missing section',
                'read-only consumers (sequence_to_pianoroll, '
                'sequence_to_valued_intervals, steps_per_bar_...)'],
}


def _wf(c, r, label):
  """Well-formedness of a result sequence."""
  conds = []
  quant = c.Or(r.quantization_info.steps_per_quarter > 0,
               r.quantization_info.steps_per_second > 0)
  for n in r.notes:
    conds.append(c.And(n.start_time >= 0, n.start_time <= n.end_time,
                       n.end_time <= r.total_time))
    conds.append(c.Implies(quant, c.And(
        n.quantized_start_step >= 0,
        n.quantized_start_step <= n.quantized_end_step,
        n.quantized_end_step <= r.total_quantized_steps)))
  for name in ('time_signatures', 'key_signatures', 'tempos', 'pitch_bends',
               'control_changes', 'text_annotations', 'section_annotations'):
    for e in getattr(r, name):
      conds.append(e.time >= 0)
  conds.append(r.total_time >= 0)
  c.check(c.And(conds), label + ': result well-formed')
  # "no time is negative" on the step grid of a quantized result
  steps = [c.Implies(quant, e.quantized_step >= 0)
           for name in ('control_changes', 'text_annotations')
           for e in getattr(r, name)]
  steps.append(c.Implies(quant, r.total_quantized_steps >= 0))
  c.check(c.And(steps), label + ': no negative quantized step')


def _not_invented(c, r, inputs, shift, limit, label):
  """Every output note carries the identity fields of some input note."""
  src = [n for ns in inputs for n in ns.notes]
  c.check(len(r.notes) <= limit, label + ': no more notes than the inputs allow')
  for m in r.notes:
    c.check(c.Or([c.And(c.Or(c.eq(m.pitch, n.pitch + shift),
                             c.And(n.is_drum, c.eq(m.pitch, n.pitch))),
                        c.eq(m.velocity, n.velocity),
                        c.eq(m.instrument, n.instrument),
                        c.eq(m.program, n.program), c.eq(m.is_drum, n.is_drum))
                  for n in src] or [False]),
            label + ': output note is the image of an input note')


def _results(res):
  if res is None:
    return []
  if isinstance(res, tuple):
    res = res[0]
  if isinstance(res, list):
    return list(res)
  return [res]


def _extras(res):
  """Elements after the sequence of a tuple result (deleted / skipped note
  counts, the alignment array of rectify_beats) as nested lists / scalars."""
  if not isinstance(res, tuple):
    return []
  return [x.tolist() if hasattr(x, 'tolist') else x for x in res[1:]]


def _val_eq(c, x, y):
  if isinstance(x, (list, tuple)) or isinstance(y, (list, tuple)):
    if not (isinstance(x, (list, tuple)) and isinstance(y, (list, tuple))):
      return False
    if len(x) != len(y):
      return False
    return c.And([_val_eq(c, p, q) for p, q in zip(x, y)] or [True])
  return c.eq(x, y)


def _same(c, a, b):
  ra, rb = _results(a), _results(b)
  if len(ra) != len(rb):
    return False
  return c.And([c.msg_eq(x, y) for x, y in zip(ra, rb)] +
               [_val_eq(c, _extras(a), _extras(b))])


def _list_kept(c, lst, saved):
  """The caller's Python list holds the same elements in the same order."""
  if len(lst) != len(saved):
    return False
  return c.And([True if x is y else
                (False if hasattr(x, 'notes') or hasattr(y, 'notes')
                 else c.eq(x, y))
                for x, y in zip(lst, saved)] or [True])


def _monitor(c, label, inputs, call, limit, shift=0, allowed=(), lists=()):
  """`lists`: Python lists handed to the operation by the caller (split
  times, durations, the list of sequences); they must come back as given."""
  befores = [c.snapshot(x) for x in inputs]
  saved = [list(l) for l in lists]
  res, err = c.raises(call)
  for x, b in zip(inputs, befores):
    c.check(c.msg_eq(x, b), label + ': argument unchanged' +
            (' (raising path)' if err is not None else ''))
  for l, l0 in zip(lists, saved):
    c.check(_list_kept(c, l, l0), label + ': list argument unchanged' +
            (' (raising path)' if err is not None else ''))
  if err is not None:
    c.check(isinstance(err, allowed), label + ': only documented errors')
    c.cover(label + ' raises')
    # a second call must raise the same way
    res2, err2 = c.raises(call)
    c.check(err2 is not None and type(err2) is type(err),
            label + ': second call raises again')
    return None
  c.cover(label + ' returns')
  res2, err2 = c.raises(call)
  c.check(err2 is None, label + ': second call does not raise')
  c.check(_same(c, res, res2), label + ': second call gives the same result')
  for x, b in zip(inputs, befores):
    c.check(c.msg_eq(x, b), label + ': argument unchanged after second call')
  for l, l0 in zip(lists, saved):
    c.check(_list_kept(c, l, l0),
            label + ': list argument unchanged after second call')
  rs = _results(res)
  c.check(all(rs[i] is not rs[j] for i in range(len(rs)) for j in range(i)),
          label + ': returned sequences are distinct objects')
  for r in rs:
    c.check(all(r is not x for x in inputs), label + ': returns a new object')
    _wf(c, r, label)
    _not_invented(c, r, inputs, shift, limit, label)
  return res


def _add_event(c, ns, kind, name):
  """One more element of repeated field `kind` at its own symbolic instant."""
  t = c.real(name + '_t', 0)
  if kind == 'tempos':
    ns.tempos.add(time=t, qpm=c.real(name + '_q', 10, 480))
  elif kind == 'time_signatures':
    ns.time_signatures.add(time=t, numerator=c.int(name + '_n', 1, 12),
                           denominator=4)
  elif kind == 'key_signatures':
    ns.key_signatures.add(time=t, key=c.int(name + '_k', 0, 11),
                          mode=c.int(name + '_m', 0, 1))
  elif kind == 'control_changes':
    ns.control_changes.add(time=t, control_number=c.int(name + '_n', 0, 127),
                           control_value=c.int(name + '_v', 0, 127),
                           instrument=c.int(name + '_i', 0, 1))
  elif kind == 'pitch_bends':
    ns.pitch_bends.add(time=t, bend=c.int(name + '_b', -8192, 8191),
                       instrument=c.int(name + '_i', 0, 1))
  elif kind == 'text_annotations':
    ns.text_annotations.add(time=t, text='Cmaj7',
                            annotation_type=c.int(name + '_ty', 0, 2))
  elif kind == 'section_annotations':
    ns.section_annotations.add(time=t, section_id=c.int(name + '_id', 0, 5))
  else:
    raise KeyError(kind)
  return t


def _lean(c, ns, N, P, kinds):
  """N notes (two instruments) and one event of each listed kind, every event
  at its own instant: the shape that exposes in-place sorting of the caller's
  notes, aliasing between pieces and events carried into several pieces, at a
  cost that fits the quick tier."""
  notes = K.add_notes(c, ns, N, prefix=P + 'n', instruments=(0, 1), drums=True,
                      programs=(0, 127))
  tt = K.well_formed_total(c, ns, notes, name=P + 'tt')
  ev = [(kind, 0, _add_event(c, ns, kind, P + 'l_' + kind)) for kind in kinds]
  ns.id = P + 'id'
  ns.ticks_per_quarter = c.int(P + 'tpq', 1, 960)
  ns.sequence_metadata.title = 'title'
  ns.subsequence_info.start_time_offset = c.real(P + 'sub_s', 0)
  return {'notes': notes, 'tt': tt, 'events': ev}


def _quantize_input(c, ns, how, P):
  """Marks `ns` as an already quantized, well-formed sequence."""
  if how == 'abs':
    ns.quantization_info.steps_per_second = c.int(P + 'qsps', 1, 100)
  else:
    ns.quantization_info.steps_per_quarter = c.int(P + 'qspq', 1, 96)
  tq = c.int(P + 'tqs', 0, 1 << 20)
  ns.total_quantized_steps = tq
  for i, n in enumerate(ns.notes):
    qs = c.int('%sn%d_qs' % (P, i), 0)
    qe = c.int('%sn%d_qe' % (P, i), 0)
    c.assume(qs <= qe)
    c.assume(qe <= tq)
    n.quantized_start_step = qs
    n.quantized_end_step = qe
  for name in ('control_changes', 'text_annotations'):
    for j, e in enumerate(getattr(ns, name)):
      e.quantized_step = c.int('%s%s%d_q' % (P, name[0], j), 0, 1 << 20)


def _full(c, N, prefix='', **kw):
  """The input of one operation.  Job parameters: `lean` (list of event kinds;
  see _lean) instead of the fully populated sequence, `dup` (kinds that get a
  second element at an independent instant, so also stored out of time order),
  `quantized` ('rel' / 'abs': the input is itself a quantized sequence)."""
  ns = c.pb.NoteSequence()
  lean = c.params.get('lean')
  if lean is not None:
    info = _lean(c, ns, N, prefix, lean)
    kw.pop('groups', None)
  else:
    kw.setdefault('shared_time', c.params.get('shared_time', False))
    info = K.populate_full(c, ns, N, prefix=prefix,
                           groups=kw.pop('groups', False), **kw)
  for kind in c.params.get('dup', ()):
    info['events'].append(
        (kind, len(getattr(ns, kind)),
         _add_event(c, ns, kind, prefix + 'x_' + kind)))
  if c.params.get('quantized'):
    _quantize_input(c, ns, c.params['quantized'], prefix)
  return ns, info


def op_trim(c, sl, N):
  ns, _ = _full(c, N)
  a, b = c.real('a', 0), c.real('b', 0)
  _monitor(c, 'trim', [ns], lambda: sl.trim_note_sequence(ns, a, b), N)


def op_extract(c, sl, N):
  ns, info = _full(c, N)
  a, b = c.real('a', 0), c.real('b', 0)
  if not c.params.get('pcn'):
    _monitor(c, 'extract', [ns], lambda: sl.extract_subsequence(ns, a, b), N,
             allowed=(ValueError,))
    return
  # preserve_control_numbers: one caller-chosen controller instead of 64/66/67
  # (concrete: the library hashes (instrument, controller) pairs)
  keep = [c.params['pcn']]
  res = _monitor(
      c, 'extract(preserve)', [ns],
      lambda: sl.extract_subsequence(ns, a, b, preserve_control_numbers=keep),
      N, allowed=(ValueError,), lists=[keep])
  if res is None:
    return
  c.check(c.And([c.eq(cc.control_number, keep[0])
                 for cc in res.control_changes] or [True]),
          'extract(preserve): only the listed controllers are kept')
  # documented: events of a preserved controller inside the range stay, the
  # most recent one before the range is included at its start, later ones go
  src = list(ns.control_changes)
  if len(src) == 1:
    listed = c.eq(src[0].control_number, keep[0])
    n_out = len(res.control_changes)
    c.check(c.Implies(c.And(listed, src[0].time < b), n_out == 1),
            'extract(preserve): listed controller before the end is kept')
    c.check(c.Implies(c.Or(c.Not(listed), src[0].time > b), n_out == 0),
            'extract(preserve): other or later controller events are removed')


def _split_args(c, first):
  """Positional arguments of a split call; skip=None leaves the keyword out
  (documented default: False)."""
  skip = c.params['skip']
  return (first,) if skip is None else (first, skip)


def op_split_list(c, sl, N):
  ns, info = _full(c, N)
  M = c.params.get('M', 1)
  ts = [c.real('t%d' % i, 0) for i in range(M)]
  args = _split_args(c, ts)
  res = _monitor(c, 'split(list)', [ns],
                 lambda: sl.split_note_sequence(ns, *args), N,
                 allowed=(ValueError,), lists=[ts])
  if res is not None and not c.params['skip']:
    # skip_splits_inside_notes False (given or by default): split at every
    # listed time regardless of notes
    inside = c.And([c.And(t > 0, t < info['tt']) for t in ts] +
                   [c.Not(c.eq(ts[i], ts[j]))
                    for i in range(M) for j in range(i)])
    c.check(c.Implies(inside, len(res) == M + 1),
            'split(list): without skipping every listed time splits')


def op_split_hop(c, sl, N):
  ns, info = _full(c, N)
  hop = c.real('hop')
  c.assume(hop > 0)
  H = c.params.get('max_hops', 2)
  c.assume(info['tt'] <= H * hop)
  args = _split_args(c, hop)
  res = _monitor(c, 'split(hop)', [ns],
                 lambda: sl.split_note_sequence(ns, *args),
                 N, allowed=(ValueError,))
  if res is not None and not c.params['skip']:
    pieces = c.Count([k * hop < info['tt'] for k in range(0, H)])
    c.check(c.eq(len(res), pieces),
            'split(hop): without skipping one piece per started hop')


def op_split_changes(c, sl, N):
  ns, info = _full(c, N)
  args = () if c.params['skip'] is None else (c.params['skip'],)
  res = _monitor(c, 'split(time changes)', [ns],
                 lambda: sl.split_note_sequence_on_time_changes(ns, *args), N,
                 allowed=(ValueError,))
  if (res is not None and not c.params['skip'] and
      len(ns.tempos) == 1 and len(ns.time_signatures) == 1):
    tp, sg = ns.tempos[0], ns.time_signatures[0]
    tt = info['tt']
    real = c.And(c.Not(c.eq(tp.qpm, 120)), c.Not(c.eq(sg.numerator, 4)),
                 tp.time > 0, tp.time < tt, sg.time > 0, sg.time < tt)
    c.check(c.Implies(real, c.eq(len(res),
                                 c.If(c.eq(tp.time, sg.time), 2, 3))),
            'split(time changes): without skipping every change splits')


def op_split_silence(c, sl, N):
  ns, info = _full(c, N)
  if c.params.get('default_gap'):
    res = _monitor(c, 'split(silence)', [ns],
                   lambda: sl.split_note_sequence_on_silence(ns), N,
                   allowed=(ValueError,))
    gap = 3
  else:
    gap = c.real('gap', 0)
    res = _monitor(c, 'split(silence)', [ns],
                   lambda: sl.split_note_sequence_on_silence(ns, gap), N,
                   allowed=(ValueError,))
  if res is not None and N == 1:
    # one note: the only silence that can exceed the gap is the lead-in
    s0 = ns.notes[0].start_time
    c.check(c.Implies(s0 <= gap, len(res) <= 1),
            'split(silence): no split without a gap longer than gap_seconds')
    c.check(c.Implies(c.And(s0 > gap, s0 < info['tt']), len(res) == 2),
            'split(silence): a longer gap splits')


def op_shift(c, sl, N):
  ns, _ = _full(c, N)
  s = c.real('s')
  _monitor(c, 'shift', [ns], lambda: sl.shift_sequence_times(ns, s), N,
           allowed=(ValueError,))


_TIMED = ('time_signatures', 'key_signatures', 'tempos', 'pitch_bends',
          'control_changes', 'text_annotations')


def op_stretch(c, sl, N):
  ns, _ = _full(c, N)
  f = c.real('f')
  c.assume(f > 0)
  if not c.params.get('in_place'):
    _monitor(c, 'stretch', [ns], lambda: sl.stretch_note_sequence(ns, f), N)
    return
  # in_place=True: "the input note_sequence is edited directly"
  old = c.snapshot(ns)
  res, err = c.raises(lambda: sl.stretch_note_sequence(ns, f, in_place=True))
  c.check(err is None, 'stretch(in_place): does not raise')
  if err is not None:
    return
  c.cover('stretch(in_place) returns')
  c.check(res is ns, 'stretch(in_place): returns the argument itself')
  conds = [c.eq(ns.total_time, old.total_time * f),
           len(ns.notes) == len(old.notes)]
  for m, n in zip(ns.notes, old.notes):
    conds += [c.eq(m.start_time, n.start_time * f),
              c.eq(m.end_time, n.end_time * f), c.eq(m.pitch, n.pitch)]
  for name in _TIMED:
    conds.append(len(getattr(ns, name)) == len(getattr(old, name)))
    for m, n in zip(getattr(ns, name), getattr(old, name)):
      conds.append(c.eq(m.time, n.time * f))
  c.check(c.And(conds), 'stretch(in_place): the argument is the stretched one')
  _wf(c, ns, 'stretch(in_place)')


def op_transpose(c, sl, N):
  pb = c.pb
  ns, _ = _full(c, N)
  CH = pb.NoteSequence.TextAnnotation.CHORD_SYMBOL
  chords = c.params.get('chords', True)
  in_place = c.params.get('in_place', False)
  # the chord-symbol spelling walk loops over the amount; without chords the
  # amount is free beyond an octave (key wrap-around)
  k = c.int('k', -2, 2) if chords else c.int('k', -24, 24)
  bad = c.params.get('odd_chord')
  if bad:
    # a second chord annotation that is no chord ('N.C.') or cannot be parsed
    ns.text_annotations.add(time=c.real('ta2_t', 0), annotation_type=CH,
                            text=c.choice('ta2_x', ['N.C.', 'H7', 'Cmaj7/X']))
  kw = {}
  if not chords:
    kw['transpose_chords'] = False
  if in_place:
    kw['in_place'] = True
  if c.params.get('default_range'):
    lo, hi = 0, 127     # documented defaults: the MIDI pitch range
    call = lambda: sl.transpose_note_sequence(ns, k, **kw)
  else:
    lo = c.int('lo', 0, 127)
    hi = c.int('hi', 0, 127)
    call = lambda: sl.transpose_note_sequence(ns, k, lo, hi, **kw)
  cs = c.mod('chord_symbols_lib')
  old = c.snapshot(ns)
  if in_place:
    res, err = c.raises(call)
    if err is not None:
      c.check(isinstance(err, cs.ChordSymbolError),
              'transpose(in_place): only documented errors')
      return
    c.cover('transpose(in_place) returns')
    c.check(isinstance(res, tuple) and res[0] is ns,
            'transpose(in_place): returns the argument itself')
    _wf(c, ns, 'transpose(in_place)')
    _not_invented(c, ns, [old], k, N, 'transpose(in_place)')
  else:
    res = _monitor(c, 'transpose', [ns], call, N, shift=k,
                   allowed=(cs.ChordSymbolError,))
    if res is None:
      return
  out, deleted = res
  c.check(c.eq(deleted, N - len(out.notes)),
          'transpose: deleted count is the number of notes removed')
  # documented: notes assigned a pitch outside [min, max] are deleted
  pitched = c.And([c.Not(n.is_drum) for n in old.notes] or [True])
  kept = c.Count([c.And(lo <= n.pitch + k, n.pitch + k <= hi)
                  for n in old.notes])
  c.check(c.Implies(pitched, c.eq(len(out.notes), kept)),
          'transpose: exactly the notes inside the allowed range are kept')
  if not chords:
    c.check(c.And([c.Not(c.eq(ta.annotation_type, CH))
                   for ta in out.text_annotations] or [True]),
            'transpose(no chords): chord symbols are removed')
    c.check(c.eq(len(out.text_annotations),
                 c.Count([c.Not(c.eq(ta.annotation_type, CH))
                          for ta in old.text_annotations])),
            'transpose(no chords): other annotations are kept')


def op_quantize_rel(c, sl, N):
  ns, _ = _full(c, N)
  spq = c.params['spq']
  sig = c.params.get('signature')
  if sig:
    # a single time signature with any numerator incl. 0 and a denominator
    # that may not be a power of two
    del ns.time_signatures[:]
    ns.time_signatures.add(time=0, numerator=c.int('sg_n', 0, 12),
                           denominator=c.choice('sg_d', [4, 3, 8, 6]))
  res = _monitor(c, 'quantize', [ns],
                 lambda: sl.quantize_note_sequence(ns, spq), N,
                 allowed=(sl.MultipleTempoError, sl.MultipleTimeSignatureError,
                          sl.BadTimeSignatureError, sl.NegativeTimeError))
  if res is None:
    return
  # documented Raises: a change of tempo / time signature, a zero numerator
  # or a denominator that is no power of two cannot come back as a result
  for evs, key, what in (
      (ns.tempos, lambda e: (e.qpm,), 'tempo'),
      (ns.time_signatures, lambda e: (e.numerator, e.denominator),
       'time signature')):
    evs = list(evs)
    c.check(c.And([K.key_eq(c, key(e), key(evs[0])) for e in evs[1:]] or
                  [True]),
            'quantize: returns only without a %s change' % what)
  for sg in ns.time_signatures:
    c.check(c.And(c.Not(c.eq(sg.numerator, 0)),
                  c.Or([c.eq(sg.denominator, d)
                        for d in (1, 2, 4, 8, 16, 32, 64, 128)])),
            'quantize: returns only for a usable time signature')


def op_quantize_abs(c, sl, N):
  ns, _ = _full(c, N)
  sps = c.params['sps']
  _monitor(c, 'quantize_absolute', [ns],
           lambda: sl.quantize_note_sequence_absolute(ns, sps), N,
           allowed=(sl.NegativeTimeError,))


def op_sustain(c, sl, N):
  ns, _ = _full(c, N)
  scn = c.params.get('scn')
  # make the populated control change a pedal event on a note's instrument
  inst = ns.notes[0].instrument if N else 0
  if scn is None:
    ns.control_changes.add(time=c.real('sus_t', 0), control_number=64,
                           control_value=c.int('sus_v', 0, 127),
                           instrument=inst)
    _monitor(c, 'apply_sustain', [ns],
             lambda: sl.apply_sustain_control_changes(ns), N)
    return
  # a caller-chosen pedal controller; the added event is either that one or
  # the default controller 64, which then is no pedal
  ns.control_changes.add(time=c.real('sus_t', 0),
                         control_number=c.choice('sus_n', [scn, 64]),
                         control_value=c.int('sus_v', 0, 127), instrument=inst)
  old = c.snapshot(ns)
  res = _monitor(
      c, 'apply_sustain(controller)', [ns],
      lambda: sl.apply_sustain_control_changes(ns, sustain_control_number=scn),
      N)
  if res is not None:
    none = c.And([c.Not(c.eq(cc.control_number, scn))
                  for cc in old.control_changes] or [True])
    c.check(c.Implies(none, c.msg_eq(res, old)),
            'apply_sustain(controller): without an event of the chosen '
            'controller the result is a plain copy')


def _several(c, N, k):
  """k input sequences (job parameter `same`: the same object twice)."""
  seqs = [_full(c, N, prefix='ABC'[i])[0] for i in range(k)]
  if c.params.get('same'):
    seqs.append(seqs[0])
  return seqs


def _distinct(seqs):
  out = []
  for x in seqs:
    if all(x is not y for y in out):
      out.append(x)
  return out


def op_concat(c, sl, N):
  seqs = _several(c, N, c.params.get('K', 2))
  allowed = ()
  if c.params.get('quantized'):
    # a quantized second sequence that has to be shifted is refused (as
    # shift_sequence_times documents); with a first sequence of zero duration
    # the sequences are merged and total_quantized_steps must cover them all
    # (F-C11-b, fixed)
    allowed = (sl.QuantizationStatusError,)
  _monitor(c, 'concatenate', _distinct(seqs),
           lambda: sl.concatenate_sequences(seqs), len(seqs) * N,
           allowed=allowed, lists=[seqs])


def op_concat_dur(c, sl, N):
  seqs = _several(c, N, c.params.get('K', 2))
  d = [c.real('d%d' % i, 0) for i in range(c.params.get('D', len(seqs)))]
  res = _monitor(c, 'concatenate(durations)', _distinct(seqs),
                 lambda: sl.concatenate_sequences(seqs, d), len(seqs) * N,
                 allowed=(ValueError,), lists=[seqs, d])
  if res is not None:
    # documented Raises
    c.check(len(d) == len(seqs),
            'concatenate(durations): returns only for as many durations as '
            'sequences')
    c.check(c.And([x >= s.total_time for x, s in zip(d, seqs)] or [True]),
            'concatenate(durations): returns only if no duration is shorter '
            'than its sequence')


def op_merge(c, sl, N):
  seqs = _several(c, N, c.params.get('K', 2))
  _monitor(c, 'merge', _distinct(seqs), lambda: sl.merge_sequences(seqs),
           len(seqs) * N, lists=[seqs])


def op_repeat(c, sl, N):
  ns, info = _full(c, N)
  c.assume(info['tt'] > 0)
  d = c.real('dur')
  c.assume(d > 0)
  R = c.params.get('reps', 2)
  if not c.params.get('seq_dur'):
    c.assume(d <= R * info['tt'])
    _monitor(c, 'repeat', [ns], lambda: sl.repeat_sequence_to_duration(ns, d),
             R * N, allowed=(ValueError,))
    return
  # explicit sequence_duration: longer than total_time pads every repeat,
  # shorter is refused by concatenate_sequences (ValueError)
  sd = c.real('seq_dur')
  c.assume(sd > 0)
  c.assume(d <= R * sd)
  res = _monitor(
      c, 'repeat(sequence_duration)', [ns],
      lambda: sl.repeat_sequence_to_duration(ns, d, sequence_duration=sd),
      R * N, allowed=(ValueError,))
  if res is not None:
    c.check(sd >= info['tt'], 'repeat(sequence_duration): returns only if the '
            'duration is not shorter than the sequence')
    # repeat number r starts at r * sequence_duration
    c.check(c.And([c.Or([c.And(c.eq(m.pitch, n['pitch']), c.Or(
        [c.eq(m.start_time, n['start_time'] + r * sd) for r in range(R)]))
                         for n in info['notes']] or [False])
                   for m in res.notes] or [True]),
            'repeat(sequence_duration): repeats start at multiples of the '
            'given duration')


def op_expand(c, sl, N):
  pb = c.pb
  ns, info = _full(c, N, section=False)
  # two sections A(id 0) B(id 1)
  t1 = c.real('sec1_t', 0)
  c.assume(t1 < info['tt'])
  c.assume(t1 > 0)
  if c.params.get('reversed_annotations'):
    # stored out of time order: the call may raise, the input must stay as is
    ns.section_annotations.add(time=t1, section_id=1)
    ns.section_annotations.add(time=0, section_id=0)
  else:
    ns.section_annotations.add(time=0, section_id=0)
    ns.section_annotations.add(time=t1, section_id=1)
  if c.params.get('nested'):
    # the form |: (A) B :| x nt  with (A) a nested group played once, nt 0..2
    nt = c.int('nt', 0, 2)
    g = ns.section_groups.add(num_times=nt)
    inner = g.sections.add().section_group
    inner.num_times = 1
    inner.sections.add(section_id=0)
    g.sections.add(section_id=1)
    form = lambda: [0, 1] * c.concretize(nt)
    limit = 2 * N
  else:
    # the form |: A :| B
    g = ns.section_groups.add(num_times=2)
    g.sections.add(section_id=0)
    g2 = ns.section_groups.add(num_times=1)
    g2.sections.add(section_id=1)
    form = lambda: [0, 0, 1]
    limit = 3 * N
  res = _monitor(c, 'expand_section_groups', [ns],
                 lambda: sl.expand_section_groups(ns), limit,
                 allowed=(ValueError,))
  if res is not None and not c.params.get('reversed_annotations'):
    # every played section brings its own annotation: the result lists the
    # sections in the order the groups prescribe
    want = form()
    got = list(res.section_annotations)
    c.check(len(got) == len(want) and
            c.And([c.eq(a.section_id, w) for a, w in zip(got, want)] or
                  [True]),
            'expand_section_groups: sections follow the groups')


def op_expand_nogroups(c, sl, N):
  ns, _ = _full(c, N)
  _monitor(c, 'expand_section_groups(no groups)', [ns],
           lambda: sl.expand_section_groups(ns), N)


def op_redundant(c, sl, N):
  ns, _ = _full(c, N)
  ns.tempos.add(time=c.real('tp2_t', 0), qpm=c.real('tp2_q', 10, 480))
  if c.params.get('no_metadata'):
    ns.ClearField('sequence_metadata')
  else:
    ns.sequence_metadata.composers.append('a')
  res = _monitor(c, 'remove_redundant_data', [ns],
                 lambda: sl.remove_redundant_data(ns), N)
  if res is not None and c.params.get('no_metadata'):
    c.check(not res.HasField('sequence_metadata'),
            'remove_redundant_data: no metadata appears from nowhere')


def op_adjust(c, sl, N):
  ns, info = _full(c, N)
  m1 = Fraction(*c.params['m1']) if c.mode == 'sym' else (
      c.params['m1'][0] / c.params['m1'][1])
  m2 = Fraction(*c.params['m2']) if c.mode == 'sym' else (
      c.params['m2'][0] / c.params['m2'][1])
  bp = c.real('bp', 0)
  off = c.real('off', -2, 2)

  def f(t):
    if t < bp:
      return off + m1 * t
    return off + m1 * bp + m2 * (t - bp)

  if c.params.get('min_dur'):
    md = c.real('min_dur', 0)   # 0 behaves like None (documented: skipped)
    call = lambda: sl.adjust_notesequence_times(ns, f, minimum_duration=md)
  else:
    md = None
    call = lambda: sl.adjust_notesequence_times(ns, f)
  res = _monitor(c, 'adjust_notesequence_times', [ns], call, N,
                 allowed=(sl.InvalidTimeAdjustmentError,))
  if res is None:
    return
  out, skipped = res
  # documented: a note whose adjusted duration is 0 is skipped and counted,
  # unless a minimum duration is substituted
  no_md = True if md is None else c.eq(md, 0)
  flat = [c.And(c.eq(f(n['start_time']), f(n['end_time'])), no_md)
          for n in info['notes']]
  c.check(c.eq(skipped, c.Count(flat)),
          'adjust_notesequence_times: skipped count is the number of notes '
          'of adjusted duration 0')
  c.check(c.eq(len(out.notes), N - c.Count(flat)),
          'adjust_notesequence_times: all other notes are kept')
  c.check(c.And([m.end_time > m.start_time for m in out.notes] or [True]),
          'adjust_notesequence_times: kept notes have a positive duration')


def op_rectify(c, sl, N):
  ns, info = _full(c, N)
  ns.text_annotations.add(
      time=c.real('beat_t', 0),
      annotation_type=c.pb.NoteSequence.TextAnnotation.BEAT)
  bpm = c.params.get('bpm', 120)
  res = _monitor(c, 'rectify_beats', [ns], lambda: sl.rectify_beats(ns, bpm),
                 N, allowed=(sl.RectifyBeatsError, sl.InvalidTimeAdjustmentError))
  if res is None:
    return
  out, alignment = res
  rows = alignment.tolist()
  # documented: one row (original time, rectified time) per beat, rectified
  # beats at regular intervals of 60 / beats_per_minute
  spb = Fraction(60, bpm) if c.mode == 'sym' else 60.0 / bpm
  c.check(all(len(r) == 2 for r in rows) and len(rows) >= 1,
          'rectify_beats: alignment is N-by-2')
  c.check(c.And([c.approx(r[1], i * spb, 1e-9) for i, r in enumerate(rows)]),
          'rectify_beats: rectified beats are regularly spaced')
  c.check(c.And([rows[i][0] < rows[i + 1][0] for i in range(len(rows) - 1)] or
                [True]),
          'rectify_beats: original beat times increase')
  BEAT = c.pb.NoteSequence.TextAnnotation.BEAT
  for ta in ns.text_annotations:
    c.check(c.Implies(
        c.And(c.eq(ta.annotation_type, BEAT), ta.time <= info['tt']),
        c.Or([c.eq(r[0], ta.time) for r in rows])),
            'rectify_beats: every beat of the input has its alignment row')


_QUANT_OPS = {
    'trim': lambda sl, ns: sl.trim_note_sequence(ns, 0, 1),
    'extract': lambda sl, ns: sl.extract_subsequence(ns, 0, 1),
    'shift': lambda sl, ns: sl.shift_sequence_times(ns, 1),
    'stretch': lambda sl, ns: sl.stretch_note_sequence(ns, 2),
    'apply_sustain': lambda sl, ns: sl.apply_sustain_control_changes(ns),
    'rectify_beats': lambda sl, ns: sl.rectify_beats(ns, 120),
}

# built on extract_subsequence (documented to refuse quantized input) without
# documenting the refusal themselves: whatever they do, the input stays as is
_QUANT_OPS_WEAK = {
    'split_list': lambda sl, ns: sl.split_note_sequence(ns, [1]),
    'split_hop': lambda sl, ns: sl.split_note_sequence(ns, 1),
    'split_changes': lambda sl, ns: sl.split_note_sequence_on_time_changes(ns),
    'split_silence': lambda sl, ns: sl.split_note_sequence_on_silence(ns, 1),
    'repeat': lambda sl, ns: sl.repeat_sequence_to_duration(ns, 2, 1),
    'expand': lambda sl, ns: sl.expand_section_groups(ns),
}


def op_quantized_input(c, sl, N):
  """Operations documented to reject quantized input leave it untouched."""
  which = c.params['which']
  weak = which in _QUANT_OPS_WEAK
  ns, _ = _full(c, 2 if weak else 1, groups=which == 'expand')
  if c.params['abs']:
    ns.quantization_info.steps_per_second = c.int('qsps', 1, 100)
  else:
    ns.quantization_info.steps_per_quarter = c.int('qspq', 1, 96)
  if which == 'split_hop':
    c.assume(ns.total_time <= 2)
  before = c.snapshot(ns)
  if weak:
    res, err = c.raises(_QUANT_OPS_WEAK[which], sl, ns)
    c.check(err is None or isinstance(err, (sl.QuantizationStatusError,
                                            ValueError)),
            which + ': quantized input: only documented errors')
    c.check(c.msg_eq(ns, before), which + ': quantized input unchanged')
    c.cover(which + ' refuses quantized input',
            isinstance(err, sl.QuantizationStatusError))
    res2, err2 = c.raises(_QUANT_OPS_WEAK[which], sl, ns)
    c.check(type(err2) is type(err),
            which + ': quantized input: second call ends the same way')
    c.check(c.msg_eq(ns, before),
            which + ': quantized input unchanged after second call')
    return
  res, err = c.raises(_QUANT_OPS[which], sl, ns)
  c.check(err is not None and isinstance(err, sl.QuantizationStatusError),
          which + ': quantized input rejected with QuantizationStatusError')
  c.check(c.msg_eq(ns, before), which + ': argument unchanged (raising path)')


OPS = {
    'trim': op_trim, 'extract': op_extract, 'split_list': op_split_list,
    'split_hop': op_split_hop, 'split_changes': op_split_changes,
    'split_silence': op_split_silence, 'shift': op_shift,
    'stretch': op_stretch, 'transpose': op_transpose,
    'quantize_rel': op_quantize_rel, 'quantize_abs': op_quantize_abs,
    'sustain': op_sustain, 'concat': op_concat, 'concat_dur': op_concat_dur,
    'merge': op_merge, 'repeat': op_repeat, 'expand': op_expand,
    'expand_nogroups': op_expand_nogroups, 'redundant': op_redundant,
    'adjust': op_adjust, 'rectify': op_rectify,
    'quantized_input': op_quantized_input,
}


def _mk(name):
  def h(c):
    OPS[name](c, c.mod('sequences_lib'), c.params.get('N', 1))
  h.__name__ = 'op_' + name
  return h


HARNESSES = {'op_' + k: _mk(k) for k in OPS}


def jobs(tier):
  J = []

  def add(h, budget=200, required=True, **params):
    J.append({'harness': 'op_' + h, 'params': params, 'budget_s': budget,
              'required': required})

  deep = tier == 'thorough'
  # operations built on _extract_subsequences case-split on the position of
  # every event relative to every split point; their non-note events share one
  # symbolic instant so the split is not multiplied across the 7 event kinds
  shared = ('extract', 'split_silence', 'repeat', 'expand', 'rectify',
            'split_list', 'split_hop', 'split_changes')
  for name in ('trim', 'extract', 'split_silence', 'shift', 'stretch',
               'transpose', 'sustain', 'concat', 'concat_dur', 'merge',
               'repeat', 'expand', 'expand_nogroups', 'redundant', 'rectify'):
    add(name, N=1, shared_time=name in shared)
  for skip in (False, True):
    add('split_list', N=1, skip=skip, shared_time=True)
    add('split_hop', N=1, skip=skip, shared_time=True)
    add('split_changes', N=1, skip=skip, shared_time=True)
  add('expand', N=1, shared_time=True, reversed_annotations=True)
  add('quantize_rel', N=1, spq=4)
  add('quantize_abs', N=1, sps=100)
  # two notes where that costs seconds (sustain and the _extract_subsequences
  # family stay at one note in this tier)
  for name in ('trim', 'shift', 'stretch', 'transpose', 'concat', 'merge',
               'redundant'):
    add(name, N=2, shared_time=False, budget=400)
  add('quantize_rel', N=2, spq=4, budget=400)
  add('quantize_abs', N=2, sps=100, budget=400)
  add('adjust', N=1, m1=[1, 2], m2=[2, 1])
  add('adjust', N=1, m1=[1, 1], m2=[-1, 1])
  for which in _QUANT_OPS:
    add('quantized_input', which=which, abs=False)
  add('quantized_input', which='shift', abs=True)
  # ---- rarely used keyword arguments and documented defaults
  add('adjust', N=1, m1=[1, 2], m2=[2, 1], min_dur=True)
  add('adjust', N=1, m1=[0, 1], m2=[1, 1], min_dur=True)
  add('adjust', N=2, m1=[0, 1], m2=[1, 1], min_dur=True, lean=[])
  add('repeat', N=1, shared_time=True, seq_dur=True)
  add('transpose', N=1, chords=False)
  add('transpose', N=2, chords=False, lean=['text_annotations'],
      dup=['text_annotations'])
  add('transpose', N=1, default_range=True)
  add('transpose', N=2, default_range=True, lean=[])
  add('transpose', N=1, in_place=True)
  add('transpose', N=2, in_place=True, chords=False, lean=['text_annotations'])
  add('transpose', N=1, odd_chord=True, lean=['key_signatures'])
  add('stretch', N=1, in_place=True)
  add('stretch', N=2, in_place=True, lean=['tempos'])
  add('sustain', N=1, scn=66, lean=['control_changes'])
  add('extract', N=1, shared_time=True, pcn=7)
  add('split_silence', N=1, shared_time=True, default_gap=True)
  add('quantize_rel', N=1, spq=3)
  add('quantize_abs', N=1, sps=7)
  add('rectify', N=1, shared_time=True, bpm=90)
  # ---- siblings: absolute-quantized input, operations built on extraction,
  # operations that accept quantized input, 0/1/3 sequences, nested groups
  for which in _QUANT_OPS:
    if which != 'shift':
      add('quantized_input', which=which, abs=True)
  for which in _QUANT_OPS_WEAK:
    for ab in (False, True):
      add('quantized_input', which=which, abs=ab)
  for how in ('rel', 'abs'):
    add('transpose', N=2, quantized=how, lean=['control_changes'])
    add('redundant', N=1, quantized=how)
    # merge / concatenate of already quantized sequences: total_quantized_steps
    # of the result covers the notes of every input (F-C11-b, fixed: MergeFrom
    # kept only the last value); concatenate refuses a quantized second
    # sequence through shift_sequence_times once the first one has a duration
    add('merge', N=1, quantized=how, lean=[])
    add('concat', N=1, quantized=how, lean=[])
    add('quantize_abs', N=1, sps=7, quantized=how)
    add('quantize_rel', N=1, spq=3, quantized=how)
  for name in ('concat', 'merge'):
    add(name, N=1, K=0)
    add(name, N=1, K=1)
    add(name, N=1, K=1, same=True)
    add(name, N=1, K=3, lean=['tempos'])
  add('concat_dur', N=1, K=2, D=1, lean=[])
  add('concat_dur', N=1, K=2, D=3, lean=[])
  add('concat_dur', N=1, K=3, D=3, lean=[])
  add('expand', N=1, nested=True, lean=['tempos'])
  # ---- inputs outside the populated shape: two notes in any storage order
  # for the extraction family, two events of one kind in any storage order,
  # three pieces, three repeats, empty sequences
  for skip in (None, True):
    add('split_list', N=2, M=2, skip=skip, lean=[])
    add('split_hop', N=2, max_hops=3, skip=skip, lean=['tempos'])
    add('split_changes', N=2, skip=skip, lean=['tempos', 'time_signatures'])
  add('split_list', N=1, M=2, skip=None, lean=['control_changes'])
  add('split_list', N=1, M=2, skip=None, lean=['tempos'])
  add('split_changes', N=1, skip=False, lean=['tempos'], dup=['tempos'])
  add('split_silence', N=2, lean=['control_changes'])
  add('extract', N=2, lean=['control_changes'])
  add('extract', N=1, lean=['control_changes'], dup=['control_changes'])
  add('extract', N=1, lean=['text_annotations'], dup=['text_annotations'])
  add('repeat', N=2, lean=[])
  add('repeat', N=1, reps=3, lean=['tempos'])
  add('expand', N=2, lean=[])
  add('rectify', N=2, lean=[])
  add('sustain', N=2, lean=[])
  add('quantize_rel', N=1, spq=4, dup=['tempos', 'time_signatures'])
  add('quantize_rel', N=1, spq=4, signature=True)
  add('quantize_abs', N=1, sps=100, dup=['control_changes',
                                          'text_annotations'])
  add('redundant', N=1, no_metadata=True)
  for name in ('trim', 'shift', 'stretch', 'transpose', 'sustain', 'merge',
               'concat', 'redundant', 'split_silence', 'extract'):
    add(name, N=0, lean=['tempos', 'control_changes'])
  add('concat_dur', N=0, lean=['tempos'])
  add('adjust', N=0, m1=[1, 2], m2=[2, 1], lean=['control_changes'])
  add('quantize_rel', N=0, spq=4)
  if deep:
    for name in ('trim', 'extract', 'split_silence', 'shift', 'stretch',
                 'transpose', 'sustain', 'concat', 'merge', 'repeat', 'expand',
                 'redundant', 'rectify'):
      add(name, N=2, budget=1800, required=name not in ('sustain', 'expand'),
          shared_time=name in shared)
    for name in ('extract', 'split_silence'):
      add(name, N=1, budget=2400, required=False, shared_time=False)
    for skip in (False, True):
      add('split_list', N=2, M=1, skip=skip, budget=1800, shared_time=True)
      add('split_list', N=1, M=2, skip=skip, budget=1800, shared_time=True)
      add('split_hop', N=1, max_hops=3, skip=skip, budget=1800, shared_time=True)
      add('split_changes', N=2, skip=skip, budget=1800, shared_time=True)
    add('quantize_rel', N=2, spq=24, budget=900)
    add('quantize_abs', N=2, sps=31, budget=900)
    add('adjust', N=2, m1=[0, 1], m2=[1, 1], budget=1800)
    for name in ('trim', 'shift', 'stretch'):
      add(name, N=3, budget=1800)
    # the quick-tier variants on richer inputs
    for skip in (None, True):
      add('split_list', N=1, M=2, skip=skip, budget=900,
          lean=['control_changes', 'tempos'])
    add('extract', N=2, budget=900, lean=['control_changes'],
        dup=['control_changes'])
    add('extract', N=1, budget=900, shared_time=True, pcn=64)
    add('expand', N=1, budget=900, shared_time=True, nested=True)
    add('repeat', N=1, budget=900, shared_time=True, seq_dur=True, reps=3,
        required=False)
    add('sustain', N=1, budget=900, scn=66)
    add('adjust', N=2, m1=[0, 1], m2=[1, 1], min_dur=True, budget=1800)
  return J
