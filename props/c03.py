"""C03 -- writing a NoteSequence to MIDI and reading it back preserves the
music (object level: the byte layer is cut out)."""
from props import common as K

META = {
    'level': 'other',
    'level_text':
        'note_seq\'s own conversion code (note_sequence_to_pretty_midi and '
        'midi_to_note_sequence on a PrettyMIDI object) is executed '
        'symbolically against pm-lite, a pure-Python stand-in for the '
        'pretty_midi object model with an exact piecewise-linear tempo map: '
        'the solver decides, for all times / values / assignments of '
        '(instrument, program, is_drum) within the bounds, that export groups '
        'every event into exactly one instrument with the right program/drum '
        'flag, that import enumerates everything 1:1, that import(export(s)) '
        'returns the same bag of notes, bends, control changes, signatures and '
        'tempos, and that the exported tempo map does not depend on the '
        'storage order of tempos. Serialisation to bytes and re-parsing '
        '(PrettyMIDI.write, mido) are replaced by the assumption that they are '
        'the identity on the object model up to one tick.',
    'level_note':
        'Trusted: z3, reals for doubles, symproto, and pm-lite\'s fidelity to '
        'pretty_midi 0.2.11 for the calls midi_io makes (every sampled path '
        'and every counterexample is replayed on the real pretty_midi object '
        'model). Outside the claim: everything about bytes, "within one MIDI '
        'tick" for note times, ticks_per_quarter values other than the '
        'listed ones.',
    'explanation':
        'Stub-contract level: the verdict is a bounded symbolic-execution '
        'result about note_seq.midi_io given pm-lite as the model of the '
        'pretty_midi objects; the third-party byte layer is assumed, not '
        'checked.',
    'functions': [('midi_io', 'note_sequence_to_pretty_midi'),
                  ('midi_io', 'midi_to_note_sequence'),
                  ('midi_io', 'note_sequence_to_midi_file'),
                  ('midi_io', 'midi_file_to_note_sequence'),
                  ('midi_io', 'sequence_proto_to_pretty_midi'),
                  ('midi_io', 'sequence_proto_to_midi_file'),
                  ('midi_io', 'midi_to_sequence_proto'),
                  ('midi_io', 'midi_file_to_sequence_proto')],
    'assumptions': [
        'pretty_midi write+read is the identity on the object model (up to a '
        'tick) - not checked; the *_file entry points are run with the byte '
        'layer cut out (the object handed to PrettyMIDI.write is recorded, '
        'PrettyMIDI(<bytes>) is a stub yielding the object; file = os.devnull)',
        'pitches 0..127, velocities 1..127, notes of positive length',
        'tempo values come from the grid {30,60,120,240} qpm at 256 ticks per '
        'quarter (tick scales are then exact binary fractions, which keeps the '
        'integer arithmetic of the tick rounding small), plus required jobs '
        'with 97.3 qpm at 220 tpq, at 480 tpq and with ticks_per_quarter '
        'unset; tempo times symbolic, pairwise distinct (two tempos at one '
        'instant are outside: the statement does not say which one is in '
        'effect)',
        'drop_events_n_seconds_after_last_note: n symbolic in 0..8; without '
        'any note only "export succeeds, events at a time <= n are kept" is '
        'claimed (the docstring does not define the cutoff there)',
        'instrument names: only names given through instrument_infos are '
        'claimed to travel with their instrument; generated names ("Drums", '
        'program names) and the number of empty instruments are not claimed',
    ],
    'bounds': {
        'quick': 'N<=3 notes + <=2 bends + <=2 control changes over '
                 'instruments {0,1,2} or {0,9,17} x programs {0,5} or {0,127} '
                 'x drum flag, N=0; K<=3 tempos (K=0,1 too); ticks_per_quarter '
                 'in {unset,24,220,256,480,960}; <=2 time signatures '
                 '(denominators 1..32) and <=2 key signatures, symbolic times; '
                 'drop argument with 2 notes / 2 groups / 2 of each event kind '
                 'through all 4 export entry points; import of I<=3 '
                 'instruments incl. empty ones and none, <=3 tempo changes, '
                 'through all 4 import entry points',
        'thorough': 'N<=4 notes, K<=3 tempos with all qpm permutations',
    },
    'outside': ['bytes / mido / PrettyMIDI.write', 'tick rounding of note '
                'times', 'two tempos at the same instant'],
}

_QPMS = [120.0, 60.0, 240.0, 30.0, 97.3]


def _group_key(x):
  return (x['instrument'], x['program'], x['is_drum'])


def _mk_events(c, ns, N, nb, ncc, instrs=(0, 1, 2), progs=(0, 5)):
  notes, bends, ccs = [], [], []
  if N == 0:
    nb = ncc = 0   # bends / control changes ride on notes
  for i in range(N):
    d = dict(pitch=c.int('n%d_p' % i, 0, 127), velocity=c.int('n%d_v' % i, 1, 127),
             start_time=c.real('n%d_s' % i, 0), end_time=c.real('n%d_e' % i),
             instrument=c.choice('n%d_i' % i, list(instrs)),
             program=c.choice('n%d_g' % i, list(progs)),
             is_drum=c.concretize(c.bool('n%d_d' % i)))
    c.assume(d['end_time'] > d['start_time'])
    ns.notes.add(**d)
    notes.append(d)
  # bends / control changes ride on the instrument of a note (property
  # quantifier: only instruments that have notes)
  for i in range(nb):
    src = notes[i % N]
    d = dict(time=c.real('b%d_t' % i, 0), bend=c.int('b%d_b' % i, -8192, 8191),
             instrument=src['instrument'], program=src['program'],
             is_drum=src['is_drum'])
    ns.pitch_bends.add(**d)
    bends.append(d)
  for i in range(ncc):
    src = notes[(i + 1) % N]
    d = dict(time=c.real('c%d_t' % i, 0),
             control_number=c.int('c%d_n' % i, 0, 127),
             control_value=c.int('c%d_v' % i, 0, 127),
             instrument=src['instrument'], program=src['program'],
             is_drum=src['is_drum'])
    ns.control_changes.add(**d)
    ccs.append(d)
  return notes, bends, ccs


# Names given through NoteSequence.instrument_infos, by instrument number.
_INFO_NAMES = ['alpha', 'beta', 'gamma']


def _add_infos(c, ns, instrs):
  """instrument_infos for the first two instrument numbers of `instrs`, the
  second stored first; returns {instrument number: name}."""
  infos = {}
  for k in (1, 0):
    if k < len(instrs):
      ns.instrument_infos.add(instrument=instrs[k], name=_INFO_NAMES[k])
      infos[instrs[k]] = _INFO_NAMES[k]
  return infos


class _Written(object):
  """What a *_to_midi_file entry point hands to the byte layer."""

  def __init__(self, pm, box):
    self._pm, self._box = pm, box

  def write(self, f):
    f.close()
    self._box.append(self._pm)


def _export(c, mio, entry, ns, **kw):
  """Exports through the entry point `entry`; returns the PrettyMIDI object
  model that is produced ('direct', 'alias') resp. handed to
  PrettyMIDI.write ('file', 'file_alias': the byte layer is cut out by
  recording the object whose write() is called; the file is os.devnull)."""
  if entry == 'direct':
    return mio.note_sequence_to_pretty_midi(ns, **kw)
  if entry == 'alias':
    return mio.sequence_proto_to_pretty_midi(ns, **kw)
  import os  # pylint: disable=g-import-not-at-top
  real = mio.note_sequence_to_pretty_midi
  box = []

  def recording(*a, **k):
    return _Written(real(*a, **k), box)

  mio.note_sequence_to_pretty_midi = recording
  try:
    fn = (mio.note_sequence_to_midi_file if entry == 'file'
          else mio.sequence_proto_to_midi_file)
    fn(ns, os.devnull, **kw)
  finally:
    mio.note_sequence_to_pretty_midi = real
  c.check(len(box) == 1, 'the file entry point writes exactly one object')
  return box[0]


def _import(c, mio, entry, pm):
  """Imports `pm` through the entry point `entry`.  For 'file' / 'file_alias'
  the parser PrettyMIDI(<bytes>) is replaced by a stub that yields `pm` (byte
  layer cut out); the file read is os.devnull."""
  if entry == 'object':
    return mio.midi_to_note_sequence(pm)
  if entry == 'alias':
    return mio.midi_to_sequence_proto(pm)
  import os  # pylint: disable=g-import-not-at-top
  import types  # pylint: disable=g-import-not-at-top
  if c.mode == 'sym':
    from engine import pmlite  # pylint: disable=g-import-not-at-top
    old = pmlite.FROM_FILE[0]

    def from_file(self, f):
      self.__dict__.update(pm.__dict__)

    pmlite.FROM_FILE[0] = from_file

    def restore():
      pmlite.FROM_FILE[0] = old
  else:
    real = mio.pretty_midi

    class Stub(real.PrettyMIDI):

      def __init__(self, midi_file=None, **kw):
        real.PrettyMIDI.__init__(self, **kw)
        if midi_file is not None:
          self.__dict__.update(pm.__dict__)

    shim = types.SimpleNamespace(**{k: getattr(real, k) for k in dir(real)
                                    if not k.startswith('__')})
    shim.PrettyMIDI = Stub
    mio.pretty_midi = shim

    def restore():
      mio.pretty_midi = real
  try:
    fn = (mio.midi_file_to_note_sequence if entry == 'file'
          else mio.midi_file_to_sequence_proto)
    return fn(os.devnull)
  finally:
    restore()


def h_export_grouping(c):
  mio = c.mod('midi_io')
  N = c.params['N']
  instrs = c.params.get('instrs', [0, 1, 2])
  tpq = c.params.get('tpq', 220)
  ns = c.pb.NoteSequence()
  if tpq:
    ns.ticks_per_quarter = tpq   # 0: the field stays unset
  notes, bends, ccs = _mk_events(c, ns, N, c.params.get('nb', 1),
                                 c.params.get('ncc', 1), instrs,
                                 c.params.get('progs', [0, 5]))
  infos = _add_infos(c, ns, instrs) if c.params.get('infos') else {}
  before = c.snapshot(ns)
  pm = mio.note_sequence_to_pretty_midi(ns)
  c.check(pm is not None, 'export returns an object')
  c.check(c.msg_eq(ns, before), 'input unchanged')
  # music.proto: "A default of 220 is assumed" for an unset ticks_per_quarter
  c.check(pm.resolution == (tpq or 220),
          'exported resolution = ticks_per_quarter (220 when unset)')
  groups = {}
  for n in notes:
    groups.setdefault(_group_key(n), []).append(n)
  used = [ins for ins in pm.instruments
          if ins.notes or ins.pitch_bends or ins.control_changes]
  c.check(len(used) == len(groups),
          'one pretty_midi instrument per (instrument, program, is_drum) group')
  import itertools  # pylint: disable=g-import-not-at-top
  keys = list(groups)

  def fits(key, ins, named=False):
    members = groups[key]
    gb = [b for b in bends if _group_key(b) == key]
    gc = [x for x in ccs if _group_key(x) == key]
    if (ins.program != key[1] or bool(ins.is_drum) != bool(key[2]) or
        len(ins.notes) != len(members) or len(ins.pitch_bends) != len(gb) or
        len(ins.control_changes) != len(gc)):
      return False
    # midi_io: "propagate instrument name to the midi file" - a name given in
    # instrument_infos for instrument number i is carried by every exported
    # instrument made from i (generated names of the others are not claimed)
    if named and key[0] in infos and ins.name != infos[key[0]]:
      return False
    return c.And(
        K.multiset_eq(c, [(m.pitch, m.velocity, m.start, m.end)
                          for m in ins.notes],
                      [(True, (n['pitch'], n['velocity'], n['start_time'],
                               n['end_time'])) for n in members]),
        K.multiset_eq(c, [(b.pitch, b.time) for b in ins.pitch_bends],
                      [(True, (b['bend'], b['time'])) for b in gb]),
        K.multiset_eq(c, [(x.number, x.value, x.time)
                          for x in ins.control_changes],
                      [(True, (x['control_number'], x['control_value'],
                               x['time'])) for x in gc]))

  if len(used) == len(keys):
    table = [[fits(k, ins) for ins in used] for k in keys]
    options = []
    for perm in itertools.permutations(range(len(used))):
      row = [table[g][perm[g]] for g in range(len(keys))]
      if any(r is False for r in row):
        continue
      options.append(c.And(row))
    c.check(c.Or(options or [False]),
            'every group (notes with their bends and control changes) is '
            'exported whole to its own instrument with its program and drum '
            'flag: nothing dropped, duplicated or moved')
    if infos:
      options = []
      for perm in itertools.permutations(range(len(used))):
        row = [fits(keys[g], used[perm[g]], True) for g in range(len(keys))]
        if any(r is False for r in row):
          continue
        options.append(c.And(row))
      c.check(c.Or(options or [False]),
              'a name given in instrument_infos for instrument i is carried by '
              'every exported instrument made from i')
  total = sum(len(i.notes) for i in pm.instruments)
  c.check(total == N, 'exactly the input notes are exported')
  c.cover('two programs on instrument number 0',
          len([k for k in groups if k[0] == 0]) >= 2)


def _tempo_setup(c, Kt, qidx):
  ns = c.pb.NoteSequence()
  ns.ticks_per_quarter = c.params.get('tpq', 256)
  ts = []
  for i in range(Kt):
    if i == 0 and c.params.get('first_at_zero', True):
      t = 0
    else:
      t = c.real('tp%d_t' % i)
      c.assume(t > 0)
    ts.append((t, _QPMS[qidx[i]]))
  for i in range(Kt):
    for j in range(i + 1, Kt):
      c.assume(c.Not(c.eq(ts[i][0], ts[j][0])))
  return ns, ts


def h_tempo_order(c):
  """The exported tempo map is the time-sorted one, whatever the storage
  order."""
  mio = c.mod('midi_io')
  Kt = c.params['K']
  ns, ts = _tempo_setup(c, Kt, c.params['q'])
  order = c.params['order']
  for i in order:
    ns.tempos.add(time=ts[i][0], qpm=ts[i][1])
  before = c.snapshot(ns)
  res, err = c.raises(mio.note_sequence_to_pretty_midi, ns)
  if err is not None:
    c.check(False, 'export failed / produced a tempo map that is not in time '
            'order (%s)' % type(err).__name__)
    return
  pm = res
  c.check(c.msg_eq(ns, before), 'input unchanged (tempos neither sorted nor '
          'removed in place)')
  # params tpq == 0: ticks_per_quarter left unset, music.proto: 220 is assumed
  tpq = c.params.get('tpq', 256) or 220
  c.check(pm.resolution == tpq,
          'exported resolution = ticks_per_quarter (220 when unset)')
  ticks = [t for t, _ in pm._tick_scales]
  c.check(all(bool(a <= b) for a, b in zip(ticks, ticks[1:])),
          'exported tempo map is in time order')
  times, qpms = pm.get_tempo_changes()
  want = sorted(ts, key=lambda x: x[0])
  if not want or not bool(c.eq(want[0][0], 0)):
    want = [(0, 120.0)] + want
  c.check(len(times) == len(want), 'every tempo exported once')
  tick_max = 60.0 / (tpq * 30.0)  # one tick at the slowest tempo of the grid
  for (t, q), t2, q2 in zip(want, list(times), list(qpms)):
    c.check(c.approx(q2, q, 1e-9), 'tempo values in time order')
    c.check(c.And(t2 - t <= tick_max, t - t2 <= tick_max),
            'tempo change time within one tick')
  # reading the exported tempo map back: the same (time, qpm) pairs
  back = mio.midi_to_note_sequence(pm)
  c.check(len(back.tempos) == len(want), 'every tempo read back once')
  got = sorted(back.tempos, key=lambda x: x.time)
  for (t, q), tp in zip(want, got):
    c.check(c.And(c.approx(tp.qpm, q, 1e-9), tp.time - t <= tick_max,
                  t - tp.time <= tick_max),
            'tempo map read back: each change at its time (within one tick) '
            'with its qpm')
  c.check(back.ticks_per_quarter == tpq, 'resolution read back')
  c.cover('later tempo stored first', len(order) >= 2 and order[0] > order[1])


def h_import(c):
  """midi_to_note_sequence on a PrettyMIDI object enumerates everything 1:1.

  params: I instruments x N notes (+1 bend, +1 control change each), S key and
  time signatures (default 1), tempos = [(tick, qpm), ...] extra tempo changes
  after the constructor tempo, named = indices of the instruments that have a
  name (default: all but the first), entry = object | alias | file | file_alias."""
  mio = c.mod('midi_io')
  pmod = c.pm
  I = c.params['I']
  S = c.params.get('S', 1)
  res = c.params.get('tpq', 480)
  pm = pmod.PrettyMIDI(resolution=res, initial_tempo=100.0)
  # tempo map: concrete ticks and tempos; the expected times are accumulated
  # here segment by segment (seconds = ticks * 60 / (qpm * resolution))
  exp_tempos = [(0.0, 100.0)]
  last_tick, last_time, last_q = 0, 0.0, 100.0
  for tick, q in c.params.get('tempos', []):
    last_time += (tick - last_tick) * 60.0 / (last_q * res)
    last_tick, last_q = tick, q
    exp_tempos.append((last_time, q))
    pm._tick_scales.append((tick, 60.0 / (q * res)))  # pylint: disable=protected-access
    pm._update_tick_to_time(tick)  # pylint: disable=protected-access
  exp_notes, exp_bends, exp_ccs = [], [], []
  named = c.params.get('named', list(range(1, I)))   # instruments with a name
  for i in range(I):
    prog = c.int('i%d_g' % i, 0, 127)
    drum = c.concretize(c.bool('i%d_d' % i))
    ins = pmod.Instrument(prog, drum, 'name%d' % i if i in named else '')
    for j in range(c.params['N']):
      s = c.real('i%dn%d_s' % (i, j), 0)
      e = c.real('i%dn%d_e' % (i, j))
      c.assume(e >= s)
      p, v = c.int('i%dn%d_p' % (i, j), 0, 127), c.int('i%dn%d_v' % (i, j), 0, 127)
      ins.notes.append(pmod.Note(v, p, s, e))
      exp_notes.append((p, v, s, e, i, prog, drum))
    bt, bv = c.real('i%db_t' % i, 0), c.int('i%db_v' % i, -8192, 8191)
    ins.pitch_bends.append(pmod.PitchBend(bv, bt))
    exp_bends.append((bv, bt, i, prog, drum))
    ct = c.real('i%dc_t' % i, 0)
    cn, cv = c.int('i%dc_n' % i, 0, 127), c.int('i%dc_v' % i, 0, 127)
    ins.control_changes.append(pmod.ControlChange(cn, cv, ct))
    exp_ccs.append((cn, cv, ct, i, prog, drum))
    pm.instruments.append(ins)
  exp_ks, exp_ts = [], []
  for k in range(S):
    sfx = '' if k == 0 else str(k)
    kn = c.int('key' + sfx, 0, 23)
    kt = c.real('key%s_t' % sfx, 0)
    pm.key_signature_changes.append(pmod.containers.KeySignature(
        c.concretize(kn) if c.mode == 'conc' else kn, kt))
    exp_ks.append((kn % 12, kn // 12, kt))
    tn = c.int('ts%s_n' % sfx, 1, 255)
    td = c.choice('ts%s_d' % sfx, [1, 2, 4, 8, 16] if k == 0 else [2, 32])
    tt = c.real('ts%s_t' % sfx, 0)
    pm.time_signature_changes.append(pmod.containers.TimeSignature(tn, td, tt))
    exp_ts.append((tn, td, tt))
  seq = _import(c, mio, c.params.get('entry', 'object'), pm)
  got = [(n.pitch, n.velocity, n.start_time, n.end_time, n.instrument, n.program,
          n.is_drum) for n in seq.notes]
  c.check(K.multiset_eq(c, got, [(True, k) for k in exp_notes]),
          'notes 1:1 with instrument index, program and drum flag')
  c.check(K.multiset_eq(
      c, [(b.bend, b.time, b.instrument, b.program, b.is_drum)
          for b in seq.pitch_bends], [(True, k) for k in exp_bends]),
          'pitch bends 1:1')
  c.check(K.multiset_eq(
      c, [(x.control_number, x.control_value, x.time, x.instrument, x.program,
           x.is_drum) for x in seq.control_changes],
      [(True, k) for k in exp_ccs]), 'control changes 1:1')
  c.check(c.eq(seq.total_time, c.Max([0] + [k[3] for k in exp_notes])),
          'total_time = last note end')
  if S == 1:
    kn, kt = exp_ks[0][0] + 12 * exp_ks[0][1], exp_ks[0][2]
    tn, td, tt = exp_ts[0]
    c.check(len(seq.key_signatures) == 1 and
            bool(c.And(c.eq(seq.key_signatures[0].key, kn % 12),
                       c.eq(seq.key_signatures[0].mode, kn // 12),
                       c.eq(seq.key_signatures[0].time, kt))),
            'key and mode from key_number')
    c.check(len(seq.time_signatures) == 1 and
            bool(c.And(c.eq(seq.time_signatures[0].numerator, tn),
                       c.eq(seq.time_signatures[0].denominator, td),
                       c.eq(seq.time_signatures[0].time, tt))), 'time signature')
  if S:   # S == 0: an implicit 4/4 made explicit would be allowed - no claim
    c.check(K.multiset_eq(
        c, [(k.key, k.mode, k.time) for k in seq.key_signatures],
        [(True, k) for k in exp_ks]),
            'every key signature read once (key, mode, time)')
    c.check(K.multiset_eq(
        c, [(t.numerator, t.denominator, t.time) for t in seq.time_signatures],
        [(True, k) for k in exp_ts]),
            'every time signature read once (numerator, denominator, time)')
  c.check(seq.ticks_per_quarter == pm.resolution and
          len(seq.tempos) == len(exp_tempos) and
          bool(c.approx(seq.tempos[0].qpm, 100.0, 1e-9)), 'resolution and tempo')
  c.check(all(bool(c.And(c.approx(tp.time, t, 1e-9), c.approx(tp.qpm, q, 1e-9)))
              for tp, (t, q) in zip(sorted(seq.tempos, key=lambda x: x.time),
                                    exp_tempos)),
          'tempo map read: (time, qpm) of every change')
  c.check(len(seq.instrument_infos) == len(named), 'instrument names kept')
  c.check(sorted((int(x.instrument), str(x.name))
                 for x in seq.instrument_infos) ==
          [(i, 'name%d' % i) for i in sorted(named)],
          'instrument name attached to the index of its instrument')
  SI = c.pb.NoteSequence.SourceInfo
  c.check(seq.source_info.parser == SI.PRETTY_MIDI and
          seq.source_info.encoding_type == SI.MIDI,
          'source_info says MIDI parsed by pretty_midi')


def h_drop(c):
  """Export with drop_events_n_seconds_after_last_note: every event at or
  before (last note END + n) is written, later ones are not - whatever the
  header field total_time says (it may be unset or stale in a hand-built
  sequence)."""
  mio = c.mod('midi_io')
  ns = c.pb.NoteSequence()
  ns.ticks_per_quarter = 220
  s_, e_ = c.real('n_s', 0), c.real('n_e', 0)
  c.assume(s_ < e_)
  ns.notes.add(pitch=60, velocity=80, start_time=s_, end_time=e_)
  ns.total_time = c.real('total_time', 0)   # free: accurate, unset or stale
  n_drop = c.real('drop', 0, 8)
  ns.tempos.add(time=0, qpm=120)
  t_ts, t_ks, t_cc, t_pb = (c.real('ts_t', 0), c.real('ks_t', 0),
                            c.real('cc_t', 0), c.real('pb_t', 0))
  ns.time_signatures.add(time=t_ts, numerator=3, denominator=4)
  ns.key_signatures.add(time=t_ks, key=7)
  ns.control_changes.add(time=t_cc, control_number=64, control_value=100)
  ns.pitch_bends.add(time=t_pb, bend=100)
  before = c.snapshot(ns)
  pm = _export(c, mio, c.params.get('entry', 'direct'), ns,
               drop_events_n_seconds_after_last_note=n_drop)
  c.check(c.msg_eq(ns, before), 'input unchanged (dropped events stay in the '
          'sequence)')
  cutoff = e_ + n_drop
  ins = [i for i in pm.instruments if len(i.notes)]
  c.check(len(ins) == 1 and len(ins[0].notes) == 1, 'the note is exported')
  nt = ins[0].notes[0]
  c.check(c.And(c.eq(nt.pitch, 60), c.eq(nt.velocity, 80), c.eq(nt.start, s_),
                c.eq(nt.end, e_)), 'the note is exported unchanged')
  for label, t, got in (
      ('time signature', t_ts, len(pm.time_signature_changes)),
      ('key signature', t_ks, len(pm.key_signature_changes)),
      ('control change', t_cc, len(ins[0].control_changes) if ins else 0),
      ('pitch bend', t_pb, len(ins[0].pitch_bends) if ins else 0)):
    keep = c.concretize(t <= cutoff)
    c.check(got == (1 if keep else 0),
            '%s kept iff its time <= last note end + n' % label)
  c.cover('total_time smaller than the note end (stale header field)',
          ns.total_time < e_)
  c.cover('an event between total_time + n and note end + n',
          c.And(ns.total_time + n_drop < t_cc, t_cc <= cutoff))


def h_drop_multi(c):
  """drop_events_n_seconds_after_last_note with more than one of everything:
  the LAST note is the one that ends last wherever it is stored; every kind of
  event (tempo changes too) is kept iff its time <= that end + n, each on its
  own, with its values; through every entry point that takes the argument.

  params: what = 'sig' (2 notes, 2 tempos, 2 time and 2 key signatures) |
  'ctl' (2 notes on two instruments, a bend and a control change on each) |
  'empty' (no note at all: only 'the export succeeds and an event at a time
  <= n is kept' is claimed - the docstring does not say what 'after the last
  note' means without notes); entry = direct | alias | file | file_alias."""
  mio = c.mod('midi_io')
  what = c.params['what']
  ns = c.pb.NoteSequence()
  ns.ticks_per_quarter = 256
  notes = []
  for i in range(0 if what == 'empty' else 2):
    s_, e_ = c.real('n%d_s' % i, 0), c.real('n%d_e' % i, 0)
    c.assume(s_ < e_)
    d = dict(pitch=c.int('n%d_p' % i, 0, 127), velocity=c.int('n%d_v' % i, 1, 127),
             start_time=s_, end_time=e_, instrument=i, program=5 * i)
    ns.notes.add(**d)
    notes.append(d)
  ns.total_time = c.real('total_time', 0)   # free: accurate, unset or stale
  n_drop = c.real('drop', 0, 8)
  cutoff = (c.Max([n['end_time'] for n in notes]) if notes else 0) + n_drop
  tempos, tsigs, ksigs, bends, ccs = [], [], [], [], []
  if what in ('sig', 'empty'):
    t_tp = c.real('tp_t')
    c.assume(t_tp > 0)
    ns.tempos.add(time=t_tp, qpm=60)   # the later one is stored first
    ns.tempos.add(time=0, qpm=120)
    tempos.append((t_tp, 60.0))
    for k, (num, den) in enumerate([(3, 4), (6, 8)][:2 if what == 'sig' else 1]):
      t = c.real('ts%d_t' % k, 0)
      ns.time_signatures.add(time=t, numerator=num, denominator=den)
      tsigs.append((num, den, t))
    for k, (key, mode) in enumerate([(7, 0), (2, 1)][:2 if what == 'sig' else 1]):
      t = c.real('ks%d_t' % k, 0)
      ns.key_signatures.add(time=t, key=key, mode=mode)
      ksigs.append((key + 12 * mode, t))
  if what == 'ctl':
    for k in (1, 0):   # the event of the second instrument is stored first
      t = c.real('pb%d_t' % k, 0)
      v = c.int('pb%d_v' % k, -8192, 8191)
      ns.pitch_bends.add(time=t, bend=v, instrument=k, program=5 * k)
      bends.append((k, (v, t)))
      t = c.real('cc%d_t' % k, 0)
      v = c.int('cc%d_v' % k, 0, 127)
      ns.control_changes.add(time=t, control_number=64 + k, control_value=v,
                             instrument=k, program=5 * k)
      ccs.append((k, (64 + k, v, t)))
  before = c.snapshot(ns)
  pm = _export(c, mio, c.params.get('entry', 'direct'), ns,
               drop_events_n_seconds_after_last_note=n_drop)
  c.check(pm is not None, 'export returns an object')
  c.check(c.msg_eq(ns, before), 'input unchanged (dropped events stay in the '
          'sequence)')

  def kept(t):
    return c.concretize(t <= cutoff)

  only_kept = what != 'empty'   # without notes: nothing claimed about drops

  def same_bag(got, exp, label):
    exp_kept = [k for keep, k in exp if keep]
    if only_kept:
      c.check(K.multiset_eq(c, got, [(True, k) for k in exp_kept]), label)
    else:
      c.check(c.And([c.Or([K.key_eq(c, g, k) for g in got] or [False])
                     for k in exp_kept] or [True]), label)

  same_bag([(t.numerator, t.denominator, t.time)
            for t in pm.time_signature_changes],
           [(kept(k[2]), k) for k in tsigs],
           'time signatures: exactly those with time <= last note end + n, '
           'with their values')
  same_bag([(k.key_number, k.time) for k in pm.key_signature_changes],
           [(kept(k[1]), k) for k in ksigs],
           'key signatures: exactly those with time <= last note end + n, '
           'with their values')
  if tempos:
    times, qpms = pm.get_tempo_changes()
    keep = kept(tempos[0][0])
    if only_kept or keep:
      c.check(len(times) == (2 if keep else 1) and
              bool(c.approx(qpms[0], 120.0, 1e-9)),
              'tempo change kept iff its time <= last note end + n')
    if keep and len(times) == 2:
      tick = 60.0 / (256 * 120.0)
      c.check(c.And(c.approx(qpms[1], 60.0, 1e-9),
                    times[1] - tempos[0][0] <= tick,
                    tempos[0][0] - times[1] <= tick),
              'kept tempo change has its qpm and time (within one tick)')
  total = sum(len(i.notes) for i in pm.instruments)
  c.check(total == len(notes), 'exactly the input notes are exported')
  for k, n in enumerate(notes):
    ins = [i for i in pm.instruments if len(i.notes) and i.program == 5 * k]
    c.check(len(ins) == 1 and len(ins[0].notes) == 1 and bool(c.And(
        c.eq(ins[0].notes[0].pitch, n['pitch']),
        c.eq(ins[0].notes[0].velocity, n['velocity']),
        c.eq(ins[0].notes[0].start, n['start_time']),
        c.eq(ins[0].notes[0].end, n['end_time']))),
            'each note is exported unchanged to the instrument of its group')
    same_bag([(b.pitch, b.time) for b in ins[0].pitch_bends],
             [(kept(v[1]), v) for g, v in bends if g == k],
             'pitch bends of each instrument: exactly those with time <= last '
             'note end + n')
    same_bag([(x.number, x.value, x.time) for x in ins[0].control_changes],
             [(kept(v[2]), v) for g, v in ccs if g == k],
             'control changes of each instrument: exactly those with time <= '
             'last note end + n')
  if len(notes) == 2:
    c.cover('the note that ends last is stored first',
            notes[0]['end_time'] > notes[1]['end_time'])
    c.cover('the note that starts last is not the one that ends last',
            c.And(notes[0]['end_time'] > notes[1]['end_time'],
                  notes[0]['start_time'] < notes[1]['start_time']))


def h_meta(c):
  """Header and signatures through export and import: ticks_per_quarter (also
  unset -> 220), several time / key signatures in any storage order with every
  power-of-two denominator, no tempo at all (-> the implicit 120 qpm), and a
  second export of the same sequence."""
  mio = c.mod('midi_io')
  tpq = c.choice('tpq', [0, 24, 480, 960])
  ns = c.pb.NoteSequence()
  if tpq:
    ns.ticks_per_quarter = tpq
  s_, e_ = c.real('n_s', 0), c.real('n_e', 0)
  c.assume(s_ < e_)
  ns.notes.add(pitch=c.int('n_p', 0, 127), velocity=c.int('n_v', 1, 127),
               start_time=s_, end_time=e_)
  tsigs, ksigs = [], []
  for k in range(2):
    t = c.real('ts%d_t' % k, 0)
    num = c.int('ts%d_n' % k, 1, 12)
    den = c.choice('ts%d_d' % k, [1, 2, 4, 8, 16, 32] if k == 0 else [4, 16])
    ns.time_signatures.add(time=t, numerator=num, denominator=den)
    tsigs.append((num, den, t))
    t = c.real('ks%d_t' % k, 0)
    key = c.int('ks%d_k' % k, 0, 11)
    mode = c.concretize(c.int('ks%d_m' % k, 0, 1))
    ns.key_signatures.add(time=t, key=key, mode=mode)
    ksigs.append((key, mode, t))
  before = c.snapshot(ns)
  pm = _export(c, mio, c.params.get('entry', 'direct'), ns)
  c.check(c.msg_eq(ns, before), 'input unchanged')
  c.check(pm.resolution == (tpq or 220),
          'exported resolution = ticks_per_quarter (220 when unset)')
  c.check(K.multiset_eq(c, [(t.numerator, t.denominator, t.time)
                            for t in pm.time_signature_changes],
                        [(True, k) for k in tsigs]),
          'every time signature exported once with its values')
  c.check(K.multiset_eq(c, [(k.key_number, k.time)
                            for k in pm.key_signature_changes],
                        [(True, (k[0] + 12 * k[1], k[2])) for k in ksigs]),
          'every key signature exported once (minor = key + 12)')
  times, qpms = pm.get_tempo_changes()
  c.check(len(times) == 1 and bool(c.And(c.eq(times[0], 0),
                                         c.approx(qpms[0], 120.0, 1e-9))),
          'no tempo in the sequence: the implicit 120 qpm and nothing else')
  # a second export of the same sequence gives the same object model and
  # leaves the first result alone
  def summary(x):
    return (x.resolution,
            [(t.numerator, t.denominator, t.time)
             for t in x.time_signature_changes],
            [(k.key_number, k.time) for k in x.key_signature_changes],
            [(i.program, bool(i.is_drum),
              [(n.pitch, n.velocity, n.start, n.end) for n in i.notes])
             for i in x.instruments])

  def same(a, b):
    if (a[0] != b[0] or [len(x) for x in a[1:]] != [len(x) for x in b[1:]] or
        [(p, d, len(n)) for p, d, n in a[3]] !=
        [(p, d, len(n)) for p, d, n in b[3]]):
      return False
    flat_a = a[1] + a[2] + [n for _, _, ns_ in a[3] for n in ns_]
    flat_b = b[1] + b[2] + [n for _, _, ns_ in b[3] for n in ns_]
    return c.And([K.key_eq(c, x, y) for x, y in zip(flat_a, flat_b)] or [True])

  first = summary(pm)
  pm2 = mio.note_sequence_to_pretty_midi(ns)
  c.check(same(summary(pm2), first),
          'a second export of the same sequence gives the same object model')
  c.check(same(summary(pm), first),
          'the first exported object is not altered by a second export')
  back = _import(c, mio, c.params.get('imp', 'object'), pm)
  c.check(back.ticks_per_quarter == (tpq or 220), 'same resolution read back')
  c.check(K.multiset_eq(
      c, [(t.numerator, t.denominator, t.time) for t in back.time_signatures],
      [(True, k) for k in tsigs]), 'same time signatures read back')
  c.check(K.multiset_eq(c, [(k.key, k.mode, k.time) for k in back.key_signatures],
                        [(True, k) for k in ksigs]),
          'same key signatures read back')
  c.check(len(back.tempos) == 1 and bool(c.And(
      c.eq(back.tempos[0].time, 0), c.approx(back.tempos[0].qpm, 120.0, 1e-9))),
          'implicit tempo read back as 120 qpm at time 0')
  c.check(len(back.notes) == 1 and bool(c.And(
      c.eq(back.notes[0].start_time, s_), c.eq(back.notes[0].end_time, e_),
      c.eq(back.total_time, e_))), 'the note and total_time read back')
  c.cover('later time signature stored first', tsigs[0][2] > tsigs[1][2])
  c.cover('both key signatures at one time', c.eq(ksigs[0][2], ksigs[1][2]))


def h_roundtrip(c):
  """import(export(s)) == s as a bag, instruments renumbered consistently."""
  mio = c.mod('midi_io')
  N = c.params['N']
  instrs = c.params.get('instrs', [0, 1, 2])
  tpq = c.params.get('tpq', 220)
  ns = c.pb.NoteSequence()
  ns.ticks_per_quarter = tpq
  notes, bends, ccs = _mk_events(c, ns, N, c.params.get('nb', 1),
                                 c.params.get('ncc', 1), instrs,
                                 c.params.get('progs', [0, 5]))
  infos = _add_infos(c, ns, instrs) if c.params.get('infos') else {}
  ns.tempos.add(time=0, qpm=97.3)
  ns.time_signatures.add(time=c.real('ts_t', 0), numerator=c.int('ts_n', 1, 12),
                         denominator=c.choice('ts_d', [2, 4, 8]))
  ns.key_signatures.add(time=c.real('ks_t', 0), key=c.int('ks_k', 0, 11),
                        mode=c.int('ks_m', 0, 1))
  before = c.snapshot(ns)
  pm = _export(c, mio, c.params.get('entry', 'direct'), ns)
  back = _import(c, mio, c.params.get('imp', 'object'), pm)
  c.check(c.msg_eq(ns, before), 'input unchanged')
  c.check(K.multiset_eq(
      c, [(n.pitch, n.velocity, n.start_time, n.end_time, n.program, n.is_drum)
          for n in back.notes],
      [(True, (n['pitch'], n['velocity'], n['start_time'], n['end_time'],
               n['program'], n['is_drum'])) for n in notes]),
          'same bag of notes (pitch, velocity, times, program, drum flag)')
  # grouping: notes share an instrument afterwards iff they shared (instrument,
  # program, is_drum) before
  outs = list(back.notes)
  for a in range(len(outs)):
    for b in range(a + 1, len(outs)):
      A, B = outs[a], outs[b]
      ia = [n for n in notes if bool(K.key_eq(
          c, (A.pitch, A.start_time, A.end_time, A.program, A.is_drum),
          (n['pitch'], n['start_time'], n['end_time'], n['program'],
           n['is_drum'])))]
      ib = [n for n in notes if bool(K.key_eq(
          c, (B.pitch, B.start_time, B.end_time, B.program, B.is_drum),
          (n['pitch'], n['start_time'], n['end_time'], n['program'],
           n['is_drum'])))]
      if len(ia) == 1 and len(ib) == 1 and ia[0] is not ib[0]:
        same_before = _group_key(ia[0]) == _group_key(ib[0])
        c.check(bool(c.eq(A.instrument, B.instrument)) == same_before,
                'notes share an instrument afterwards iff they did before')
  c.check(K.multiset_eq(c, [(b.bend, b.time, b.program, b.is_drum)
                            for b in back.pitch_bends],
                        [(True, (b['bend'], b['time'], b['program'],
                                 b['is_drum'])) for b in bends]), 'same bends')
  c.check(K.multiset_eq(
      c, [(x.control_number, x.control_value, x.time, x.program, x.is_drum)
          for x in back.control_changes],
      [(True, (x['control_number'], x['control_value'], x['time'], x['program'],
               x['is_drum'])) for x in ccs]), 'same control changes')
  c.check(len(back.time_signatures) == 1 and
          bool(c.msg_eq(back.time_signatures[0], ns.time_signatures[0])) and
          len(back.key_signatures) == 1 and
          bool(c.msg_eq(back.key_signatures[0], ns.key_signatures[0])),
          'same time and key signature')
  c.check(len(back.tempos) == 1 and bool(c.approx(back.tempos[0].qpm, 97.3, 1e-9))
          and bool(c.eq(back.tempos[0].time, 0)), 'same tempo')
  c.check(back.ticks_per_quarter == tpq, 'same resolution')
  c.check(c.eq(back.total_time, c.Max([0] + [n['end_time'] for n in notes])),
          'total_time read back = end of the last note')

  def okey(n):
    return (n['pitch'], n['velocity'], n['start_time'], n['end_time'],
            n['program'], n['is_drum'])

  def bkey(A):
    return (A.pitch, A.velocity, A.start_time, A.end_time, A.program, A.is_drum)

  # bends / control changes stay on the instrument that has their notes: the
  # new instrument number of an event is the new number of some note of the
  # event's old (instrument, program, is_drum) group
  def rides(ev_out, key_out, evs_in, key_in, label):
    for E in ev_out:
      opts = []
      for e in evs_in:
        for A in outs:
          for n in notes:
            if _group_key(n) != _group_key(e):
              continue
            opts.append(c.And(K.key_eq(c, key_out(E), key_in(e)),
                              K.key_eq(c, bkey(A), okey(n)),
                              c.eq(E.instrument, A.instrument)))
      c.check(c.Or(opts or [False]), label)

  rides(back.pitch_bends, lambda E: (E.bend, E.time, E.program, E.is_drum),
        bends, lambda e: (e['bend'], e['time'], e['program'], e['is_drum']),
        'every bend comes back on the instrument number of its notes')
  rides(back.control_changes,
        lambda E: (E.control_number, E.control_value, E.time, E.program,
                   E.is_drum), ccs,
        lambda e: (e['control_number'], e['control_value'], e['time'],
                   e['program'], e['is_drum']),
        'every control change comes back on the instrument number of its '
        'notes')
  if infos:
    # names given in instrument_infos travel with the notes (generated names
    # of other instruments are not claimed)
    names = {}
    for x in back.instrument_infos:
      names.setdefault(int(x.instrument), []).append(str(x.name))
    for A in outs:
      got = names.get(int(A.instrument), [])
      c.check(c.Or([c.And(K.key_eq(c, bkey(A), okey(n)),
                          n['instrument'] not in infos or
                          got == [infos[n['instrument']]])
                    for n in notes]),
              'a name given in instrument_infos comes back on the instrument '
              'number of the notes it was given for')


HARNESSES = {
    'h_drop': h_drop,
    'h_export_grouping': h_export_grouping,
    'h_tempo_order': h_tempo_order,
    'h_import': h_import,
    'h_roundtrip': h_roundtrip,
    'h_drop_multi': h_drop_multi,
    'h_meta': h_meta,
}


def jobs(tier):
  import itertools  # pylint: disable=g-import-not-at-top
  J = []

  def add(h, budget=400, required=True, **params):
    J.append({'harness': h, 'params': params, 'budget_s': budget,
              'required': required})

  deep = tier == 'thorough'
  add('h_export_grouping', N=1)
  add('h_export_grouping', N=2)
  add('h_export_grouping', N=3, budget=900)
  for order in itertools.permutations(range(2)):
    add('h_tempo_order', K=2, q=[0, 1], order=list(order))
    add('h_tempo_order', K=2, q=[1, 2], order=list(order), first_at_zero=False)
  for order in itertools.permutations(range(3)):
    add('h_tempo_order', K=3, q=[2, 0, 3], order=list(order))
  # a tempo map that returns to its initial value, and one that restates it
  add('h_tempo_order', K=3, q=[1, 0, 1], order=[0, 1, 2])
  add('h_tempo_order', K=3, q=[1, 0, 1], order=[2, 0, 1])
  add('h_tempo_order', K=3, q=[1, 1, 0], order=[0, 1, 2])
  add('h_drop')
  add('h_import', I=1, N=2)
  add('h_import', I=2, N=1)
  add('h_roundtrip', N=2, budget=900)
  # --- header fields, names, other instrument numbers, degenerate sizes
  add('h_export_grouping', N=0)
  add('h_export_grouping', N=1, nb=2, ncc=2, tpq=0)
  add('h_export_grouping', N=2, instrs=[0, 9, 17], progs=[0, 127], infos=True,
      tpq=480, budget=900)
  add('h_roundtrip', N=2, instrs=[0, 9, 17], progs=[0, 127], infos=True,
      tpq=480, nb=2, budget=900)
  add('h_roundtrip', N=1, nb=2, ncc=2, tpq=24, entry='file', imp='file_alias')
  add('h_meta')
  add('h_meta', entry='file_alias', imp='file')
  # --- tempo maps: none / one tempo, other resolutions (0 = field unset)
  add('h_tempo_order', K=0, q=[], order=[])
  add('h_tempo_order', K=1, q=[1], order=[0])
  add('h_tempo_order', K=1, q=[2], order=[0], first_at_zero=False)
  add('h_tempo_order', K=2, q=[1, 2], order=[1, 0], tpq=480)
  add('h_tempo_order', K=2, q=[2, 1], order=[1, 0], tpq=0)
  add('h_tempo_order', K=2, q=[4, 0], order=[1, 0], tpq=220, budget=300)
  add('h_tempo_order', K=2, q=[0, 4], order=[1, 0], tpq=220, budget=300)
  add('h_tempo_order', K=2, q=[4, 1], order=[1, 0], tpq=220, budget=300,
      first_at_zero=False)
  add('h_tempo_order', K=3, q=[1, 4, 2], order=[2, 0, 1], tpq=220, budget=300)
  # --- the drop argument: through every entry point, several of each kind
  add('h_drop', entry='alias')
  add('h_drop', entry='file_alias')
  add('h_drop_multi', what='sig')
  add('h_drop_multi', what='ctl')
  add('h_drop_multi', what='empty')
  add('h_drop_multi', what='sig', entry='file')
  add('h_drop_multi', what='ctl', entry='alias')
  add('h_drop_multi', what='empty', entry='file_alias')
  # --- import: empty instruments / no instruments, several signatures, a real
  # tempo map, the renamed and the file entry points
  add('h_import', I=1, N=0)
  add('h_import', I=0, N=0, S=0)
  add('h_import', I=1, N=1, S=2)
  add('h_import', I=2, N=1, tempos=[(480, 60.0), (1440, 240.0)], entry='alias')
  add('h_import', I=3, N=0, S=0, named=[0, 2], tempos=[(100, 97.3)],
      entry='file')
  add('h_import', I=1, N=1, entry='file_alias')
  if deep:
    add('h_export_grouping', N=4, budget=3000, required=False)
    for q in itertools.permutations(range(4), 3):
      for order in itertools.permutations(range(3)):
        add('h_tempo_order', K=3, q=list(q), order=list(order), budget=900)
        add('h_tempo_order', K=3, q=list(q), order=list(order),
            first_at_zero=False, budget=900)
    add('h_tempo_order', K=2, q=[4, 0], order=[1, 0], tpq=220, budget=900,
        required=False)
    add('h_import', I=2, N=2, budget=1800)
    add('h_import', I=2, N=1, S=2, named=[0], tempos=[(1, 30.0), (2, 240.0)],
        budget=1800)
    add('h_roundtrip', N=3, budget=3000)
    add('h_export_grouping', N=3, instrs=[0, 9, 17], progs=[0, 127],
        infos=True, tpq=960, nb=2, ncc=2, budget=3000)
    for entry in ('alias', 'file', 'file_alias'):
      add('h_drop_multi', what='sig', entry=entry)
      add('h_drop_multi', what='ctl', entry=entry)
      add('h_drop', entry=entry)
  return J
