"""C03 -- writing a NoteSequence to MIDI and reading it back preserves the
music (object level: the byte layer is cut out)."""
from props import common as K

META = {
    'level': 'other',
    'level_text':
        'note_seq\'s own conversion code (note_sequence_to_pretty_midi and '
        'midi_to_note_sequence on a PrettyMIDI object) is executed '
        'symbolically against pm-lite, a pure-Python stand-in for the '
        'pretty_midi object model with an exact piecewise-linear tempo map: '
        'the solver decides, for all times / values / assignments of '
        '(instrument, program, is_drum) within the bounds, that export groups '
        'every event into exactly one instrument with the right program/drum '
        'flag, that import enumerates everything 1:1, that import(export(s)) '
        'returns the same bag of notes, bends, control changes, signatures and '
        'tempos, and that the exported tempo map does not depend on the '
        'storage order of tempos. Serialisation to bytes and re-parsing '
        '(PrettyMIDI.write, mido) are replaced by the assumption that they are '
        'the identity on the object model up to one tick.',
    'level_note':
        'Trusted: z3, reals for doubles, symproto, and pm-lite\'s fidelity to '
        'pretty_midi 0.2.11 for the calls midi_io makes (every sampled path '
        'and every counterexample is replayed on the real pretty_midi object '
        'model). Outside the claim: everything about bytes, "within one MIDI '
        'tick" for note times, the ticks_per_quarter range.',
    'explanation':
        'Stub-contract level: the verdict is a bounded symbolic-execution '
        'result about note_seq.midi_io given pm-lite as the model of the '
        'pretty_midi objects; the third-party byte layer is assumed, not '
        'checked.',
    'functions': [('midi_io', 'note_sequence_to_pretty_midi'),
                  ('midi_io', 'midi_to_note_sequence')],
    'assumptions': [
        'pretty_midi write+read is the identity on the object model (up to a '
        'tick) - not checked',
        'pitches 0..127, velocities 1..127, notes of positive length',
        'tempo values come from the grid {30,60,120,240} qpm at 256 ticks per '
        'quarter (tick scales are then exact binary fractions, which keeps the '
        'integer arithmetic of the tick rounding small; 97.3 qpm at 220 tpq is '
        'tried in the thorough tier without being required to finish); tempo '
        'times symbolic, pairwise distinct',
    ],
    'bounds': {
        'quick': 'N<=3 notes + 1 bend + 1 control change over instruments '
                 '{0,1,2} x programs {0,5} x drum flag; K<=3 tempos',
        'thorough': 'N<=4 notes, K<=3 tempos with all qpm permutations',
    },
    'outside': ['bytes / mido / PrettyMIDI.write', 'tick rounding of note '
                'times'],
}

_QPMS = [120.0, 60.0, 240.0, 30.0, 97.3]


def _group_key(x):
  return (x['instrument'], x['program'], x['is_drum'])


def _mk_events(c, ns, N, nb, ncc):
  notes, bends, ccs = [], [], []
  for i in range(N):
    d = dict(pitch=c.int('n%d_p' % i, 0, 127), velocity=c.int('n%d_v' % i, 1, 127),
             start_time=c.real('n%d_s' % i, 0), end_time=c.real('n%d_e' % i),
             instrument=c.choice('n%d_i' % i, [0, 1, 2]),
             program=c.choice('n%d_g' % i, [0, 5]),
             is_drum=c.concretize(c.bool('n%d_d' % i)))
    c.assume(d['end_time'] > d['start_time'])
    ns.notes.add(**d)
    notes.append(d)
  # bends / control changes ride on the instrument of a note (property
  # quantifier: only instruments that have notes)
  for i in range(nb):
    src = notes[i % N]
    d = dict(time=c.real('b%d_t' % i, 0), bend=c.int('b%d_b' % i, -8192, 8191),
             instrument=src['instrument'], program=src['program'],
             is_drum=src['is_drum'])
    ns.pitch_bends.add(**d)
    bends.append(d)
  for i in range(ncc):
    src = notes[(i + 1) % N]
    d = dict(time=c.real('c%d_t' % i, 0),
             control_number=c.int('c%d_n' % i, 0, 127),
             control_value=c.int('c%d_v' % i, 0, 127),
             instrument=src['instrument'], program=src['program'],
             is_drum=src['is_drum'])
    ns.control_changes.add(**d)
    ccs.append(d)
  return notes, bends, ccs


def h_export_grouping(c):
  mio = c.mod('midi_io')
  N = c.params['N']
  ns = c.pb.NoteSequence()
  ns.ticks_per_quarter = 220
  notes, bends, ccs = _mk_events(c, ns, N, 1, 1)
  before = c.snapshot(ns)
  pm = mio.note_sequence_to_pretty_midi(ns)
  c.check(c.msg_eq(ns, before), 'input unchanged')
  groups = {}
  for n in notes:
    groups.setdefault(_group_key(n), []).append(n)
  used = [ins for ins in pm.instruments
          if ins.notes or ins.pitch_bends or ins.control_changes]
  c.check(len(used) == len(groups),
          'one pretty_midi instrument per (instrument, program, is_drum) group')
  import itertools  # pylint: disable=g-import-not-at-top
  keys = list(groups)

  def fits(key, ins):
    members = groups[key]
    gb = [b for b in bends if _group_key(b) == key]
    gc = [x for x in ccs if _group_key(x) == key]
    if (ins.program != key[1] or bool(ins.is_drum) != bool(key[2]) or
        len(ins.notes) != len(members) or len(ins.pitch_bends) != len(gb) or
        len(ins.control_changes) != len(gc)):
      return False
    return c.And(
        K.multiset_eq(c, [(m.pitch, m.velocity, m.start, m.end)
                          for m in ins.notes],
                      [(True, (n['pitch'], n['velocity'], n['start_time'],
                               n['end_time'])) for n in members]),
        K.multiset_eq(c, [(b.pitch, b.time) for b in ins.pitch_bends],
                      [(True, (b['bend'], b['time'])) for b in gb]),
        K.multiset_eq(c, [(x.number, x.value, x.time)
                          for x in ins.control_changes],
                      [(True, (x['control_number'], x['control_value'],
                               x['time'])) for x in gc]))

  if len(used) == len(keys):
    table = [[fits(k, ins) for ins in used] for k in keys]
    options = []
    for perm in itertools.permutations(range(len(used))):
      row = [table[g][perm[g]] for g in range(len(keys))]
      if any(r is False for r in row):
        continue
      options.append(c.And(row))
    c.check(c.Or(options or [False]),
            'every group (notes with their bends and control changes) is '
            'exported whole to its own instrument with its program and drum '
            'flag: nothing dropped, duplicated or moved')
  total = sum(len(i.notes) for i in pm.instruments)
  c.check(total == N, 'exactly the input notes are exported')
  c.cover('two programs on instrument number 0',
          len([k for k in groups if k[0] == 0]) >= 2)


def _tempo_setup(c, Kt, qidx):
  ns = c.pb.NoteSequence()
  ns.ticks_per_quarter = c.params.get('tpq', 256)
  ts = []
  for i in range(Kt):
    if i == 0 and c.params.get('first_at_zero', True):
      t = 0
    else:
      t = c.real('tp%d_t' % i)
      c.assume(t > 0)
    ts.append((t, _QPMS[qidx[i]]))
  for i in range(Kt):
    for j in range(i + 1, Kt):
      c.assume(c.Not(c.eq(ts[i][0], ts[j][0])))
  return ns, ts


def h_tempo_order(c):
  """The exported tempo map is the time-sorted one, whatever the storage
  order."""
  mio = c.mod('midi_io')
  Kt = c.params['K']
  ns, ts = _tempo_setup(c, Kt, c.params['q'])
  order = c.params['order']
  for i in order:
    ns.tempos.add(time=ts[i][0], qpm=ts[i][1])
  res, err = c.raises(mio.note_sequence_to_pretty_midi, ns)
  if err is not None:
    c.check(False, 'export failed / produced a tempo map that is not in time '
            'order (%s)' % type(err).__name__)
    return
  pm = res
  ticks = [t for t, _ in pm._tick_scales]
  c.check(all(bool(a <= b) for a, b in zip(ticks, ticks[1:])),
          'exported tempo map is in time order')
  times, qpms = pm.get_tempo_changes()
  want = sorted(ts, key=lambda x: x[0])
  if not bool(c.eq(want[0][0], 0)):
    want = [(0, 120.0)] + want
  c.check(len(times) == len(want), 'every tempo exported once')
  tpq = c.params.get('tpq', 256)
  tick_max = 60.0 / (tpq * 30.0)  # one tick at the slowest tempo of the grid
  for (t, q), t2, q2 in zip(want, list(times), list(qpms)):
    c.check(c.approx(q2, q, 1e-9), 'tempo values in time order')
    c.check(c.And(t2 - t <= tick_max, t - t2 <= tick_max),
            'tempo change time within one tick')
  c.cover('later tempo stored first', len(order) >= 2 and order[0] > order[1])


def h_import(c):
  """midi_to_note_sequence on a PrettyMIDI object enumerates everything 1:1."""
  mio = c.mod('midi_io')
  pmod = c.pm
  I = c.params['I']
  pm = pmod.PrettyMIDI(resolution=c.params.get('tpq', 480), initial_tempo=100.0)
  exp_notes, exp_bends, exp_ccs = [], [], []
  for i in range(I):
    prog = c.int('i%d_g' % i, 0, 127)
    drum = c.concretize(c.bool('i%d_d' % i))
    ins = pmod.Instrument(prog, drum, 'name%d' % i if i else '')
    for j in range(c.params['N']):
      s = c.real('i%dn%d_s' % (i, j), 0)
      e = c.real('i%dn%d_e' % (i, j))
      c.assume(e >= s)
      p, v = c.int('i%dn%d_p' % (i, j), 0, 127), c.int('i%dn%d_v' % (i, j), 0, 127)
      ins.notes.append(pmod.Note(v, p, s, e))
      exp_notes.append((p, v, s, e, i, prog, drum))
    bt, bv = c.real('i%db_t' % i, 0), c.int('i%db_v' % i, -8192, 8191)
    ins.pitch_bends.append(pmod.PitchBend(bv, bt))
    exp_bends.append((bv, bt, i, prog, drum))
    ct = c.real('i%dc_t' % i, 0)
    cn, cv = c.int('i%dc_n' % i, 0, 127), c.int('i%dc_v' % i, 0, 127)
    ins.control_changes.append(pmod.ControlChange(cn, cv, ct))
    exp_ccs.append((cn, cv, ct, i, prog, drum))
    pm.instruments.append(ins)
  kn = c.int('key', 0, 23)
  kt = c.real('key_t', 0)
  pm.key_signature_changes.append(pmod.containers.KeySignature(
      c.concretize(kn) if c.mode == 'conc' else kn, kt))
  tn, td = c.int('ts_n', 1, 255), c.choice('ts_d', [1, 2, 4, 8, 16])
  tt = c.real('ts_t', 0)
  pm.time_signature_changes.append(pmod.containers.TimeSignature(tn, td, tt))
  seq = mio.midi_to_note_sequence(pm)
  got = [(n.pitch, n.velocity, n.start_time, n.end_time, n.instrument, n.program,
          n.is_drum) for n in seq.notes]
  c.check(K.multiset_eq(c, got, [(True, k) for k in exp_notes]),
          'notes 1:1 with instrument index, program and drum flag')
  c.check(K.multiset_eq(
      c, [(b.bend, b.time, b.instrument, b.program, b.is_drum)
          for b in seq.pitch_bends], [(True, k) for k in exp_bends]),
          'pitch bends 1:1')
  c.check(K.multiset_eq(
      c, [(x.control_number, x.control_value, x.time, x.instrument, x.program,
           x.is_drum) for x in seq.control_changes],
      [(True, k) for k in exp_ccs]), 'control changes 1:1')
  c.check(c.eq(seq.total_time, c.Max([0] + [k[3] for k in exp_notes])),
          'total_time = last note end')
  c.check(len(seq.key_signatures) == 1 and
          bool(c.And(c.eq(seq.key_signatures[0].key, kn % 12),
                     c.eq(seq.key_signatures[0].mode, kn // 12),
                     c.eq(seq.key_signatures[0].time, kt))),
          'key and mode from key_number')
  c.check(len(seq.time_signatures) == 1 and
          bool(c.And(c.eq(seq.time_signatures[0].numerator, tn),
                     c.eq(seq.time_signatures[0].denominator, td),
                     c.eq(seq.time_signatures[0].time, tt))), 'time signature')
  c.check(seq.ticks_per_quarter == pm.resolution and len(seq.tempos) == 1 and
          bool(c.approx(seq.tempos[0].qpm, 100.0, 1e-9)), 'resolution and tempo')
  c.check(len(seq.instrument_infos) == I - 1, 'instrument names kept')


def h_drop(c):
  """Export with drop_events_n_seconds_after_last_note: every event at or
  before (last note END + n) is written, later ones are not - whatever the
  header field total_time says (it may be unset or stale in a hand-built
  sequence)."""
  mio = c.mod('midi_io')
  ns = c.pb.NoteSequence()
  ns.ticks_per_quarter = 220
  s_, e_ = c.real('n_s', 0), c.real('n_e', 0)
  c.assume(s_ < e_)
  ns.notes.add(pitch=60, velocity=80, start_time=s_, end_time=e_)
  ns.total_time = c.real('total_time', 0)   # free: accurate, unset or stale
  n_drop = c.real('drop', 0, 8)
  ns.tempos.add(time=0, qpm=120)
  t_ts, t_ks, t_cc, t_pb = (c.real('ts_t', 0), c.real('ks_t', 0),
                            c.real('cc_t', 0), c.real('pb_t', 0))
  ns.time_signatures.add(time=t_ts, numerator=3, denominator=4)
  ns.key_signatures.add(time=t_ks, key=7)
  ns.control_changes.add(time=t_cc, control_number=64, control_value=100)
  ns.pitch_bends.add(time=t_pb, bend=100)
  pm = mio.note_sequence_to_pretty_midi(
      ns, drop_events_n_seconds_after_last_note=n_drop)
  cutoff = e_ + n_drop
  ins = [i for i in pm.instruments if len(i.notes)]
  c.check(len(ins) == 1 and len(ins[0].notes) == 1, 'the note is exported')
  for label, t, got in (
      ('time signature', t_ts, len(pm.time_signature_changes)),
      ('key signature', t_ks, len(pm.key_signature_changes)),
      ('control change', t_cc, len(ins[0].control_changes) if ins else 0),
      ('pitch bend', t_pb, len(ins[0].pitch_bends) if ins else 0)):
    keep = c.concretize(t <= cutoff)
    c.check(got == (1 if keep else 0),
            '%s kept iff its time <= last note end + n' % label)
  c.cover('total_time smaller than the note end (stale header field)',
          ns.total_time < e_)
  c.cover('an event between total_time + n and note end + n',
          c.And(ns.total_time + n_drop < t_cc, t_cc <= cutoff))


def h_roundtrip(c):
  """import(export(s)) == s as a bag, instruments renumbered consistently."""
  mio = c.mod('midi_io')
  N = c.params['N']
  ns = c.pb.NoteSequence()
  ns.ticks_per_quarter = 220
  notes, bends, ccs = _mk_events(c, ns, N, 1, 1)
  ns.tempos.add(time=0, qpm=97.3)
  ns.time_signatures.add(time=c.real('ts_t', 0), numerator=c.int('ts_n', 1, 12),
                         denominator=c.choice('ts_d', [2, 4, 8]))
  ns.key_signatures.add(time=c.real('ks_t', 0), key=c.int('ks_k', 0, 11),
                        mode=c.int('ks_m', 0, 1))
  pm = mio.note_sequence_to_pretty_midi(ns)
  back = mio.midi_to_note_sequence(pm)
  c.check(K.multiset_eq(
      c, [(n.pitch, n.velocity, n.start_time, n.end_time, n.program, n.is_drum)
          for n in back.notes],
      [(True, (n['pitch'], n['velocity'], n['start_time'], n['end_time'],
               n['program'], n['is_drum'])) for n in notes]),
          'same bag of notes (pitch, velocity, times, program, drum flag)')
  # grouping: notes share an instrument afterwards iff they shared (instrument,
  # program, is_drum) before
  outs = list(back.notes)
  for a in range(len(outs)):
    for b in range(a + 1, len(outs)):
      A, B = outs[a], outs[b]
      ia = [n for n in notes if bool(K.key_eq(
          c, (A.pitch, A.start_time, A.end_time, A.program, A.is_drum),
          (n['pitch'], n['start_time'], n['end_time'], n['program'],
           n['is_drum'])))]
      ib = [n for n in notes if bool(K.key_eq(
          c, (B.pitch, B.start_time, B.end_time, B.program, B.is_drum),
          (n['pitch'], n['start_time'], n['end_time'], n['program'],
           n['is_drum'])))]
      if len(ia) == 1 and len(ib) == 1 and ia[0] is not ib[0]:
        same_before = _group_key(ia[0]) == _group_key(ib[0])
        c.check(bool(c.eq(A.instrument, B.instrument)) == same_before,
                'notes share an instrument afterwards iff they did before')
  c.check(K.multiset_eq(c, [(b.bend, b.time, b.program, b.is_drum)
                            for b in back.pitch_bends],
                        [(True, (b['bend'], b['time'], b['program'],
                                 b['is_drum'])) for b in bends]), 'same bends')
  c.check(K.multiset_eq(
      c, [(x.control_number, x.control_value, x.time, x.program, x.is_drum)
          for x in back.control_changes],
      [(True, (x['control_number'], x['control_value'], x['time'], x['program'],
               x['is_drum'])) for x in ccs]), 'same control changes')
  c.check(len(back.time_signatures) == 1 and
          bool(c.msg_eq(back.time_signatures[0], ns.time_signatures[0])) and
          len(back.key_signatures) == 1 and
          bool(c.msg_eq(back.key_signatures[0], ns.key_signatures[0])),
          'same time and key signature')
  c.check(len(back.tempos) == 1 and bool(c.approx(back.tempos[0].qpm, 97.3, 1e-9))
          and bool(c.eq(back.tempos[0].time, 0)), 'same tempo')
  c.check(back.ticks_per_quarter == 220, 'same resolution')


HARNESSES = {
    'h_drop': h_drop,
    'h_export_grouping': h_export_grouping,
    'h_tempo_order': h_tempo_order,
    'h_import': h_import,
    'h_roundtrip': h_roundtrip,
}


def jobs(tier):
  import itertools  # pylint: disable=g-import-not-at-top
  J = []

  def add(h, budget=400, required=True, **params):
    J.append({'harness': h, 'params': params, 'budget_s': budget,
              'required': required})

  deep = tier == 'thorough'
  add('h_export_grouping', N=1)
  add('h_export_grouping', N=2)
  add('h_export_grouping', N=3, budget=900)
  for order in itertools.permutations(range(2)):
    add('h_tempo_order', K=2, q=[0, 1], order=list(order))
    add('h_tempo_order', K=2, q=[1, 2], order=list(order), first_at_zero=False)
  for order in itertools.permutations(range(3)):
    add('h_tempo_order', K=3, q=[2, 0, 3], order=list(order))
  # a tempo map that returns to its initial value, and one that restates it
  add('h_tempo_order', K=3, q=[1, 0, 1], order=[0, 1, 2])
  add('h_tempo_order', K=3, q=[1, 0, 1], order=[2, 0, 1])
  add('h_tempo_order', K=3, q=[1, 1, 0], order=[0, 1, 2])
  add('h_drop')
  add('h_import', I=1, N=2)
  add('h_import', I=2, N=1)
  add('h_roundtrip', N=2, budget=900)
  if deep:
    add('h_export_grouping', N=4, budget=3000, required=False)
    for q in itertools.permutations(range(4), 3):
      for order in itertools.permutations(range(3)):
        add('h_tempo_order', K=3, q=list(q), order=list(order), budget=900)
        add('h_tempo_order', K=3, q=list(q), order=list(order),
            first_at_zero=False, budget=900)
    add('h_tempo_order', K=2, q=[4, 0], order=[1, 0], tpq=220, budget=900,
        required=False)
    add('h_import', I=2, N=2, budget=1800)
    add('h_roundtrip', N=3, budget=3000)
  return J
