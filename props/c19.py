"""C19 -- chord and melody inference return a maximum-likelihood path of their
model (the two Viterbi kernels only)."""
import itertools

META = {
    'level': 'model_checking',
    'level_text':
        'The real _melody_viterbi and _key_chord_viterbi are executed through '
        'np-lite on likelihood and transition matrices whose EVERY ENTRY is a '
        'free symbolic real (np-lite\'s argmax is an if-then-else chain with '
        'numpy\'s first-maximum rule, so the dynamic program runs on one path '
        'per returned state sequence); the solver then shows that no other of '
        'the S^T state sequences has a strictly larger total log-likelihood '
        '- for all matrices at once, which is what "independent dynamic '
        'program from the same likelihoods" samples.',
    'level_note':
        'Trusted: z3 (linear real arithmetic), np-lite (tile / argmax / fancy '
        'select; validated per sampled path against numpy). Inside the claim: '
        'the two Viterbi kernels, and the annotation / note WRITING stages of '
        'infer_chords_for_sequence and infer_melody_for_sequence '
        '(h_chord_annotations, h_melody_notes), which run for real while the '
        'numeric stages around them are nondeterministic stubs: the Viterbi '
        'stub returns a freely chosen path per frame (for the melody: any path '
        'of non-zero likelihood - onsets only where the frame has an onset of '
        'that pitch, continuations only of the current pitch), so the '
        'well-formedness clause is decided for whatever the kernel returns. '
        'sequence_note_frames (set / sort / bisect over symbolic times) runs '
        'for real. Outside: frame likelihoods (numpy linalg), transition '
        'models (scipy toeplitz), transposition invariance of the whole '
        'pipeline. For '
        'the chord kernel the module tables _CHORDS/_KEY_CHORDS are replaced '
        'by a 2-chord table for the harness (tables are data; the function '
        'hard-codes 12 keys).',
    'functions': [('melody_inference', '_melody_viterbi'),
                  ('chord_inference', '_key_chord_viterbi'),
                  ('chord_inference', 'infer_chords_for_sequence'),
                  ('melody_inference', 'infer_melody_for_sequence'),
                  ('melody_inference', 'sequence_note_frames')],
    'assumptions': [
        'log-likelihoods are finite reals',
        'chord kernel: chord table cut to 2 chords (24 key-chord states)',
        'writing stages: times on a grid of quarter seconds (symbolic grid '
        'index; sets and dict keys of times force a finite domain), notes '
        'with start < end <= total_time; stubs: sequence_note_pitch_vectors '
        '(frame count as the real one derives it), _chord_frame_log_likelihood, '
        '_key_chord_distribution, _key_chord_transition_distribution, '
        '_key_chord_viterbi (free path: key in {C, G}, chord in {N.C., C, Fm}), '
        '_melody_transition_distribution, _melody_frame_log_likelihood, '
        '_melody_viterbi (free valid path)',
    ],
    'bounds': {
        'quick': 'melody: (T,S) in {(1,3),(2,3),(3,3),(2,5)} fully symbolic, plus '
                 'the full-size kernel (128 pitches, 257 states, T=2) with a '
                 'concrete first frame / transition matrix and the last '
                 'frame\'s five boundary states symbolic; chords: T=1 with 24 '
                 'states; chord annotations: <=3 bar frames (4/4, 3/4, 5/4, '
                 'chords_per_bar 3) and <=2 beats on a 5-point grid, with and '
                 'without add_key_signatures; melody notes: <=2 notes, pitches '
                 '{60,64}, 4-point grid',
        'thorough': 'melody (3,5),(4,3); chords T=2; chord annotations with 3 '
                    'beats / 4 bar frames; melody notes from 2 notes on a '
                    '5-point grid, 3 notes on a 4-point grid',
    },
    'outside': ['frame likelihoods, transition models, whole-pipeline '
                'transposition invariance', 'longer sequences',
                'zero-length notes in melody inference'],
}


def _matrix(c, name, rows, cols):
  return [[c.real('%s_%d_%d' % (name, i, j), -50, 50) for j in range(cols)]
          for i in range(rows)]


def h_melody_viterbi(c):
  mi = c.mod('melody_inference')
  np = c.np
  T, npitch = c.params['T'], c.params['P']
  pitches = [60, 64][:npitch]
  S = 2 * npitch + 1
  frame = _matrix(c, 'f', T, S)
  trans = _matrix(c, 't', S, S)
  res = mi._melody_viterbi(list(pitches), np.array(frame), np.array(trans))
  c.check(len(res) == T, 'one event per frame')
  path = []
  for ev in res:
    if ev == mi.REST:
      path.append(0)
    else:
      pitch, onset = ev
      i = pitches.index(pitch) + 1
      path.append(i if onset else i + npitch)

  def score(p):
    s = trans[0][p[0]] + frame[0][p[0]]
    for t in range(1, T):
      s = s + trans[p[t - 1]][p[t]] + frame[t][p[t]]
    return s

  mine = score(path)
  others = [mine >= score(alt) for alt in itertools.product(range(S), repeat=T)]
  c.check(c.And(others),
          'returned path attains the maximum total log-likelihood over all '
          'S^T state sequences')
  c.cover('path changes state', T >= 2 and path[0] != path[-1])


def h_chord_viterbi(c):
  ci = c.mod('chord_inference')
  np = c.np
  T = c.params['T']
  chords = ['N.C.', (0, 'maj')]
  C = len(chords)
  S = 12 * C
  saved = (ci._CHORDS, ci._KEY_CHORDS)
  ci._CHORDS = list(chords)
  ci._KEY_CHORDS = list(itertools.product(range(12), chords))
  try:
    frame = _matrix(c, 'f', T, C)
    kcl = _matrix(c, 'k', 12, C)
    trans = _matrix(c, 't', S, S) if T > 1 else [[0.0] * S for _ in range(S)]
    res = ci._key_chord_viterbi(np.array(frame), np.array(kcl), np.array(trans))
  finally:
    ci._CHORDS, ci._KEY_CHORDS = saved
  c.check(len(res) == T, 'one key-chord pair per frame')
  path = [key * C + chords.index(ch) for key, ch in res]
  import math  # pylint: disable=g-import-not-at-top

  def score(p):
    s = -math.log(12) + kcl[p[0] // C][p[0] % C] + frame[0][p[0] % C]
    for t in range(1, T):
      s = s + trans[p[t - 1]][p[t]] + frame[t][p[t] % C]
    return s

  mine = score(path)
  others = [mine >= score(alt) for alt in itertools.product(range(S), repeat=T)]
  c.check(c.And(others),
          'returned key-chord path attains the maximum total log-likelihood')


def h_melody_viterbi_wide(c):
  """Full-size state space (128 pitches, 257 states, 2 frames).  The first
  frame and the transition matrix are concrete (so the 257 back-pointers of
  frame 1 are computed concretely and include the highest state index 256);
  the second frame's log-likelihoods of the boundary states {rest,
  onset/sustain of the lowest and of the highest pitch} are symbolic and every
  other state is concretely hopeless (-1e6).  The returned path must beat all
  257 x 5 alternatives."""
  mi = c.mod('melody_inference')
  np = c.np
  P = 128
  pitches = list(range(P))
  S = 2 * P + 1
  keep = [0, 1, P, P + 1, 2 * P]  # rest, on(0), on(127), sus(0), sus(127)
  first = c.params['first']  # best state of the first frame
  frame0 = [-3.0 - 0.01 * (i % 7) for i in range(S)]
  frame0[first] = 0.0
  frame1 = [-1.0e6] * S
  for k in keep:
    frame1[k] = c.real('f1_%d' % k, -50, 50)
  trans = [[-1.0 - 0.001 * ((i * 7 + j * 3) % 11) for j in range(S)]
           for i in range(S)]
  res = mi._melody_viterbi(list(pitches), np.array([frame0, frame1]),
                           np.array(trans))
  path = []
  for ev in res:
    if ev == mi.REST:
      path.append(0)
    else:
      pitch, onset = ev
      path.append(pitch + 1 if onset else pitch + 1 + P)
  c.check(path[1] in keep, 'the last state is one of the boundary states')

  def score(p):
    return (trans[0][p[0]] + frame0[p[0]] + trans[p[0]][p[1]] + frame1[p[1]])

  mine = score(path)
  c.check(c.And([mine >= score((a, b)) for a in range(S) for b in keep]),
          'returned path attains the maximum (all 257 first states x the '
          'boundary last states; the highest state index 256 included)')
  c.cover('best first state is the highest state index', path[0] == 2 * P)


class _Stubs(object):
  """Temporarily replaces attributes of a module (numeric stages that are
  outside the claim) and restores them."""

  def __init__(self, mod, **repl):
    self.mod, self.repl, self.saved = mod, repl, {}

  def __enter__(self):
    for k, v in self.repl.items():
      self.saved[k] = getattr(self.mod, k)
      setattr(self.mod, k, v)
    return self

  def __exit__(self, *exc):
    for k, v in self.saved.items():
      setattr(self.mod, k, v)
    return False


def h_chord_annotations(c):
  """The annotation-writing stage of infer_chords_for_sequence on an ARBITRARY
  key/chord path: the numeric stages (pitch vectors, likelihoods, transition
  model, the Viterbi kernel itself) are replaced by stubs and the stub for
  _key_chord_viterbi returns a path chosen freely per frame, so the claim
  covers whatever path the real kernel could return.  Times lie on a grid of
  quarter seconds (symbolic grid index)."""
  import math  # pylint: disable=g-import-not-at-top
  from fractions import Fraction  # pylint: disable=g-import-not-at-top
  ci = c.mod('chord_inference')
  sl = c.mod('sequences_lib')
  pb = c.pb
  np = c.np
  TA = pb.NoteSequence.TextAnnotation
  mode = c.params['mode']
  K = c.params['K']
  add_keys = c.params['add_keys']
  seq = pb.NoteSequence()
  tk = c.int('total_k', 0, K)
  seq.total_time = tk * 0.25
  old_ks = seq.key_signatures.add()
  old_ks.key = 3
  other = seq.text_annotations.add()
  other.text = 'lyric'
  other.time = 0.5
  other.annotation_type = TA.UNKNOWN
  cpb = None
  if mode == 'bars':
    spq, qpm, (num, den) = c.params['spq'], c.params['qpm'], c.params['ts']
    cpb = c.params.get('cpb')
    seq.quantization_info.steps_per_quarter = spq
    seq.tempos.add().qpm = qpm
    ts = seq.time_signatures.add()
    ts.numerator, ts.denominator = num, den
  else:
    B = c.params['B']
    sps = c.params.get('sps')  # absolute quantization: beats carry steps
    if sps:
      seq.quantization_info.steps_per_second = sps
    bks = [c.int('beat%d_k' % i, 0, K) for i in range(B)]
    for bk in bks:
      ta = seq.text_annotations.add()
      ta.time = bk * 0.25
      ta.annotation_type = TA.BEAT
      if sps:
        ta.quantized_step = bk * (sps // 4)
  n_before = len(seq.text_annotations)
  chosen = []

  def pitch_vectors(sequence, seconds_per_frame):
    # frame count exactly as sequence_note_pitch_vectors derives it
    if isinstance(seconds_per_frame, (int, float)):
      n = ci.int(ci.math.ceil(sequence.total_time / seconds_per_frame))
    else:
      n = len(seconds_per_frame) + 1
    return np.zeros([n.__index__() if hasattr(n, '__index__') else n, 12])

  def frame_loglik(vectors, unused_concentration):
    return np.zeros([len(vectors), 2])

  def viterbi(chord_frame_loglik, unused_a, unused_b):
    path = []
    for f in range(len(chord_frame_loglik)):
      key = c.choice('key%d' % f, c.params.get('keys') or [0, 7])
      chord = c.choice('chord%d' % f, [tuple(x) if isinstance(x, list) else x
                                       for x in c.params.get('chords') or
                                       ['N.C.', (0, ''), (5, 'm')]])
      path.append((key, chord))
    chosen.extend(path)
    return path

  with _Stubs(ci, sequence_note_pitch_vectors=pitch_vectors,
              _chord_frame_log_likelihood=frame_loglik,
              _key_chord_distribution=lambda **k: np.ones([1, 1]),
              _key_chord_transition_distribution=lambda *a, **k: np.ones([1, 1]),
              _key_chord_viterbi=viterbi):
    _, err = c.raises(ci.infer_chords_for_sequence, seq, chords_per_bar=cpb,
                      add_key_signatures=add_keys)
  total = Fraction(c.concretize(tk), 4)
  # ---- expected frame boundaries
  if mode == 'bars':
    steps_per_bar = Fraction(spq * 4 * num, den)
    eff_cpb = cpb if cpb is not None else {(2, 2): 1, (2, 4): 1, (3, 4): 1,
                                            (4, 4): 2, (6, 8): 2}.get((num, den))
    if eff_cpb is None:
      c.check(isinstance(err, ci.UncommonTimeSignatureError),
              'uncommon meter without chords_per_bar is rejected')
      return
    spc_steps = steps_per_bar / eff_cpb
    if spc_steps.denominator != 1:
      c.check(isinstance(err, ci.NonIntegerStepsPerChordError),
              'non-integer steps per chord rejected')
      return
    spc = spc_steps / (Fraction(spq) * Fraction(qpm) / 60)
    F = math.ceil(total / spc)
    if F == 0:
      c.check(isinstance(err, ci.EmptySequenceError), 'empty sequence rejected')
      return
    frame_time = [f * spc for f in range(F)]
    frame_step = [f * int(spc_steps) for f in range(F)]
  else:
    beats = sorted(set(Fraction(c.concretize(bk), 4) for bk in bks))
    interior = [b for b in beats if 0 < b < total]
    if not bks:
      c.check(isinstance(err, sl.QuantizationStatusError),
              'no beats and not quantized: rejected')
      return
    frame_time = [Fraction(0)] + interior
    frame_step = ([int(t * c.params['sps']) for t in frame_time]
                  if c.params.get('sps') else None)
    F = len(frame_time)
  c.check(err is None, 'no error for a sequence that can be annotated')
  c.check(len(chosen) == F, 'one key/chord decision per chord frame')
  figs = []
  for key, chord in chosen:
    figs.append(chord if chord == 'N.C.' else
                '%s%s' % (['C', 'C#', 'D', 'Eb', 'E', 'F', 'F#', 'G', 'Ab', 'A',
                           'Bb', 'B'][chord[0]], chord[1]))
  want = [(f, figs[f]) for f in range(F) if f == 0 or figs[f] != figs[f - 1]]
  got = [ta for ta in seq.text_annotations
         if bool(c.eq(ta.annotation_type, TA.CHORD_SYMBOL))]
  c.check(len(got) == len(want),
          'a chord annotation exactly where the chord changes (at most one '
          'per frame boundary, consecutive symbols differ)')
  for ta, (f, fig) in zip(got, want):
    c.check(c.approx(ta.time, float(frame_time[f]), 1e-9),
            'chord annotation on its frame boundary')
    c.check(ta.text == fig, 'chord annotation names the chord of its frame')
    if frame_step is not None:
      c.check(c.eq(ta.quantized_step, frame_step[f]),
              'quantized_step of the annotation is the frame start step')
  for a, b_ in zip(got, got[1:]):
    c.check(bool(a.time <= b_.time) and a.text != b_.text,
            'times non-decreasing, consecutive chord symbols differ')
  c.check(len(seq.text_annotations) == n_before + len(want) and
          seq.text_annotations[0].text == 'lyric',
          'existing annotations are kept')
  if add_keys:
    wantk = [(f, chosen[f][0]) for f in range(F)
             if f == 0 or chosen[f][0] != chosen[f - 1][0]]
    c.check(len(seq.key_signatures) == len(wantk) and all(
        bool(c.And(c.approx(ks.time, float(frame_time[f]), 1e-9),
                   c.eq(ks.key, k)))
        for ks, (f, k) in zip(seq.key_signatures, wantk)),
            'key signatures replaced by the inferred keys at their frame '
            'boundaries')
  else:
    c.check(len(seq.key_signatures) == 1 and
            bool(c.eq(seq.key_signatures[0].key, 3)),
            'key signatures untouched without add_key_signatures')
  c.cover('a chord change inside the sequence', len(want) >= 2)
  c.cover('a repeated chord adds nothing', len(want) < F)


def h_chord_wiring(c):
  """Every call of infer_chords_for_sequence hands the Viterbi kernel the
  model of ITS OWN parameters: the distribution / transition builders are
  replaced by stubs that encode their arguments in the value they return, the
  kernel stub records what it receives, and two calls with different
  parameters are made in one process."""
  import math  # pylint: disable=g-import-not-at-top
  ci = c.mod('chord_inference')
  pb = c.pb
  np = c.np
  seen = []

  def dist(chord_pitch_out_of_key_prob):
    return np.array([[1.0 + chord_pitch_out_of_key_prob]])

  def trans(key_chord_distribution, key_change_prob, chord_change_prob):
    d0 = key_chord_distribution[0][0]
    return np.array([[d0 + 10 * key_change_prob + 100 * chord_change_prob]])

  def viterbi(chord_frame_loglik, key_chord_loglik, key_chord_transition_loglik):
    seen.append((key_chord_loglik[0][0], key_chord_transition_loglik[0][0]))
    return [(0, 'N.C.')] * len(chord_frame_loglik)

  calls = c.params['calls']
  with _Stubs(ci, sequence_note_pitch_vectors=lambda s_, f_: np.zeros([1, 12]),
              _chord_frame_log_likelihood=lambda v_, k_: np.zeros([len(v_), 2]),
              _key_chord_distribution=dist,
              _key_chord_transition_distribution=trans,
              _key_chord_viterbi=viterbi):
    for (po, kc, cc) in calls:
      seq = pb.NoteSequence()
      seq.quantization_info.steps_per_quarter = 4
      seq.tempos.add().qpm = 120
      ts = seq.time_signatures.add()
      ts.numerator, ts.denominator = 4, 4
      seq.total_time = c.real('tt%d' % len(seen), 0.25, 1)
      ci.infer_chords_for_sequence(seq, chord_pitch_out_of_key_prob=po,
                                   key_change_prob=kc, chord_change_prob=cc)
  c.check(len(seen) == len(calls), 'the kernel runs once per call')
  for (po, kc, cc), (kl, tl) in zip(calls, seen):
    c.check(abs(kl - math.log(1.0 + po)) < 1e-9 and
            abs(tl - math.log(1.0 + po + 10 * kc + 100 * cc)) < 1e-9,
            'the kernel receives the key-chord and transition models built '
            'from the parameters of this very call')


def h_melody_wiring(c):
  """Every call of infer_melody_for_sequence hands the Viterbi kernel the
  transition and frame models built from ITS OWN five parameters: the model
  builders are stubs that encode their arguments in the value they return and
  the kernel stub records what it receives."""
  import math  # pylint: disable=g-import-not-at-top
  mi = c.mod('melody_inference')
  pb = c.pb
  np = c.np
  seen = []

  def trans(rest_prob, interval_prob_fn):
    return np.full([257, 257], 1.0 + rest_prob + 10 * interval_prob_fn(1.0))

  def frame(pitches, has_onsets, has_notes, durations,
            instantaneous_non_max_pitch_prob,
            instantaneous_non_empty_rest_prob,
            instantaneous_missing_pitch_prob):
    return np.full([len(has_onsets), 1 + 2 * len(pitches)],
                   instantaneous_non_max_pitch_prob +
                   10 * instantaneous_non_empty_rest_prob +
                   100 * instantaneous_missing_pitch_prob)

  def viterbi(pitches, melody_frame_loglik, melody_transition_loglik):
    seen.append((melody_frame_loglik[0][0], melody_transition_loglik[0][0]))
    return [mi.REST] * len(melody_frame_loglik)

  calls = c.params['calls']
  with _Stubs(mi, _melody_transition_distribution=trans,
              _melody_frame_log_likelihood=frame, _melody_viterbi=viterbi):
    for (scale, rest, nm, ne, mp) in calls:
      seq = pb.NoteSequence()
      n = seq.notes.add()
      n.pitch, n.velocity = c.choice('p%d' % len(seen), [0, 60, 127]), 80
      n.start_time, n.end_time = 0.0, 1.0
      seq.total_time = 1.0
      mi.infer_melody_for_sequence(
          seq, melody_interval_scale=scale, rest_prob=rest,
          instantaneous_non_max_pitch_prob=nm,
          instantaneous_non_empty_rest_prob=ne,
          instantaneous_missing_pitch_prob=mp)
  c.check(len(seen) == len(calls), 'the kernel runs once per call')
  for (scale, rest, nm, ne, mp), (fl, tl) in zip(calls, seen):
    c.check(abs(fl - (nm + 10 * ne + 100 * mp)) < 1e-9,
            'the kernel receives the frame model built from the three '
            'instantaneous probabilities of this very call')
    c.check(abs(tl - math.log(1.0 + rest + 10 / (1 + (1 / scale) ** 2))) < 1e-9,
            'the kernel receives the transition model built from rest_prob and '
            'melody_interval_scale of this very call')


def h_melody_notes(c):
  """The note-writing stage of infer_melody_for_sequence on an ARBITRARY valid
  event path: sequence_note_frames runs for real (set / sort / bisect over
  symbolic grid times); the transition model, the frame likelihoods and the
  Viterbi kernel are stubs, the kernel stub choosing freely per frame among
  rest, an onset of a pitch that has an onset in that frame, and the
  continuation of the current pitch (the paths of non-zero likelihood)."""
  from fractions import Fraction  # pylint: disable=g-import-not-at-top
  mi = c.mod('melody_inference')
  pb = c.pb
  np = c.np
  N, K = c.params['N'], c.params['K']
  seq = pb.NoteSequence()
  tk = c.int('total_k', 1, K)
  seq.total_time = tk * 0.25
  orig = []
  for i in range(N):
    n = seq.notes.add()
    sk = c.int('n%d_s' % i, 0, K - 1)
    ek = c.int('n%d_e' % i, 1, K)
    c.assume(c.And(sk < ek, ek <= tk))
    n.start_time = sk * 0.25
    n.end_time = ek * 0.25
    n.pitch = c.choice('n%d_p' % i, c.params.get('pitches') or [60, 64])
    n.velocity = 80
    n.instrument = c.choice('n%d_i' % i, [0, 8])
    orig.append((n.pitch, sk, ek, n.instrument))
  frames = {}
  real_frames = mi.sequence_note_frames

  def note_frames(sequence):
    r = real_frames(sequence)
    frames['pitches'], frames['has_onsets'] = r[0], r[1]
    frames['event_times'] = r[3]
    return r

  def viterbi(pitches, frame_loglik, unused_trans):
    path = []
    cur = None
    for f in range(len(frame_loglik)):
      opts = [mi.REST]
      for j, p in enumerate(pitches):
        if bool(frames['has_onsets'][f][j]):
          opts.append((p, True))
      if cur is not None:
        opts.append((cur, False))
      ev = c.choice('ev%d' % f, opts)
      cur = None if ev == mi.REST else ev[0]
      path.append(ev)
    frames['path'] = path
    return path

  with _Stubs(mi, sequence_note_frames=note_frames,
              _melody_transition_distribution=lambda **k: np.ones([257, 257]),
              _melody_frame_log_likelihood=(
                  lambda pitches, has_onsets, *a, **k: np.zeros(
                      [len(has_onsets), 1 + 2 * len(pitches)])),
              _melody_viterbi=viterbi):
    inst, err = c.raises(mi.infer_melody_for_sequence, seq)
  c.check(err is None, 'no error on an unquantized sequence with notes')
  want_inst = max(i for _, _, _, i in orig) + 1
  if want_inst == 9:
    want_inst = 10
  c.check(bool(c.eq(inst, want_inst)),
          'melody goes to a fresh instrument (never the drum channel)')
  total = Fraction(c.concretize(tk), 4)
  onsets = set((p, Fraction(c.concretize(sk), 4)) for p, sk, _, _ in orig)
  c.check(len(seq.notes) >= N and all(
      bool(c.And(c.eq(n.pitch, p), c.eq(n.start_time, sk * 0.25),
                 c.eq(n.end_time, ek * 0.25), c.eq(n.instrument, i)))
      for n, (p, sk, ek, i) in zip(seq.notes, orig)),
          'the notes of the sequence are untouched')
  mel = []
  for n in list(seq.notes)[N:]:
    c.check(bool(c.eq(n.instrument, want_inst)), 'added notes are melody notes')
    s, e = None, None
    for k in range(0, K + 1):
      if bool(c.eq(n.start_time, k * 0.25)):
        s = Fraction(k, 4)
      if bool(c.eq(n.end_time, k * 0.25)):
        e = Fraction(k, 4)
    c.check(s is not None and e is not None,
            'melody note times are event times of the sequence')
    if s is None or e is None:
      return
    mel.append((c.concretize(n.pitch), s, e))
  for p, s, e in mel:
    c.check((p, s) in onsets,
            'a melody note starts at the onset of a real note of its pitch')
    c.check(0 <= s <= e <= total, 'melody note lies within the sequence')
  for (_, _, e1), (_, s2, _) in zip(mel, mel[1:]):
    c.check(e1 <= s2, 'melody notes do not overlap, in time order')
  n_onsets = sum(1 for ev in frames.get('path', []) if ev != mi.REST and ev[1])
  c.check(len(mel) == n_onsets, 'one melody note per onset event of the path')
  c.cover('two melody notes', len(mel) >= 2)
  c.cover('a rest between melody notes',
          any(e1 < s2 for (_, _, e1), (_, s2, _) in zip(mel, mel[1:])))


HARNESSES = {'h_melody_viterbi': h_melody_viterbi,
             'h_chord_annotations': h_chord_annotations,
             'h_melody_notes': h_melody_notes,
             'h_chord_wiring': h_chord_wiring,
             'h_melody_wiring': h_melody_wiring,
             'h_melody_viterbi_wide': h_melody_viterbi_wide,
             'h_chord_viterbi': h_chord_viterbi}


def jobs(tier):
  J = []

  def add(h, budget=400, required=True, **params):
    J.append({'harness': h, 'params': params, 'budget_s': budget,
              'required': required})

  for (t, p) in [(1, 1), (2, 1), (3, 1), (2, 2)]:
    add('h_melody_viterbi', T=t, P=p)
  add('h_chord_viterbi', T=1)
  add('h_melody_viterbi_wide', first=256, budget=600)
  add('h_melody_viterbi_wide', first=255, budget=600)
  for add_keys in (False, True):
    add('h_chord_annotations', mode='bars', K=12, spq=4, qpm=120, ts=[4, 4],
        cpb=None, add_keys=add_keys)
    add('h_chord_annotations', mode='beats', K=4, B=2, add_keys=add_keys)
  add('h_chord_annotations', mode='bars', K=6, spq=4, qpm=120, ts=[3, 4],
      cpb=None, add_keys=False)
  add('h_chord_annotations', mode='bars', K=4, spq=1, qpm=60, ts=[4, 4], cpb=3,
      add_keys=False)
  add('h_chord_annotations', mode='bars', K=4, spq=4, qpm=120, ts=[5, 4],
      cpb=None, add_keys=False)
  add('h_chord_annotations', mode='beats', K=4, B=0, add_keys=False)
  # absolutely quantized sequence: beats (possibly duplicated) carry steps
  add('h_chord_annotations', mode='beats', K=3, B=3, sps=4, add_keys=False,
      keys=[0], chords=['N.C.', [0, '']], budget=900)
  add('h_chord_wiring', calls=[[0.5, 0.001, 0.5], [0.01, 0.001, 0.5],
                               [0.01, 0.002, 0.5], [0.01, 0.002, 0.25]])
  add('h_melody_wiring', calls=[[2.0, 0.1, 1e-3, 1e-4, 1e-5],
                                [3.0, 0.1, 1e-3, 1e-4, 1e-5],
                                [3.0, 0.2, 2e-3, 1e-4, 1e-5],
                                [3.0, 0.2, 2e-3, 3e-4, 1e-5],
                                [3.0, 0.2, 2e-3, 3e-4, 7e-5]])
  add('h_melody_notes', N=1, K=3)
  add('h_melody_notes', N=1, K=3, pitches=[0, 127])  # the ends of the range
  add('h_melody_notes', N=2, K=3, budget=900)
  if tier == 'thorough':
    for add_keys in (False, True):
      add('h_chord_annotations', mode='beats', K=5, B=3, add_keys=add_keys,
          budget=3000)
      add('h_chord_annotations', mode='bars', K=16, spq=4, qpm=120, ts=[4, 4],
          cpb=None, add_keys=add_keys, budget=1800)
    add('h_chord_annotations', mode='bars', K=9, spq=2, qpm=90, ts=[6, 8],
        cpb=None, add_keys=True, budget=1800)
    add('h_melody_notes', N=2, K=4, budget=3000)
    add('h_melody_notes', N=3, K=3, budget=3000, required=False)
    add('h_melody_viterbi', T=4, P=1, budget=1800)
    add('h_melody_viterbi', T=3, P=2, budget=3000, required=False)
    add('h_chord_viterbi', T=2, budget=3000, required=False)
  return J
