"""C19 -- chord and melody inference return a maximum-likelihood path of their
model (the two Viterbi kernels only)."""
import itertools

META = {
    'level': 'model_checking',
    'level_text':
        'The real _melody_viterbi and _key_chord_viterbi are executed through '
        'np-lite on likelihood and transition matrices whose EVERY ENTRY is a '
        'free symbolic real (np-lite\'s argmax is an if-then-else chain with '
        'numpy\'s first-maximum rule, so the dynamic program runs on one path '
        'per returned state sequence); the solver then shows that no other of '
        'the S^T state sequences has a strictly larger total log-likelihood '
        '- for all matrices at once, which is what "independent dynamic '
        'program from the same likelihoods" samples.',
    'level_note':
        'Trusted: z3 (linear real arithmetic), np-lite (tile / argmax / fancy '
        'select; validated per sampled path against numpy). Only the two '
        'Viterbi kernels are inside the claim: frame likelihoods (numpy '
        'linalg), transition models (scipy toeplitz), annotation/note writing '
        'and transposition invariance of the whole pipeline are outside. For '
        'the chord kernel the module tables _CHORDS/_KEY_CHORDS are replaced '
        'by a 2-chord table for the harness (tables are data; the function '
        'hard-codes 12 keys).',
    'functions': [('melody_inference', '_melody_viterbi'),
                  ('chord_inference', '_key_chord_viterbi')],
    'assumptions': [
        'log-likelihoods are finite reals',
        'chord kernel: chord table cut to 2 chords (24 key-chord states)',
    ],
    'bounds': {
        'quick': 'melody: (T,S) in {(1,3),(2,3),(3,3),(2,5)} fully symbolic, plus '
                 'the full-size kernel (128 pitches, 257 states, T=2) with a '
                 'concrete first frame / transition matrix and the last '
                 'frame\'s five boundary states symbolic; chords: T=1 with 24 states',
        'thorough': 'melody (3,5),(4,3); chords T=2',
    },
    'outside': ['frame likelihoods, transition models, annotation writing, '
                'whole-pipeline transposition invariance', 'longer sequences'],
}


def _matrix(c, name, rows, cols):
  return [[c.real('%s_%d_%d' % (name, i, j), -50, 50) for j in range(cols)]
          for i in range(rows)]


def h_melody_viterbi(c):
  mi = c.mod('melody_inference')
  np = c.np
  T, npitch = c.params['T'], c.params['P']
  pitches = [60, 64][:npitch]
  S = 2 * npitch + 1
  frame = _matrix(c, 'f', T, S)
  trans = _matrix(c, 't', S, S)
  res = mi._melody_viterbi(list(pitches), np.array(frame), np.array(trans))
  c.check(len(res) == T, 'one event per frame')
  path = []
  for ev in res:
    if ev == mi.REST:
      path.append(0)
    else:
      pitch, onset = ev
      i = pitches.index(pitch) + 1
      path.append(i if onset else i + npitch)

  def score(p):
    s = trans[0][p[0]] + frame[0][p[0]]
    for t in range(1, T):
      s = s + trans[p[t - 1]][p[t]] + frame[t][p[t]]
    return s

  mine = score(path)
  others = [mine >= score(alt) for alt in itertools.product(range(S), repeat=T)]
  c.check(c.And(others),
          'returned path attains the maximum total log-likelihood over all '
          'S^T state sequences')
  c.cover('path changes state', T >= 2 and path[0] != path[-1])


def h_chord_viterbi(c):
  ci = c.mod('chord_inference')
  np = c.np
  T = c.params['T']
  chords = ['N.C.', (0, 'maj')]
  C = len(chords)
  S = 12 * C
  saved = (ci._CHORDS, ci._KEY_CHORDS)
  ci._CHORDS = list(chords)
  ci._KEY_CHORDS = list(itertools.product(range(12), chords))
  try:
    frame = _matrix(c, 'f', T, C)
    kcl = _matrix(c, 'k', 12, C)
    trans = _matrix(c, 't', S, S) if T > 1 else [[0.0] * S for _ in range(S)]
    res = ci._key_chord_viterbi(np.array(frame), np.array(kcl), np.array(trans))
  finally:
    ci._CHORDS, ci._KEY_CHORDS = saved
  c.check(len(res) == T, 'one key-chord pair per frame')
  path = [key * C + chords.index(ch) for key, ch in res]
  import math  # pylint: disable=g-import-not-at-top

  def score(p):
    s = -math.log(12) + kcl[p[0] // C][p[0] % C] + frame[0][p[0] % C]
    for t in range(1, T):
      s = s + trans[p[t - 1]][p[t]] + frame[t][p[t] % C]
    return s

  mine = score(path)
  others = [mine >= score(alt) for alt in itertools.product(range(S), repeat=T)]
  c.check(c.And(others),
          'returned key-chord path attains the maximum total log-likelihood')


def h_melody_viterbi_wide(c):
  """Full-size state space (128 pitches, 257 states, 2 frames).  The first
  frame and the transition matrix are concrete (so the 257 back-pointers of
  frame 1 are computed concretely and include the highest state index 256);
  the second frame's log-likelihoods of the boundary states {rest,
  onset/sustain of the lowest and of the highest pitch} are symbolic and every
  other state is concretely hopeless (-1e6).  The returned path must beat all
  257 x 5 alternatives."""
  mi = c.mod('melody_inference')
  np = c.np
  P = 128
  pitches = list(range(P))
  S = 2 * P + 1
  keep = [0, 1, P, P + 1, 2 * P]  # rest, on(0), on(127), sus(0), sus(127)
  first = c.params['first']  # best state of the first frame
  frame0 = [-3.0 - 0.01 * (i % 7) for i in range(S)]
  frame0[first] = 0.0
  frame1 = [-1.0e6] * S
  for k in keep:
    frame1[k] = c.real('f1_%d' % k, -50, 50)
  trans = [[-1.0 - 0.001 * ((i * 7 + j * 3) % 11) for j in range(S)]
           for i in range(S)]
  res = mi._melody_viterbi(list(pitches), np.array([frame0, frame1]),
                           np.array(trans))
  path = []
  for ev in res:
    if ev == mi.REST:
      path.append(0)
    else:
      pitch, onset = ev
      path.append(pitch + 1 if onset else pitch + 1 + P)
  c.check(path[1] in keep, 'the last state is one of the boundary states')

  def score(p):
    return (trans[0][p[0]] + frame0[p[0]] + trans[p[0]][p[1]] + frame1[p[1]])

  mine = score(path)
  c.check(c.And([mine >= score((a, b)) for a in range(S) for b in keep]),
          'returned path attains the maximum (all 257 first states x the '
          'boundary last states; the highest state index 256 included)')
  c.cover('best first state is the highest state index', path[0] == 2 * P)


HARNESSES = {'h_melody_viterbi': h_melody_viterbi,
             'h_melody_viterbi_wide': h_melody_viterbi_wide,
             'h_chord_viterbi': h_chord_viterbi}


def jobs(tier):
  J = []

  def add(h, budget=400, required=True, **params):
    J.append({'harness': h, 'params': params, 'budget_s': budget,
              'required': required})

  for (t, p) in [(1, 1), (2, 1), (3, 1), (2, 2)]:
    add('h_melody_viterbi', T=t, P=p)
  add('h_chord_viterbi', T=1)
  add('h_melody_viterbi_wide', first=256, budget=600)
  add('h_melody_viterbi_wide', first=255, budget=600)
  if tier == 'thorough':
    add('h_melody_viterbi', T=4, P=1, budget=1800)
    add('h_melody_viterbi', T=3, P=2, budget=3000, required=False)
    add('h_chord_viterbi', T=2, budget=3000, required=False)
  return J
