"""C19 -- chord and melody inference return a maximum-likelihood path of their
model (the two Viterbi kernels only)."""
import itertools

META = {
    'level': 'model_checking',
    'level_text':
        'The real _melody_viterbi and _key_chord_viterbi are executed through '
        'np-lite on likelihood and transition matrices whose EVERY ENTRY is a '
        'free symbolic real (np-lite\'s argmax is an if-then-else chain with '
        'numpy\'s first-maximum rule, so the dynamic program runs on one path '
        'per returned state sequence); the solver then shows that no other of '
        'the S^T state sequences has a strictly larger total log-likelihood '
        '- for all matrices at once, which is what "independent dynamic '
        'program from the same likelihoods" samples.',
    'level_note':
        'Trusted: z3 (linear real arithmetic), np-lite (tile / argmax / fancy '
        'select; validated per sampled path against numpy). Inside the claim: '
        'the two Viterbi kernels, and the annotation / note WRITING stages of '
        'infer_chords_for_sequence and infer_melody_for_sequence '
        '(h_chord_annotations, h_melody_notes), which run for real while the '
        'numeric stages around them are nondeterministic stubs: the Viterbi '
        'stub returns a freely chosen path per frame (for the melody: any path '
        'of non-zero likelihood - onsets only where the frame has an onset of '
        'that pitch, continuations only of the current pitch), so the '
        'well-formedness clause is decided for whatever the kernel returns. '
        'sequence_note_frames (set / sort / bisect over symbolic times) runs '
        'for real and its four return values are compared with a brute-force '
        'description of the frames; the durations, the transition sub-matrix '
        '(position-encoded stub) and the frame model that reach the melody '
        'kernel, the parameter / default wiring of both entry points, and '
        'their documented errors are decided too. Chord kernel for T >= 2: '
        'concrete first frame and transition table, symbolic later frames '
        '(h_chord_viterbi_steps). '
        'Outside: frame likelihoods (numpy linalg), transition '
        'models (scipy toeplitz), transposition invariance of the whole '
        'pipeline. For '
        'the chord kernel the module tables _CHORDS/_KEY_CHORDS are replaced '
        'by a 2-chord table for the harness (tables are data; the function '
        'hard-codes 12 keys).',
    'functions': [('melody_inference', '_melody_viterbi'),
                  ('chord_inference', '_key_chord_viterbi'),
                  ('chord_inference', 'infer_chords_for_sequence'),
                  ('melody_inference', 'infer_melody_for_sequence'),
                  ('melody_inference', 'sequence_note_frames')],
    'assumptions': [
        'log-likelihoods are finite reals',
        'chord kernel: chord table cut to 2 chords (24 key-chord states); '
        'T >= 2 only with a concrete pseudo-random prior / frame 0 / '
        'transition table (24-way symbolic argmax chains are beyond z3)',
        'writing stages: times on a grid of quarter seconds (symbolic grid '
        'index; sets and dict keys of times force a finite domain), notes '
        'with start < end <= total_time, drum flag / program only from the '
        'listed alternatives; _MAX_NUM_CHORDS / MAX_NUM_FRAMES lowered to 2 '
        'for the limit jobs; stubs: sequence_note_pitch_vectors '
        '(frame count as the real one derives it), _chord_frame_log_likelihood, '
        '_key_chord_distribution, _key_chord_transition_distribution, '
        '_key_chord_viterbi (free path: key in {C, G}, chord in {N.C., C, Fm}), '
        '_melody_transition_distribution, _melody_frame_log_likelihood, '
        '_melody_viterbi (free valid path)',
    ],
    'bounds': {
        'quick': 'melody: (T,S) in {(1,3),(2,3),(3,3),(2,5),(2,7)} fully symbolic, plus '
                 'the full-size kernel (128 pitches, 257 states, T=2) with a '
                 'concrete first frame / transition matrix and the last '
                 'frame\'s five boundary states symbolic; chords: T=1 with 24 '
                 'states fully symbolic, T=2 with symbolic second frame (4 '
                 'concrete tables); chord annotations: <=3 bar frames (4/4, '
                 '3/4, 2/4, 2/2, 6/8, 5/4; chords_per_bar None/1/3/4/5 or '
                 'omitted; qpm 60/90/120/240, spq 1/2/4) and <=3 beats on a '
                 '<=5-point grid (unquantized, or steps_per_second 4 with '
                 'beat steps on / off the time grid), add_key_signatures '
                 'True / False / omitted, a pre-existing chord symbol, a '
                 'second call, beats on a bar-quantized sequence, '
                 '_MAX_NUM_CHORDS=2, roots/kinds/keys beyond C/Fm; wiring: 4 '
                 'chord and 5 melody parameters explicit and by default; '
                 'melody notes: <=2 notes (0 notes; drum / programs 95, 96, '
                 '103, 112, 127), pitches {60,64} or {0,127}, <=4-point '
                 'grid, quantized input, MAX_NUM_FRAMES=2',
        'thorough': 'melody (3,5),(4,3); chords T=2 fully symbolic (not '
                    'required), T=2 with symbolic frames 0-1 and T=3 with '
                    'symbolic frames 1-2; chord annotations with 3 '
                    'beats / 4 bar frames; melody notes from 2 notes on a '
                    '5-point grid, 3 notes on a 4-point grid, 2 notes with '
                    'drums / frame limit on a 4-point grid',
    },
    'outside': ['frame likelihoods, transition models, whole-pipeline '
                'transposition invariance', 'longer sequences',
                'zero-length notes in melody inference, notes ending after '
                'total_time, -inf / nan log-likelihood entries, '
                'sequence_note_pitch_vectors itself'],
}


def _matrix(c, name, rows, cols):
  return [[c.real('%s_%d_%d' % (name, i, j), -50, 50) for j in range(cols)]
          for i in range(rows)]


def h_melody_viterbi(c):
  mi = c.mod('melody_inference')
  np = c.np
  T, npitch = c.params['T'], c.params['P']
  pitches = [60, 64, 67][:npitch]
  S = 2 * npitch + 1
  frame = _matrix(c, 'f', T, S)
  trans = _matrix(c, 't', S, S)
  res = mi._melody_viterbi(list(pitches), np.array(frame), np.array(trans))
  c.check(len(res) == T, 'one event per frame')
  path = []
  for ev in res:
    if ev == mi.REST:
      path.append(0)
    else:
      pitch, onset = ev
      i = pitches.index(pitch) + 1
      path.append(i if onset else i + npitch)

  def score(p):
    s = trans[0][p[0]] + frame[0][p[0]]
    for t in range(1, T):
      s = s + trans[p[t - 1]][p[t]] + frame[t][p[t]]
    return s

  mine = score(path)
  others = [mine >= score(alt) for alt in itertools.product(range(S), repeat=T)]
  c.check(c.And(others),
          'returned path attains the maximum total log-likelihood over all '
          'S^T state sequences')
  c.cover('path changes state', T >= 2 and path[0] != path[-1])


def h_chord_viterbi(c):
  ci = c.mod('chord_inference')
  np = c.np
  T = c.params['T']
  chords = ['N.C.', (0, 'maj')]
  C = len(chords)
  S = 12 * C
  saved = (ci._CHORDS, ci._KEY_CHORDS)
  ci._CHORDS = list(chords)
  ci._KEY_CHORDS = list(itertools.product(range(12), chords))
  try:
    frame = _matrix(c, 'f', T, C)
    kcl = _matrix(c, 'k', 12, C)
    trans = _matrix(c, 't', S, S) if T > 1 else [[0.0] * S for _ in range(S)]
    res = ci._key_chord_viterbi(np.array(frame), np.array(kcl), np.array(trans))
  finally:
    ci._CHORDS, ci._KEY_CHORDS = saved
  c.check(len(res) == T, 'one key-chord pair per frame')
  path = [key * C + chords.index(ch) for key, ch in res]
  import math  # pylint: disable=g-import-not-at-top

  def score(p):
    s = -math.log(12) + kcl[p[0] // C][p[0] % C] + frame[0][p[0] % C]
    for t in range(1, T):
      s = s + trans[p[t - 1]][p[t]] + frame[t][p[t] % C]
    return s

  mine = score(path)
  others = [mine >= score(alt) for alt in itertools.product(range(S), repeat=T)]
  c.check(c.And(others),
          'returned key-chord path attains the maximum total log-likelihood')


def h_chord_viterbi_steps(c):
  """The recursion and the back-tracking of _key_chord_viterbi over T >= 2
  frames.  With every entry symbolic the 24-way argmax chains of the second
  frame are beyond the solver, so the first frame (key-chord prior and frame
  0) and the transition matrix are concrete pseudo-random tables - the 24
  back-pointers of frame 1 are then computed concretely - while the chord
  log-likelihoods of all LATER frames are free symbolic reals (they enter
  through np.tile(..., 12), one copy per key).  The returned path must beat
  all 24^T alternatives, for every value of the symbolic entries."""
  import math  # pylint: disable=g-import-not-at-top
  ci = c.mod('chord_inference')
  np = c.np
  T = c.params['T']
  chords = ['N.C.', (0, 'maj')]
  C = len(chords)
  S = 12 * C
  seed = c.params.get('seed', 0)
  saved = (ci._CHORDS, ci._KEY_CHORDS)
  ci._CHORDS = list(chords)
  ci._KEY_CHORDS = list(itertools.product(range(12), chords))
  try:
    if c.params.get('sym0'):
      frame = [[c.real('f_0_%d' % j, -50, 50) for j in range(C)]]
    else:
      frame = [[-0.5 * ((3 * j + seed) % 4) for j in range(C)]]
    for t in range(1, T):
      frame.append([c.real('f_%d_%d' % (t, j), -50, 50) for j in range(C)])
    kcl = [[-0.25 * ((5 * k + 3 * j + seed) % 9) for j in range(C)]
           for k in range(12)]
    trans = [[-0.125 * ((i * 7 + j * 11 + (i * j) % 5 + seed) % 23)
              for j in range(S)] for i in range(S)]
    res = ci._key_chord_viterbi(np.array(frame), np.array(kcl), np.array(trans))
  finally:
    ci._CHORDS, ci._KEY_CHORDS = saved
  c.check(len(res) == T, 'one key-chord pair per frame')
  path = [c.concretize(key) * C + chords.index(ch) for key, ch in res]

  def score(p):
    s = -math.log(12) + kcl[p[0] // C][p[0] % C] + frame[0][p[0] % C]
    for t in range(1, T):
      s = s + trans[p[t - 1]][p[t]] + frame[t][p[t] % C]
    return s

  # best concrete prefix per (state of frame T-2 ... ) would be the algorithm
  # itself; the oracle is the plain enumeration of all S^T paths
  mine = score(path)
  others = [mine >= score(alt) for alt in itertools.product(range(S), repeat=T)]
  c.check(c.And(others),
          'returned key-chord path attains the maximum total log-likelihood '
          '(T >= 2: recursion, tiled frame term, back-tracking)')
  c.cover('key or chord changes along the path', path[0] != path[-1])


def h_melody_viterbi_wide(c):
  """Full-size state space (128 pitches, 257 states, 2 frames).  The first
  frame and the transition matrix are concrete (so the 257 back-pointers of
  frame 1 are computed concretely and include the highest state index 256);
  the second frame's log-likelihoods of the boundary states {rest,
  onset/sustain of the lowest and of the highest pitch} are symbolic and every
  other state is concretely hopeless (-1e6).  The returned path must beat all
  257 x 5 alternatives."""
  mi = c.mod('melody_inference')
  np = c.np
  P = 128
  pitches = list(range(P))
  S = 2 * P + 1
  keep = [0, 1, P, P + 1, 2 * P]  # rest, on(0), on(127), sus(0), sus(127)
  first = c.params['first']  # best state of the first frame
  frame0 = [-3.0 - 0.01 * (i % 7) for i in range(S)]
  frame0[first] = 0.0
  frame1 = [-1.0e6] * S
  for k in keep:
    frame1[k] = c.real('f1_%d' % k, -50, 50)
  trans = [[-1.0 - 0.001 * ((i * 7 + j * 3) % 11) for j in range(S)]
           for i in range(S)]
  res = mi._melody_viterbi(list(pitches), np.array([frame0, frame1]),
                           np.array(trans))
  path = []
  for ev in res:
    if ev == mi.REST:
      path.append(0)
    else:
      pitch, onset = ev
      path.append(pitch + 1 if onset else pitch + 1 + P)
  c.check(path[1] in keep, 'the last state is one of the boundary states')

  def score(p):
    return (trans[0][p[0]] + frame0[p[0]] + trans[p[0]][p[1]] + frame1[p[1]])

  mine = score(path)
  c.check(c.And([mine >= score((a, b)) for a in range(S) for b in keep]),
          'returned path attains the maximum (all 257 first states x the '
          'boundary last states; the highest state index 256 included)')
  c.cover('best first state is the highest state index', path[0] == 2 * P)


class _Stubs(object):
  """Temporarily replaces attributes of a module (numeric stages that are
  outside the claim) and restores them."""

  def __init__(self, mod, **repl):
    self.mod, self.repl, self.saved = mod, repl, {}

  def __enter__(self):
    for k, v in self.repl.items():
      self.saved[k] = getattr(self.mod, k)
      setattr(self.mod, k, v)
    return self

  def __exit__(self, *exc):
    for k, v in self.saved.items():
      setattr(self.mod, k, v)
    return False


def h_chord_annotations(c):
  """The annotation-writing stage of infer_chords_for_sequence on an ARBITRARY
  key/chord path: the numeric stages (pitch vectors, likelihoods, transition
  model, the Viterbi kernel itself) are replaced by stubs and the stub for
  _key_chord_viterbi returns a path chosen freely per frame, so the claim
  covers whatever path the real kernel could return.  Times lie on a grid of
  quarter seconds (symbolic grid index)."""
  import math  # pylint: disable=g-import-not-at-top
  from fractions import Fraction  # pylint: disable=g-import-not-at-top
  ci = c.mod('chord_inference')
  sl = c.mod('sequences_lib')
  pb = c.pb
  np = c.np
  TA = pb.NoteSequence.TextAnnotation
  mode = c.params['mode']
  K = c.params['K']
  add_keys = c.params['add_keys']
  seq = pb.NoteSequence()
  tk = c.int('total_k', 0, K)
  seq.total_time = tk * 0.25
  old_ks = seq.key_signatures.add()
  old_ks.key = 3
  other = seq.text_annotations.add()
  other.text = 'lyric'
  other.time = 0.5
  other.annotation_type = TA.UNKNOWN
  cpb = c.params.get('cpb')  # beats mode: must be rejected when given
  pre_chord = c.params.get('pre_chord')  # sequence already has a chord
  twice = c.params.get('twice')  # a second call on the annotated sequence
  max_chords = c.params.get('max_chords')  # _MAX_NUM_CHORDS for this run
  # quantized_step of the beat at grid index k (absolute quantization); the
  # default puts it on the time grid, [a, b] -> a + b k off the grid
  step_fn = c.params.get('beat_step')
  sps = None
  if mode == 'bars':
    spq, qpm, (num, den) = c.params['spq'], c.params['qpm'], c.params['ts']
    seq.quantization_info.steps_per_quarter = spq
    seq.tempos.add().qpm = qpm
    ts = seq.time_signatures.add()
    ts.numerator, ts.denominator = num, den
    # BEAT annotations on a relative-quantized sequence: the bars win
    bks = [c.int('beat%d_k' % i, 0, K) for i in range(c.params.get('B', 0))]
    for bk in bks:
      ta = seq.text_annotations.add()
      ta.time = bk * 0.25
      ta.annotation_type = TA.BEAT
  else:
    B = c.params['B']
    sps = c.params.get('sps')  # absolute quantization: beats carry steps
    if sps:
      seq.quantization_info.steps_per_second = sps
    bks = [c.int('beat%d_k' % i, 0, K) for i in range(B)]
    for bk in bks:
      ta = seq.text_annotations.add()
      ta.time = bk * 0.25
      ta.annotation_type = TA.BEAT
      if sps and step_fn:
        ta.quantized_step = step_fn[0] + bk * step_fn[1]
      elif sps:
        ta.quantized_step = bk * (sps // 4)
  if pre_chord:
    ta = seq.text_annotations.add()
    ta.time = 0.25
    ta.text = 'G7'
    ta.annotation_type = TA.CHORD_SYMBOL
  n_before = len(seq.text_annotations)
  old_tas = [(ta.time, ta.text, ta.annotation_type, ta.quantized_step)
             for ta in seq.text_annotations]
  chosen = []

  def pitch_vectors(sequence, seconds_per_frame):
    # frame count exactly as sequence_note_pitch_vectors derives it
    if isinstance(seconds_per_frame, (int, float)):
      # (ci.int is the engine's shadow of int; the plain module has none)
      n = getattr(ci, 'int', int)(
          ci.math.ceil(sequence.total_time / seconds_per_frame))
    else:
      n = len(seconds_per_frame) + 1
    return np.zeros([n.__index__() if hasattr(n, '__index__') else n, 12])

  def frame_loglik(vectors, unused_concentration):
    return np.zeros([len(vectors), 2])

  def viterbi(chord_frame_loglik, unused_a, unused_b):
    path = []
    pre = 'again_' if chosen else ''  # (a second run of the kernel)
    for f in range(len(chord_frame_loglik)):
      key = c.choice(pre + 'key%d' % f, c.params.get('keys') or [0, 7])
      chord = c.choice(pre + 'chord%d' % f,
                       [tuple(x) if isinstance(x, list) else x
                        for x in c.params.get('chords') or
                        ['N.C.', (0, ''), (5, 'm')]])
      path.append((key, chord))
    chosen.extend(path)
    return path

  repl = dict(sequence_note_pitch_vectors=pitch_vectors,
              _chord_frame_log_likelihood=frame_loglik,
              _key_chord_distribution=lambda **k: np.ones([1, 1]),
              _key_chord_transition_distribution=lambda *a, **k: np.ones([1, 1]),
              _key_chord_viterbi=viterbi)
  if max_chords is not None:
    repl['_MAX_NUM_CHORDS'] = max_chords
  kwargs = {}
  if cpb is not None or not c.params.get('omit_cpb'):
    kwargs['chords_per_bar'] = cpb
  if add_keys != 'omit':  # 'omit': the documented default (False) applies
    kwargs['add_key_signatures'] = add_keys
  err2 = None
  with _Stubs(ci, **repl):
    _, err = c.raises(ci.infer_chords_for_sequence, seq, **kwargs)
    if twice and err is None:
      mid_tas = [(ta.time, ta.text, ta.annotation_type, ta.quantized_step)
                 for ta in seq.text_annotations]
      mid_keys = [(ks.time, ks.key) for ks in seq.key_signatures]
      n_chosen = len(chosen)
      _, err2 = c.raises(ci.infer_chords_for_sequence, seq, **kwargs)
      c.check(isinstance(err2, ci.SequenceAlreadyHasChordsError),
              'a second inference on the annotated sequence is rejected: '
              'SequenceAlreadyHasChordsError')
      c.check(len(chosen) == n_chosen and
              len(seq.text_annotations) == len(mid_tas) and all(
                  bool(c.And(c.eq(ta.time, m[0]), ta.text == m[1],
                             c.eq(ta.annotation_type, m[2]),
                             c.eq(ta.quantized_step, m[3])))
                  for ta, m in zip(seq.text_annotations, mid_tas)) and
              len(seq.key_signatures) == len(mid_keys) and all(
                  bool(c.And(c.eq(ks.time, m[0]), c.eq(ks.key, m[1])))
                  for ks, m in zip(seq.key_signatures, mid_keys)),
              'the rejected second call changes nothing')
  add_keys = bool(add_keys) and add_keys != 'omit'
  total = Fraction(c.concretize(tk), 4)

  def unchanged():
    return (len(seq.text_annotations) == n_before and all(
        bool(c.And(c.eq(ta.time, o[0]), ta.text == o[1],
                   c.eq(ta.annotation_type, o[2]),
                   c.eq(ta.quantized_step, o[3])))
        for ta, o in zip(seq.text_annotations, old_tas)) and
            len(seq.key_signatures) == 1 and
            bool(c.eq(seq.key_signatures[0].key, 3)) and
            bool(c.eq(seq.total_time, tk * 0.25)))

  def rejected(cls, label):
    """The documented error `cls` - or, for a sequence that already has a
    chord, SequenceAlreadyHasChordsError (no precedence is documented)."""
    ok = (cls, ci.SequenceAlreadyHasChordsError) if pre_chord else cls
    c.check(isinstance(err, ok), label)
    c.check(unchanged(), 'a rejected sequence is left as it was')

  # ---- expected frame boundaries
  if mode == 'bars':
    steps_per_bar = Fraction(spq * 4 * num, den)
    eff_cpb = cpb if cpb is not None else {(2, 2): 1, (2, 4): 1, (3, 4): 1,
                                            (4, 4): 2, (6, 8): 2}.get((num, den))
    if eff_cpb is None:
      rejected(ci.UncommonTimeSignatureError,
               'uncommon meter without chords_per_bar is rejected')
      return
    spc_steps = steps_per_bar / eff_cpb
    if spc_steps.denominator != 1:
      rejected(ci.NonIntegerStepsPerChordError,
               'non-integer steps per chord rejected')
      return
    spc = spc_steps / (Fraction(spq) * Fraction(qpm) / 60)
    F = math.ceil(total / spc)
    if F == 0:
      rejected(ci.EmptySequenceError, 'empty sequence rejected')
      return
    frame_time = [f * spc for f in range(F)]
    frame_step = [f * int(spc_steps) for f in range(F)]
  else:
    beats = sorted(set(Fraction(c.concretize(bk), 4) for bk in bks))
    interior = [b for b in beats if 0 < b < total]
    if cpb is not None:
      rejected(sl.QuantizationStatusError,
               'chords_per_bar on a sequence that is not quantized relative '
               'to meter: QuantizationStatusError')
      return
    if not bks:
      rejected(sl.QuantizationStatusError,
               'no beats and not quantized: rejected')
      return
    frame_time = [Fraction(0)] + interior
    if sps and step_fn:
      frame_step = [0] + [step_fn[0] + int(4 * t) * step_fn[1]
                          for t in interior]
    elif sps:
      frame_step = [int(t * sps) for t in frame_time]
    else:
      # unquantized sequence: the annotations carry no step
      frame_step = [0] * len(frame_time)
    F = len(frame_time)
  if max_chords is not None and F > max_chords:
    rejected(ci.SequenceTooLongError,
             'more chords than _MAX_NUM_CHORDS: SequenceTooLongError')
    c.cover('too many chords', True)
    return
  if pre_chord:
    c.check(isinstance(err, ci.SequenceAlreadyHasChordsError),
            'a sequence that already has a chord symbol is rejected: '
            'SequenceAlreadyHasChordsError')
    c.check(unchanged() and not chosen,
            'a rejected sequence is left as it was')
    return
  c.check(err is None, 'no error for a sequence that can be annotated')
  c.check(len(chosen) == F, 'one key/chord decision per chord frame')
  figs = []
  for key, chord in chosen:
    figs.append(chord if chord == 'N.C.' else
                '%s%s' % (['C', 'C#', 'D', 'Eb', 'E', 'F', 'F#', 'G', 'Ab', 'A',
                           'Bb', 'B'][chord[0]], chord[1]))
  want = [(f, figs[f]) for f in range(F) if f == 0 or figs[f] != figs[f - 1]]
  got = [ta for ta in seq.text_annotations
         if bool(c.eq(ta.annotation_type, TA.CHORD_SYMBOL))]
  c.check(len(got) == len(want),
          'a chord annotation exactly where the chord changes (at most one '
          'per frame boundary, consecutive symbols differ)')
  for ta, (f, fig) in zip(got, want):
    c.check(c.approx(ta.time, float(frame_time[f]), 1e-9),
            'chord annotation on its frame boundary')
    c.check(ta.text == fig, 'chord annotation names the chord of its frame')
    if frame_step is not None:
      c.check(c.eq(ta.quantized_step, frame_step[f]),
              'quantized_step of the annotation is the frame start step')
  for a, b_ in zip(got, got[1:]):
    c.check(bool(a.time <= b_.time) and a.text != b_.text,
            'times non-decreasing, consecutive chord symbols differ')
  c.check(len(seq.text_annotations) == n_before + len(want) and
          seq.text_annotations[0].text == 'lyric',
          'existing annotations are kept')
  c.check(all(bool(c.And(c.eq(ta.time, o[0]), ta.text == o[1],
                         c.eq(ta.annotation_type, o[2]),
                         c.eq(ta.quantized_step, o[3])))
              for ta, o in zip(seq.text_annotations, old_tas)),
          'existing annotations keep their time, text, type and step')
  c.check(bool(c.eq(seq.total_time, tk * 0.25)),
          'total_time of the sequence is untouched')
  if add_keys:
    wantk = [(f, chosen[f][0]) for f in range(F)
             if f == 0 or chosen[f][0] != chosen[f - 1][0]]
    c.check(len(seq.key_signatures) == len(wantk) and all(
        bool(c.And(c.approx(ks.time, float(frame_time[f]), 1e-9),
                   c.eq(ks.key, k)))
        for ks, (f, k) in zip(seq.key_signatures, wantk)),
            'key signatures replaced by the inferred keys at their frame '
            'boundaries')
  else:
    c.check(len(seq.key_signatures) == 1 and
            bool(c.eq(seq.key_signatures[0].key, 3)),
            'key signatures untouched without add_key_signatures')
    c.check(bool(c.eq(seq.key_signatures[0].time, 0.0)),
            'the time of the kept key signature is untouched')
  c.cover('a chord change inside the sequence', len(want) >= 2)
  c.cover('a repeated chord adds nothing', len(want) < F)


def h_chord_wiring(c):
  """Every call of infer_chords_for_sequence hands the Viterbi kernel the
  model of ITS OWN parameters: the distribution / transition builders and the
  frame likelihood are replaced by stubs that encode their arguments in the
  value they return, the kernel stub records what it receives, and several
  calls with different parameters are made in one process.  A call given as
  [po, kc, cc] leaves chord_note_concentration at its documented default, a
  call given as [po, kc, cc, conc] passes it, and a call given as None passes
  no keyword at all (all four documented defaults)."""
  import math  # pylint: disable=g-import-not-at-top
  ci = c.mod('chord_inference')
  pb = c.pb
  np = c.np
  seen = []
  raw = []

  def vectors(unused_sequence, unused_frames):
    return np.full([1, 12], 3.0)

  def frame_loglik(note_pitch_vectors, chord_note_concentration):
    raw.append(('conc', chord_note_concentration))
    return np.full([len(note_pitch_vectors), 2],
                   chord_note_concentration + 1000 * note_pitch_vectors[0][11])

  def dist(chord_pitch_out_of_key_prob):
    raw.append(('po', chord_pitch_out_of_key_prob))
    return np.array([[1.0 + chord_pitch_out_of_key_prob]])

  def trans(key_chord_distribution, key_change_prob, chord_change_prob):
    raw.append(('kc', key_change_prob))
    raw.append(('cc', chord_change_prob))
    d0 = key_chord_distribution[0][0]
    return np.array([[d0 + 10 * key_change_prob + 100 * chord_change_prob]])

  def viterbi(chord_frame_loglik, key_chord_loglik, key_chord_transition_loglik):
    seen.append((key_chord_loglik[0][0], key_chord_transition_loglik[0][0],
                 chord_frame_loglik[0][0], chord_frame_loglik[0][1]))
    return [(0, 'N.C.')] * len(chord_frame_loglik)

  calls = c.params['calls']
  keys_before = []
  with _Stubs(ci, sequence_note_pitch_vectors=vectors,
              _chord_frame_log_likelihood=frame_loglik,
              _key_chord_distribution=dist,
              _key_chord_transition_distribution=trans,
              _key_chord_viterbi=viterbi):
    for call in calls:
      seq = pb.NoteSequence()
      seq.quantization_info.steps_per_quarter = 4
      seq.tempos.add().qpm = 120
      ts = seq.time_signatures.add()
      ts.numerator, ts.denominator = 4, 4
      seq.key_signatures.add().key = 5
      seq.total_time = c.real('tt%d' % len(seen), 0.25, 1)
      if call is None:
        ci.infer_chords_for_sequence(seq)
      elif len(call) == 3:
        po, kc, cc = call
        ci.infer_chords_for_sequence(seq, chord_pitch_out_of_key_prob=po,
                                     key_change_prob=kc, chord_change_prob=cc)
      else:
        po, kc, cc, conc = call
        ci.infer_chords_for_sequence(seq, chord_pitch_out_of_key_prob=po,
                                     key_change_prob=kc, chord_change_prob=cc,
                                     chord_note_concentration=conc)
      keys_before.append((len(seq.key_signatures),
                          seq.key_signatures[0].key
                          if len(seq.key_signatures) else None))
  c.check(len(seen) == len(calls), 'the kernel runs once per call')
  # documented defaults of the signature
  full = [list(call) + [100.0] if call is not None and len(call) == 3 else
          ([0.01, 0.001, 0.5, 100.0] if call is None else list(call))
          for call in calls]
  for (po, kc, cc, conc), (kl, tl, fl0, fl1) in zip(full, seen):
    c.check(abs(kl - math.log(1.0 + po)) < 1e-9 and
            abs(tl - math.log(1.0 + po + 10 * kc + 100 * cc)) < 1e-9,
            'the kernel receives the key-chord and transition models built '
            'from the parameters of this very call')
    c.check(abs(fl0 - (conc + 3000.0)) < 1e-9 and abs(fl1 - fl0) < 1e-9,
            'the kernel receives the frame log-likelihoods computed from the '
            'pitch vectors with chord_note_concentration of this very call '
            '(default 100)')
  want_raw = []
  for (po, kc, cc, conc) in full:
    want_raw.extend([('conc', conc), ('po', po), ('kc', kc), ('cc', cc)])
  c.check(sorted(raw) == sorted(want_raw),
          'every model builder is called once per call with exactly the '
          'value of its own parameter (documented defaults when omitted)')
  c.check(all(k == (1, 5) for k in keys_before),
          'add_key_signatures defaults to False: key signatures untouched')


def h_melody_wiring(c):
  """Every call of infer_melody_for_sequence hands the Viterbi kernel the
  transition and frame models built from ITS OWN five parameters: the model
  builders are stubs that encode their arguments in the value they return and
  the kernel stub records what it receives.  A call given as None passes no
  keyword at all: the five documented defaults must reach the builders."""
  import math  # pylint: disable=g-import-not-at-top
  mi = c.mod('melody_inference')
  pb = c.pb
  np = c.np
  seen = []
  raw = []

  def trans(rest_prob, interval_prob_fn):
    raw.append((rest_prob, interval_prob_fn(1.0), interval_prob_fn(-3.0)))
    return np.full([257, 257], 1.0 + rest_prob + 10 * interval_prob_fn(1.0))

  def frame(pitches, has_onsets, has_notes, durations,
            instantaneous_non_max_pitch_prob,
            instantaneous_non_empty_rest_prob,
            instantaneous_missing_pitch_prob):
    raw.append((instantaneous_non_max_pitch_prob,
                instantaneous_non_empty_rest_prob,
                instantaneous_missing_pitch_prob))
    return np.full([len(has_onsets), 1 + 2 * len(pitches)],
                   instantaneous_non_max_pitch_prob +
                   10 * instantaneous_non_empty_rest_prob +
                   100 * instantaneous_missing_pitch_prob)

  def viterbi(pitches, melody_frame_loglik, melody_transition_loglik):
    seen.append((melody_frame_loglik[0][0], melody_transition_loglik[0][0]))
    return [mi.REST] * len(melody_frame_loglik)

  calls = c.params['calls']
  with _Stubs(mi, _melody_transition_distribution=trans,
              _melody_frame_log_likelihood=frame, _melody_viterbi=viterbi):
    for call in calls:
      seq = pb.NoteSequence()
      n = seq.notes.add()
      n.pitch, n.velocity = c.choice('p%d' % len(seen), [0, 60, 127]), 80
      n.start_time, n.end_time = 0.0, 1.0
      seq.total_time = 1.0
      if call is None:
        mi.infer_melody_for_sequence(seq)
      else:
        (scale, rest, nm, ne, mp) = call
        mi.infer_melody_for_sequence(
            seq, melody_interval_scale=scale, rest_prob=rest,
            instantaneous_non_max_pitch_prob=nm,
            instantaneous_non_empty_rest_prob=ne,
            instantaneous_missing_pitch_prob=mp)
  c.check(len(seen) == len(calls), 'the kernel runs once per call')
  # documented defaults of the signature
  full = [[2.0, 0.1, 1e-15, 0.0, 1e-15] if call is None else call
          for call in calls]
  for (scale, rest, nm, ne, mp), (fl, tl) in zip(full, seen):
    c.check(abs(fl - (nm + 10 * ne + 100 * mp)) < 1e-9,
            'the kernel receives the frame model built from the three '
            'instantaneous probabilities of this very call')
    c.check(abs(tl - math.log(1.0 + rest + 10 / (1 + (1 / scale) ** 2))) < 1e-9,
            'the kernel receives the transition model built from rest_prob and '
            'melody_interval_scale of this very call')

  def close(a, b):
    return a == b or abs(a - b) <= 1e-12 * max(abs(a), abs(b))

  want_raw = []
  for (scale, rest, nm, ne, mp) in full:
    want_raw.append((rest, 1 / (1 + (1.0 / scale) ** 2),
                     1 / (1 + (3.0 / scale) ** 2)))
    want_raw.append((nm, ne, mp))
  c.check(len(raw) == len(want_raw) and all(
      len(g) == 3 and all(close(x, y) for x, y in zip(g, w))
      for g, w in zip(raw, want_raw)),
          'each model builder gets exactly the parameters of its call, each '
          'under its own name (relative comparison: 1e-15 is not 0.0); the '
          'interval prior is the Cauchy-like 1 / (1 + (d / scale)^2)')


_POS_CACHE = {}


def _pos_matrix(np):
  """257 x 257 matrix whose entry (i, j) is 1 + 300 i + j (all distinct, all
  positive): a transition 'distribution' that encodes the position of every
  entry, so that the sub-matrix handed to the kernel can be told from any
  other selection of rows / columns.  Built once per numpy flavour."""
  key = getattr(np, '__name__', 'np')
  if key not in _POS_CACHE:
    _POS_CACHE[key] = np.array([[1.0 + 300 * i + j for j in range(257)]
                                for i in range(257)])
  return _POS_CACHE[key]


def h_melody_notes(c):
  """The note-writing stage of infer_melody_for_sequence on an ARBITRARY valid
  event path: sequence_note_frames runs for real (set / sort / bisect over
  symbolic grid times); the transition model, the frame likelihoods and the
  Viterbi kernel are stubs, the kernel stub choosing freely per frame among
  rest, an onset of a pitch that has an onset in that frame, and the
  continuation of the current pitch (the paths of non-zero likelihood).

  Also decided here: the four return values of sequence_note_frames against a
  brute-force description of the frames, the frame durations and the
  (position-encoded) transition sub-matrix that reach the model stubs / the
  kernel, the exact notes written for the chosen path (pitch, start, end,
  velocity), drum / unpitched-program notes being no melody material, and the
  documented errors (quantized input, too many frames)."""
  import math  # pylint: disable=g-import-not-at-top
  from fractions import Fraction  # pylint: disable=g-import-not-at-top
  mi = c.mod('melody_inference')
  pb = c.pb
  np = c.np
  N, K = c.params['N'], c.params['K']
  kinds = c.params.get('kinds')  # per note: list of [is_drum, program]
  quant = c.params.get('quant')
  max_frames = c.params.get('max_frames')
  seq = pb.NoteSequence()
  tk = c.int('total_k', 1, K)
  seq.total_time = tk * 0.25
  if quant == 'spq':
    seq.quantization_info.steps_per_quarter = 4
  elif quant == 'sps':
    seq.quantization_info.steps_per_second = 4
  orig = []
  kind_of = []
  for i in range(N):
    n = seq.notes.add()
    sk = c.int('n%d_s' % i, 0, K - 1)
    ek = c.int('n%d_e' % i, 1, K)
    c.assume(c.And(sk < ek, ek <= tk))
    n.start_time = sk * 0.25
    n.end_time = ek * 0.25
    n.pitch = c.choice('n%d_p' % i, c.params.get('pitches') or [60, 64])
    n.velocity = 80
    n.instrument = c.choice('n%d_i' % i, c.params.get('instruments') or [0, 8])
    drum, prog = False, 0
    if kinds:
      opts = kinds[i]
      drum, prog = opts[0] if len(opts) == 1 else c.choice('n%d_k' % i, opts)
      if drum:
        n.is_drum = True
      if prog:
        n.program = prog
    kind_of.append((bool(drum), prog))
    orig.append((n.pitch, sk, ek, n.instrument))
  # melody material: neither drums nor the unpitched (effect / percussive)
  # General MIDI programs 97-104 and 113-128 (0-based 96-103, 112-127)
  is_pitched = [not d and not (96 <= g <= 103 or 112 <= g <= 127)
                for d, g in kind_of]
  frames = {}
  real_frames = mi.sequence_note_frames

  def note_frames(sequence):
    r = real_frames(sequence)
    frames['pitches'], frames['has_onsets'] = r[0], r[1]
    frames['has_notes'] = r[2]
    frames['event_times'] = r[3]
    frames['n_returned'] = len(r)
    return r

  def trans_model(**kw):
    frames['trans_kw'] = sorted(kw)
    return _pos_matrix(np)

  def frame_model(pitches, has_onsets, has_notes, durations, *a, **k):
    frames['fm_args'] = (pitches, has_onsets, has_notes, durations)
    # entry (f, s) = -(1 + 100 f + s): position-encoded frame log-likelihoods
    return np.array([[-(1.0 + 100 * f + s_)
                      for s_ in range(1 + 2 * len(pitches))]
                     for f in range(len(has_onsets))])

  def viterbi(pitches, frame_loglik, trans_loglik):
    frames['k_args'] = (pitches, frame_loglik, trans_loglik)
    path = []
    cur = None
    for f in range(len(frame_loglik)):
      opts = [mi.REST]
      for j, p in enumerate(pitches):
        if bool(frames['has_onsets'][f][j]):
          opts.append((p, True))
      if cur is not None:
        opts.append((cur, False))
      ev = c.choice('ev%d' % f, opts)
      cur = None if ev == mi.REST else ev[0]
      path.append(ev)
    frames['path'] = path
    return path

  repl = dict(sequence_note_frames=note_frames,
              _melody_transition_distribution=trans_model,
              _melody_frame_log_likelihood=frame_model,
              _melody_viterbi=viterbi)
  if max_frames is not None:
    repl['MAX_NUM_FRAMES'] = max_frames
  with _Stubs(mi, **repl):
    inst, err = c.raises(mi.infer_melody_for_sequence, seq)
  total = Fraction(c.concretize(tk), 4)
  co = [(c.concretize(p), Fraction(c.concretize(sk), 4),
         Fraction(c.concretize(ek), 4)) for p, sk, ek, _ in orig]
  # ---- the frames, described by brute force from the pitched notes
  cuts = sorted(set(t for (_, s, e), ok in zip(co, is_pitched) if ok
                    for t in (s, e) if 0 < t < total))
  f_start = [Fraction(0)] + cuts
  f_end = cuts + [total]
  F = len(f_start)
  exp_pitches = sorted(set(p for (p, _, _), ok in zip(co, is_pitched) if ok))

  def untouched(label):
    c.check(len(seq.notes) == N and all(
        bool(c.And(c.eq(n.pitch, p), c.eq(n.start_time, sk * 0.25),
                   c.eq(n.end_time, ek * 0.25), c.eq(n.instrument, i),
                   c.eq(n.velocity, 80), c.eq(n.is_drum, d),
                   c.eq(n.program, g)))
        for n, (p, sk, ek, i), (d, g) in zip(seq.notes, orig, kind_of)) and
            bool(c.eq(seq.total_time, tk * 0.25)), label)

  if quant:
    c.check(isinstance(err, mi.MelodyInferenceError),
            'a quantized sequence is rejected with MelodyInferenceError')
    untouched('a rejected sequence is left as it was')
    return
  if max_frames is not None and exp_pitches and F > max_frames:
    c.check(isinstance(err, mi.MelodyInferenceError),
            'more frames than MAX_NUM_FRAMES: MelodyInferenceError')
    untouched('a rejected sequence is left as it was')
    c.cover('too many frames', True)
    return
  c.check(err is None, 'no error on an unquantized sequence with notes')
  if N and all(is_pitched):
    want_inst = max(i for _, _, _, i in orig) + 1
    if want_inst == 9:
      want_inst = 10
    c.check(bool(c.eq(inst, want_inst)),
            'melody goes to a fresh instrument (never the drum channel)')
  else:
    c.check(not any(bool(c.eq(inst, i)) for _, _, _, i in orig) and
            not bool(c.eq(inst, 9)) and bool(inst >= 0),
            'melody instrument is a NEW instrument (used by no note of the '
            'sequence, drum and unpitched notes included; never channel 9)')
    want_inst = c.concretize(inst)
  # ---- sequence_note_frames against the brute-force frames
  if 'pitches' in frames:
    c.check(frames['n_returned'] == 4 and
            [c.concretize(p) for p in frames['pitches']] == exp_pitches,
            'sequence_note_frames: the pitches present, ascending (drums and '
            'unpitched programs are not pitches)')
    ets = list(frames['event_times'])
    c.check(len(ets) == len(cuts) and all(
        bool(c.eq(t, float(x))) for t, x in zip(ets, cuts)),
            'sequence_note_frames: event times are the distinct interior '
            'onset / offset times, ascending')
    ho, hn = frames['has_onsets'], frames['has_notes']
    ok_shape = (len(ho) == F and len(hn) == F and all(
        len(ho[f]) == len(exp_pitches) and len(hn[f]) == len(exp_pitches)
        for f in range(F)))
    c.check(ok_shape, 'sequence_note_frames: matrices are frames x pitches')
    if ok_shape and len(ets) == len(cuts):
      want_ho = [[any(ok and q == p and s == f_start[f]
                      for (q, s, _), ok in zip(co, is_pitched))
                  for p in exp_pitches] for f in range(F)]
      want_hn = [[any(ok and q == p and s <= f_start[f] and e >= f_end[f]
                      for (q, s, e), ok in zip(co, is_pitched))
                  for p in exp_pitches] for f in range(F)]
      c.check([[bool(x) for x in row] for row in ho] == want_ho,
              'sequence_note_frames: has_onsets marks exactly the frames '
              'in which a note of the pitch starts')
      c.check([[bool(x) for x in row] for row in hn] == want_hn,
              'sequence_note_frames: has_notes marks exactly the frames '
              'in which a note of the pitch sounds')
  if not exp_pitches:
    untouched('nothing is added to a sequence without pitched notes')
    c.check('k_args' not in frames and 'path' not in frames,
            'no inference without pitched notes')
    c.cover('no pitched note at all', True)
    return
  # ---- what reaches the model builders and the kernel
  c.check('fm_args' in frames and 'k_args' in frames,
          'frame model and kernel are both used')
  if 'fm_args' not in frames or 'k_args' not in frames:
    return
  fp, fho, fhn, fdur = frames['fm_args']
  c.check(fp is frames['pitches'] or list(fp) == list(frames['pitches']),
          'the frame model gets the pitches of sequence_note_frames')
  def bools(m):
    return [[bool(x) for x in row] for row in m]

  c.check(bools(fho) == bools(frames['has_onsets']) and
          bools(fhn) == bools(frames['has_notes']),
          'the frame model gets has_onsets / has_notes in this order')
  c.check(len(fdur) == F and all(
      bool(c.eq(fdur[f], float(f_end[f] - f_start[f]))) for f in range(F)),
          'frame durations are the lengths of the frames (the last frame '
          'ends at total_time)')
  kp, kfl, ktl = frames['k_args']
  c.check([c.concretize(p) for p in kp] == exp_pitches,
          'the kernel gets the ascending pitch list')
  P = len(exp_pitches)
  c.check(len(kfl) == F and all(
      len(kfl[f]) == 1 + 2 * P and all(
          abs(kfl[f][s_] + (1.0 + 100 * f + s_)) < 1e-9
          for s_ in range(1 + 2 * P)) for f in range(F)),
          'the kernel gets the frame log-likelihoods of the frame model')
  idx = [0] + [p + 1 for p in exp_pitches] + [128 + p + 1 for p in exp_pitches]
  c.check(len(ktl) == len(idx) and all(
      len(ktl[a]) == len(idx) and all(
          abs(ktl[a][b] - math.log(1.0 + 300 * idx[a] + idx[b])) < 1e-9
          for b in range(len(idx))) for a in range(len(idx))),
          'the kernel gets the log of the transition sub-matrix of exactly '
          'rest / onset(p) / sustain(p) for the pitches present')
  # ---- the notes written for the chosen path
  onsets = set((p, s) for (p, s, _), ok in zip(co, is_pitched) if ok)
  c.check(len(seq.notes) >= N and all(
      bool(c.And(c.eq(n.pitch, p), c.eq(n.start_time, sk * 0.25),
                 c.eq(n.end_time, ek * 0.25), c.eq(n.instrument, i)))
      for n, (p, sk, ek, i) in zip(seq.notes, orig)),
          'the notes of the sequence are untouched')
  c.check(all(bool(c.And(c.eq(n.velocity, 80), c.eq(n.is_drum, d),
                         c.eq(n.program, g)))
              for n, (d, g) in zip(seq.notes, kind_of)) and
          bool(c.eq(seq.total_time, tk * 0.25)),
          'velocity / drum flag / program of the notes and total_time of the '
          'sequence are untouched')
  mel = []
  for n in list(seq.notes)[N:]:
    c.check(bool(c.eq(n.instrument, want_inst)), 'added notes are melody notes')
    c.check(bool(c.eq(n.velocity, mi.MELODY_VELOCITY)) and
            1 <= mi.MELODY_VELOCITY <= 127 and not bool(n.is_drum),
            'melody notes are pitched notes with velocity MELODY_VELOCITY (a '
            'sounding MIDI velocity)')
    s, e = None, None
    for k in range(0, K + 1):
      if bool(c.eq(n.start_time, k * 0.25)):
        s = Fraction(k, 4)
      if bool(c.eq(n.end_time, k * 0.25)):
        e = Fraction(k, 4)
    c.check(s is not None and e is not None,
            'melody note times are event times of the sequence')
    if s is None or e is None:
      return
    mel.append((c.concretize(n.pitch), s, e))
  for p, s, e in mel:
    c.check((p, s) in onsets,
            'a melody note starts at the onset of a real note of its pitch')
    c.check(0 <= s <= e <= total, 'melody note lies within the sequence')
  for (_, _, e1), (_, s2, _) in zip(mel, mel[1:]):
    c.check(e1 <= s2, 'melody notes do not overlap, in time order')
  path = frames.get('path', [])
  n_onsets = sum(1 for ev in path if ev != mi.REST and ev[1])
  c.check(len(mel) == n_onsets, 'one melody note per onset event of the path')
  # the melody line of the path: an onset in frame f sounds until the start of
  # the first later frame that is a rest or a new onset, else to total_time
  want_mel = []
  if len(path) == F:
    for f, ev in enumerate(path):
      if ev == mi.REST or not ev[1]:
        continue
      stop = [g for g in range(f + 1, F)
              if path[g] == mi.REST or path[g][1]]
      want_mel.append((ev[0], f_start[f], f_start[stop[0]] if stop else total))
  c.check(len(path) == F and sorted(mel) == sorted(want_mel),
          'the melody notes are exactly the line of the chosen path: pitch of '
          'the onset, from the start of its frame to the end of its last '
          'sustained frame')
  c.cover('two melody notes', len(mel) >= 2)
  c.cover('a rest between melody notes',
          any(e1 < s2 for (_, _, e1), (_, s2, _) in zip(mel, mel[1:])))


HARNESSES = {'h_melody_viterbi': h_melody_viterbi,
             'h_chord_annotations': h_chord_annotations,
             'h_melody_notes': h_melody_notes,
             'h_chord_wiring': h_chord_wiring,
             'h_melody_wiring': h_melody_wiring,
             'h_melody_viterbi_wide': h_melody_viterbi_wide,
             'h_chord_viterbi': h_chord_viterbi,
             'h_chord_viterbi_steps': h_chord_viterbi_steps}


def jobs(tier):
  J = []

  def add(h, budget=400, required=True, **params):
    J.append({'harness': h, 'params': params, 'budget_s': budget,
              'required': required})

  for (t, p) in [(1, 1), (2, 1), (3, 1), (2, 2)]:
    add('h_melody_viterbi', T=t, P=p)
  add('h_melody_viterbi', T=2, P=3)
  add('h_chord_viterbi', T=1)
  add('h_chord_viterbi_steps', T=2, seed=0)
  add('h_chord_viterbi_steps', T=2, seed=1)
  add('h_chord_viterbi_steps', T=2, seed=2)
  add('h_chord_viterbi_steps', T=2, seed=3)
  add('h_melody_viterbi_wide', first=256, budget=600)
  add('h_melody_viterbi_wide', first=255, budget=600)
  for add_keys in (False, True):
    add('h_chord_annotations', mode='bars', K=12, spq=4, qpm=120, ts=[4, 4],
        cpb=None, add_keys=add_keys)
    add('h_chord_annotations', mode='beats', K=4, B=2, add_keys=add_keys)
  add('h_chord_annotations', mode='bars', K=6, spq=4, qpm=120, ts=[3, 4],
      cpb=None, add_keys=False)
  add('h_chord_annotations', mode='bars', K=4, spq=1, qpm=60, ts=[4, 4], cpb=3,
      add_keys=False)
  add('h_chord_annotations', mode='bars', K=4, spq=4, qpm=120, ts=[5, 4],
      cpb=None, add_keys=False)
  add('h_chord_annotations', mode='beats', K=4, B=0, add_keys=False)
  # absolutely quantized sequence: beats (possibly duplicated) carry steps
  add('h_chord_annotations', mode='beats', K=3, B=3, sps=4, add_keys=False,
      keys=[0], chords=['N.C.', [0, '']], budget=900)
  # explicit chords_per_bar that succeeds (overrides the default table)
  add('h_chord_annotations', mode='bars', K=12, spq=4, qpm=120, ts=[4, 4],
      cpb=1, add_keys=False)
  add('h_chord_annotations', mode='bars', K=6, spq=4, qpm=120, ts=[4, 4],
      cpb=4, add_keys=True)
  add('h_chord_annotations', mode='bars', K=4, spq=4, qpm=120, ts=[5, 4],
      cpb=5, add_keys=False)
  # chords_per_bar without relative quantization
  add('h_chord_annotations', mode='beats', K=3, B=1, cpb=2, add_keys=False)
  add('h_chord_annotations', mode='beats', K=3, B=1, sps=4, cpb=2,
      add_keys=False)
  # the other entries of the default table, other tempi / resolutions
  add('h_chord_annotations', mode='bars', K=8, spq=4, qpm=120, ts=[2, 4],
      cpb=None, add_keys=False)
  add('h_chord_annotations', mode='bars', K=8, spq=4, qpm=240, ts=[2, 2],
      cpb=None, add_keys=False)
  add('h_chord_annotations', mode='bars', K=8, spq=2, qpm=90, ts=[6, 8],
      cpb=None, add_keys=True)
  # neither chords_per_bar nor add_key_signatures passed: documented defaults
  add('h_chord_annotations', mode='bars', K=8, spq=4, qpm=120, ts=[4, 4],
      omit_cpb=True, add_keys='omit')
  add('h_chord_annotations', mode='beats', K=3, B=1, omit_cpb=True,
      add_keys='omit')
  # a sequence that already has chords; a second call
  add('h_chord_annotations', mode='bars', K=8, spq=4, qpm=120, ts=[4, 4],
      cpb=None, add_keys=True, pre_chord=True)
  add('h_chord_annotations', mode='beats', K=3, B=1, add_keys=False,
      pre_chord=True)
  add('h_chord_annotations', mode='bars', K=8, spq=4, qpm=120, ts=[4, 4],
      cpb=None, add_keys=True, twice=True)
  add('h_chord_annotations', mode='beats', K=3, B=1, add_keys=False,
      twice=True)
  # the length limit (module constant lowered for the run)
  add('h_chord_annotations', mode='bars', K=12, spq=4, qpm=120, ts=[4, 4],
      cpb=None, add_keys=False, max_chords=2)
  add('h_chord_annotations', mode='beats', K=3, B=2, add_keys=False,
      max_chords=2)
  # relative quantization wins over beat annotations; absolute quantization
  # without beats is rejected
  add('h_chord_annotations', mode='bars', K=8, B=1, spq=4, qpm=120, ts=[4, 4],
      cpb=None, add_keys=False)
  add('h_chord_annotations', mode='beats', K=3, B=0, sps=4, add_keys=False)
  # other roots / chord kinds / keys
  add('h_chord_annotations', mode='bars', K=4, spq=4, qpm=120, ts=[4, 4],
      cpb=4, add_keys=True, keys=[11, 1],
      chords=[[11, 'm7b5'], [1, 'maj7'], [6, '+'], [3, 'dim'], [10, '7'],
              [8, 'm7']])
  # beat steps that are not time * steps_per_second: copied from the beat
  add('h_chord_annotations', mode='beats', K=3, B=2, sps=4, add_keys=False,
      beat_step=[10, 3], keys=[0], chords=['N.C.', [0, '']])
  add('h_chord_wiring', calls=[[0.5, 0.001, 0.5], [0.01, 0.001, 0.5],
                               [0.01, 0.002, 0.5], [0.01, 0.002, 0.25]])
  add('h_chord_wiring', calls=[None, [0.02, 0.003, 0.4, 7.0], None,
                               [0.02, 0.003, 0.4, 0.0]])
  add('h_melody_wiring', calls=[None])
  add('h_melody_wiring', calls=[[2.5, 0.3, 1e-13, 1e-14, 0.0], None])
  add('h_melody_wiring', calls=[[2.0, 0.1, 1e-3, 1e-4, 1e-5],
                                [3.0, 0.1, 1e-3, 1e-4, 1e-5],
                                [3.0, 0.2, 2e-3, 1e-4, 1e-5],
                                [3.0, 0.2, 2e-3, 3e-4, 1e-5],
                                [3.0, 0.2, 2e-3, 3e-4, 7e-5]])
  add('h_melody_notes', N=1, K=3)
  add('h_melody_notes', N=1, K=3, pitches=[0, 127])  # the ends of the range
  add('h_melody_notes', N=2, K=3, budget=900)
  # drum / unpitched-program notes are no melody material (program 95 and 104
  # are pitched); the second note may sit on the would-be melody instrument
  add('h_melody_notes', N=1, K=2,
      kinds=[[[False, 0], [True, 0], [False, 96], [False, 127], [False, 95]]])
  add('h_melody_notes', N=2, K=2, instruments=[0, 1], budget=900,
      kinds=[[[False, 0]], [[True, 0], [False, 103], [False, 112]]])
  add('h_melody_notes', N=0, K=2)
  for q in ('spq', 'sps'):
    add('h_melody_notes', N=1, K=2, quant=q)
  add('h_melody_notes', N=1, K=3, max_frames=2)
  if tier == 'thorough':
    for add_keys in (False, True):
      add('h_chord_annotations', mode='beats', K=5, B=3, add_keys=add_keys,
          budget=3000)
      add('h_chord_annotations', mode='bars', K=16, spq=4, qpm=120, ts=[4, 4],
          cpb=None, add_keys=add_keys, budget=1800)
    add('h_chord_annotations', mode='bars', K=9, spq=2, qpm=90, ts=[6, 8],
        cpb=None, add_keys=True, budget=1800)
    add('h_melody_notes', N=2, K=4, budget=3000)
    add('h_melody_notes', N=2, K=3, max_frames=2, budget=1800)
    add('h_melody_notes', N=2, K=3, instruments=[0, 1, 8, 10], budget=3000,
        kinds=[[[False, 0]], [[True, 0], [False, 103], [False, 112],
                              [False, 104]]])
    add('h_melody_notes', N=3, K=3, budget=3000, required=False)
    add('h_melody_viterbi', T=4, P=1, budget=1800)
    add('h_melody_viterbi', T=3, P=2, budget=3000, required=False)
    add('h_chord_viterbi', T=2, budget=3000, required=False)
    add('h_chord_viterbi_steps', T=2, seed=2, sym0=True, budget=1800)
    add('h_chord_viterbi_steps', T=3, seed=3, budget=1800)
  return J
