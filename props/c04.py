"""C04 -- ABC tunes parse to the pitches, durations, keys and repeats they notate
(numeric leaves symbolic through sentinel numerals; the text structure is a
solver-closed choice: labelled)."""
from fractions import Fraction

META = {
    'level': 'model_checking',
    'level_text':
        'The real parse_abc_tunebook / ABCTune run on ABC text whose STRUCTURE '
        '(which fields, which letters, accidentals, octave marks, bar and '
        'repeat symbols) is assembled from solver-closed choices and whose '
        'NUMERALS (note length multipliers and divisors, L: M: Q: numbers) are '
        'symbolic: the text carries sentinel numerals (9001, 9002, ...) that the '
        'regular expressions tokenise as ordinary digits, and the int() of the '
        'parser module - shadowed for the run - maps a sentinel to its symbolic '
        'integer. From there the length / tempo / time arithmetic (Fractions, '
        'divisions, broken rhythm, section times) runs on symbolic values and '
        'the solver compares every note (pitch, onset, duration), the tempo, '
        'meter, key and mode, and the order of notes after the real '
        'expand_section_groups with an independent reading of the ABC 2.1 '
        'rules written in the harness. A second harness checks that a tune '
        'with an unsupported construct lands in the exception list without '
        'changing the other tune of the tunebook. h_keys reads a scale of all '
        '14 note letters under each of the 105 key spellings (tonic x mode '
        'with <= 7 sharps / flats, computed in the harness from the circle of '
        'fifths) in 6 ways of writing the mode; h_book parses tunebooks of '
        '1..4 good / unparsable tunes (file header, blank-line runs, CRLF, no '
        'final newline, from a file, repeated X:) and checks every good tune, '
        'the order and class of the exceptions, and that nothing is raised.',
    'level_note':
        'Trusted: z3, symproto, the sentinel substitution (the replay writes '
        'the model\'s numbers into the text and runs the unmodified parser). '
        'The regular-expression layer runs on concrete text, so for the '
        'PITCH clause (letters, accidentals, octave marks, keys and modes) this '
        'is solver-driven enumeration over the choices, not symbolic reasoning '
        '(as for C15); the DURATION / TEMPO / METER / REPEAT-TIME clauses are '
        'decided symbolically over the numerals. ABC constructs outside the '
        'templates (decorations other than those listed, ties, slurs, lyrics, '
        'line continuations, header-only tunebook sections, a field '
        'directly behind a bar line without a blank - see FINDING-CANDIDATE '
        'in jobs()) are outside.',
    'technique':
        'bounded symbolic execution of the real ABC parser with z3: numerals '
        'of the text symbolic through sentinel digits (length / tempo / meter '
        '/ repeat-time arithmetic decided by the solver), text structure '
        'enumerated through solver-closed choices (pitch / key clause: '
        'degenerate, labelled)',
    'functions': [('abc_parser', 'parse_abc_tunebook'),
                  ('abc_parser', 'parse_abc_tunebook_file'),
                  ('abc_parser', 'ABCTune.__init__'),
                  ('abc_parser', 'ABCTune._parse_music_code'),
                  ('abc_parser', 'ABCTune._parse_information_field'),
                  ('abc_parser', 'ABCTune.parse_key'),
                  ('abc_parser', 'ABCTune._set_unit_note_length_from_header'),
                  ('abc_parser', 'ABCTune._add_tempo'),
                  ('abc_parser', 'ABCTune._apply_broken_rhythm'),
                  ('abc_parser', 'ABCTune._add_section'),
                  ('abc_parser', 'ABCTune._finalize_sections'),
                  ('sequences_lib', 'expand_section_groups')],
    'assumptions': [
        'numerals: note length multipliers 1..4, divisors {1,2,3,4,8}, L: 1/d '
        'with d in {1,2,4,8,16} (one job: L:1, 1/32, 1/64), M: n/d with n in '
        '1..12, d in {2,4,8}, tempo rates 30..240, tempo beats 1/4 3/8 1/2 '
        'and 1/4+3/8',
        'no dynamics notated: only "one audible velocity for all notes" is '
        'claimed, not its value',
        'unparsable tunes other than chords / tuplets / voices / parts / '
        'variant endings / invalid characters: only "listed or parsed, never '
        'raised, other tunes unaffected" is claimed',
        'accidentals propagate within a bar to every octave of the letter (ABC '
        '2.1 default "propagate-accidentals: pitch")',
        'tune texts from the templates of the harness (see bounds)',
    ],
    'bounds': {
        'quick': 'tunes of <=4 notes, <=3 bars / 3 lines; <=2 inline or '
                 'own-line fields; <=2 repeat pairs (counted: x3); all 105 '
                 'key spellings x 6 mode spellings on a 14-note scale; '
                 'tunebooks of 1..4 tunes (<=2 unparsable, 17 kinds)',
        'thorough': 'all 15 x 7 key/mode names; 4 notes; nested length forms',
    },
    'outside': ['ABC text outside the templates', 'chords, tuplets, voices, '
                'parts, variant endings (checked only as "reported, other '
                'tunes unaffected")', 'decorations, ties, slurs, lyrics'],
}

_BASE = {'C': 60, 'D': 62, 'E': 64, 'F': 65, 'G': 67, 'A': 69, 'B': 71,
         'c': 72, 'd': 74, 'e': 76, 'f': 77, 'g': 79, 'a': 81, 'b': 83}
_ACC = {None: None, '^': 1, '_': -1, '=': 0, '^^': 2, '__': -2}
_SHARPS = 'FCGDAEB'
_FLATS = 'BEADGCF'
# tonic pitch class and signature (number of sharps) of the major key on each
# spelled tonic; modes shift the signature
_MAJOR_SIG = {'C': 0, 'G': 1, 'D': 2, 'A': 3, 'E': 4, 'B': 5, 'F#': 6, 'C#': 7,
              'F': -1, 'Bb': -2, 'Eb': -3, 'Ab': -4, 'Db': -5, 'Gb': -6,
              'Cb': -7}
_PC = {'C': 0, 'D': 2, 'E': 4, 'F': 5, 'G': 7, 'A': 9, 'B': 11}
# mode name -> (semitones of its tonic above the relative major tonic expressed
# as a signature offset, proto mode name)
_MODES = {'': (0, 'MAJOR'), 'maj': (0, 'MAJOR'), 'ion': (0, 'MAJOR'),
          'm': (-3, 'MINOR'), 'min': (-3, 'MINOR'), 'aeo': (-3, 'MINOR'),
          'mix': (-1, 'MIXOLYDIAN'), 'dor': (-2, 'DORIAN'),
          'phr': (-4, 'PHRYGIAN'), 'lyd': (1, 'LYDIAN'), 'loc': (-5, 'LOCRIAN')}


def _key_sig(tonic, mode):
  """Signature (sharps > 0, flats < 0) of `tonic` `mode`: the major key with
  the same tonic has _MAJOR_SIG sharps; each mode lowers / raises that by a
  fixed number of fifths."""
  return _MAJOR_SIG[tonic] + _MODES[mode][0]


def _tonic_pc(tonic):
  """Pitch class of a spelled tonic (Cb = 11, B# = 0, ...)."""
  return (_PC[tonic[0]] + (1 if '#' in tonic else -1 if 'b' in tonic else
                           0)) % 12


def _sig_accidentals(sig):
  acc = {p: 0 for p in 'ABCDEFG'}
  for i in range(abs(sig)):
    if sig > 0:
      acc[_SHARPS[i]] = 1
    else:
      acc[_FLATS[i]] = -1
  return acc


# a comment that would change the tune if it were read as music or as a field
_COMMENT = ' % [K:G] 3/4 |: ^c2 :|'


class _Text(object):
  """ABC text with sentinel numerals."""

  def __init__(self, c):
    self.c = c
    self.reg = {}   # sentinel string -> value
    self.n = 0

  def num(self, value):
    """Numeral for `value` in the text: the number itself on the real stack, a
    sentinel in the symbolic run."""
    c = self.c
    if c.mode != 'sym':
      return str(int(value))
    from engine import symex  # pylint: disable=g-import-not-at-top
    if not symex.is_sym(value):
      return str(int(value))
    self.n += 1
    s = str(9000 + self.n)
    self.reg[s] = value
    return s

  def install(self, mod):
    """Shadows int() of the parser module for the duration of the run."""
    c = self.c
    if c.mode != 'sym':
      return lambda: None
    from engine import symex  # pylint: disable=g-import-not-at-top
    reg = self.reg
    saved = mod.int

    class _Int(object):
      def __call__(self, x=0, *a):
        if isinstance(x, str) and x.strip() in reg and not a:
          return reg[x.strip()]
        return symex.sym_int(x, *a)

      def __instancecheck__(self, obj):
        return isinstance(obj, symex.sym_int)

    mod.int = _Int()

    def restore():
      mod.int = saved
    return restore


def _length_spec(c, tx, i, form):
  """Returns (text, factor) for the length suffix of note i."""
  if form == 'none':
    return '', 1
  if form == 'k':
    k = c.int('n%d_mul' % i, 1, 4)
    return tx.num(k), k
  if form == '/k':
    d = c.choice('n%d_div' % i, [2, 3, 4, 8])
    return '/' + tx.num(d), Fraction(1, d)
  if form == 'a/b':
    a = c.int('n%d_mul' % i, 1, 3)
    d = c.choice('n%d_div' % i, [2, 4])
    return tx.num(a) + '/' + tx.num(d), a * Fraction(1, d)
  if form == '/':
    return '/', Fraction(1, 2)
  if form == '//':
    return '//', Fraction(1, 4)
  if form == '///':
    return '///', Fraction(1, 8)
  if form == 'a/':
    a = c.int('n%d_mul' % i, 1, 3)
    return tx.num(a) + '/', a * Fraction(1, 2)
  raise ValueError(form)


def _note(c, tx, i, letters, accs, octs, form, pre=''):
  acc = c.choice('%sn%d_acc' % (pre, i), accs)
  letter = c.choice('%sn%d_letter' % (pre, i), letters)
  octv = c.choice('%sn%d_oct' % (pre, i), octs)
  ltxt, factor = _length_spec(c, tx, i, form)
  return dict(kind='note', acc=acc, letter=letter, oct=octv, factor=factor,
              text=(acc or '') + letter + octv + ltxt)


def _header(c, tx, p):
  """Header lines + the values the harness's own reading assigns."""
  xref = c.int('xref', 1, 3) if p.get('xref_symbolic') else 1
  lines = ['X:%s' % tx.num(xref), 'T:first title', 'T:second']
  st = dict(meter=None, unit=None, qpm=120.0, tempo=None, key=None, xref=xref)
  # 'decor': blanks after the colon of a field and a '%' comment behind field
  # and music lines (ABC 2.1 3.1.2 / 2.2.3: neither is part of the content)
  fs = ' ' if p.get('decor') else ''
  cm = _COMMENT if p.get('decor') else ''
  m = p.get('meter')
  if m == 'n/d':
    n = c.int('m_n', 1, 12)
    d = c.choice('m_d', [2, 4, 8])
    lines.append('M:%s%s/%s%s' % (fs, tx.num(n), tx.num(d), cm))
    st['meter'] = (n, d)
  elif m in ('C', 'C|'):
    lines.append('M:' + fs + m + cm)
    st['meter'] = (4, 4) if m == 'C' else (2, 2)
  elif m == 'none':
    lines.append('M:' + fs + 'none' + cm)
  ld = p.get('unit')
  if ld:
    d = c.choice('l_d', p.get('unit_ds', [1, 2, 4, 8, 16]))
    lines.append('L:' + fs + ('1/%s' % tx.num(d) if d != 1 or ld == 'frac'
                              else '1') + cm)
    st['unit'] = Fraction(1, d)
  q = p.get('tempo')
  if q == 'string':
    # a tempo word without a beat: no tempo is notated (ABC 2.1 3.1.8)
    lines.append('Q:' + fs + '"Andante"' + cm)
  elif q:
    rate = c.int('q_rate', 30, 240)
    if q == 'deprecated':
      lines.append('Q:%s%s%s' % (fs, tx.num(rate), cm))
      st['tempo'] = (None, rate)
    else:
      # 'n/d=r', several beats 'a/b c/d=r' (the beat is their sum, ABC 2.1
      # 3.1.8), optionally with a tempo word before or after
      lines.append('Q:%s%s%s=%s%s%s' % (fs, p.get('tempo_label', ''), q,
                                       tx.num(rate),
                                       p.get('tempo_suffix', ''), cm))
      st['tempo'] = (sum(Fraction(b_) for b_ in q.split()), rate)
  tonic, mode = p.get('key', ('C', ''))
  modetxt = {'': '', 'm': 'm'}.get(mode, mode)
  if p.get('mode_text') is not None:
    modetxt = p['mode_text']
  ktxt = 'K:' + fs + tonic + modetxt
  # explicit accidentals: K:<key> [exp] ^f _b =c
  kx = p.get('key_explicit')
  st['key_explicit'] = {}
  st['key_exp_only'] = False
  if kx:
    if kx.get('exp'):
      ktxt += ' exp'
      st['key_exp_only'] = True
    for letter in kx.get('letters', []):
      a = c.choice('%skx_%s' % (p.get('pre', ''), letter), ['^', '_', '='])
      ktxt += ' ' + a + letter.lower()
      st['key_explicit'][letter.upper()] = _ACC[a]
  lines.append(ktxt + cm)
  st['key'] = (tonic, mode)
  return lines, st


def _unit_from_meter(c, meter):
  if meter is None:
    return Fraction(1, 8)
  n, d = meter
  small = c.concretize(n * 4 < 3 * d) if not isinstance(n, int) else (
      n * 4 < 3 * d)
  return Fraction(1, 16) if small else Fraction(1, 8)


def _expect(c, st, body, pb):
  """The harness's own reading of the tune: list of (pitch, onset, end) plus
  the tempo / meter / key events, and the section structure."""
  unit = st['unit'] if st['unit'] is not None else _unit_from_meter(
      c, st['meter'])
  qpm = 120
  tempos = []
  if st['tempo']:
    u, rate = st['tempo']
    qpm = (u if u is not None else unit) * 4 * rate
    tempos.append((0, qpm))
  key_acc = _sig_accidentals(0 if st.get('key_exp_only') else
                             _key_sig(*st['key']))
  for letter, a in st.get('key_explicit', {}).items():
    key_acc[letter] = a
  bar_acc = {}
  t = 0
  notes = []
  pending = None
  marks = st.setdefault('marks', [])  # (bar / repeat symbol, notes before it)
  for tok in body:
    k = tok['kind']
    if k == 'note':
      name = tok['letter'].upper()
      if tok['acc'] is not None:
        ch = _ACC[tok['acc']]
        bar_acc[name] = ch
      elif name in bar_acc:
        ch = bar_acc[name]
      else:
        ch = key_acc[name]
      pitch = (_BASE[tok['letter']] + ch + 12 * tok['oct'].count("'") -
               12 * tok['oct'].count(','))
      dur = unit * tok['factor'] * 4 * 60 / qpm
      notes.append([pitch, t, t + dur])
      t = t + dur
      if pending:
        a, b = notes[-2], notes[-1]
        if not bool(c.eq(a[2] - a[1], b[2] - b[1])):
          st['broken_unequal'] = True
        # ABC 2.1 4.4: '>' dotted / halved, '>>' double dotted / quartered,
        # '>>>' triple dotted / divided by eight
        adj = (a[2] - a[1]) * (1 - Fraction(1, 2 ** len(pending)))
        if pending[0] == '<':
          adj = -adj
        a[2] = a[2] + adj
        b[1] = b[1] + adj
        pending = None
    elif k == 'bar':
      bar_acc = {}
      marks.append((tok.get('text', '|'), len(notes)))
    elif k == 'broken':
      pending = tok['text']
    elif k == 'field':
      f, v = tok['field'], tok['value']
      if f == 'L':
        unit = v
      elif f == 'Q':
        # the bare (deprecated) form counts unit note lengths as they are at
        # that point of the tune
        qpm = (v[0] if v[0] is not None else unit) * 4 * v[1]
        tempos.append((t, qpm))
      elif f == 'K':
        key_acc = _sig_accidentals(_key_sig(*v))
        st.setdefault('inline_keys', []).append((t, v))
      elif f == 'M':
        st.setdefault('inline_meters', []).append((t, v))
  return notes, tempos


def h_tune(c):
  """One tune: header + a body of notes, bars, broken rhythm and inline
  fields."""
  ap = c.mod('abc_parser')
  pb = c.pb
  p = c.params
  tx = _Text(c)
  lines, st = _header(c, tx, p)
  body = []
  text = ''
  letters = p.get('letters', ['C', 'F', 'b'])
  accs = p.get('accs', [None, '^', '_', '='])
  octs = p.get('octs', ['', "'", ','])
  sep = p.get('sep', ' ')
  as_lines = p.get('field_lines')

  def field_text(content):
    # an information field inside the tune: inline '[L:1/4]' or, with
    # field_lines, on a line of its own between two music lines
    if not as_lines:
      return '[' + content + ']'
    lead = '' if (not text or text.endswith('\n')) else '\n'
    return lead + content + (_COMMENT if p.get('decor') else '') + '\n'

  for i, form in enumerate(p['notes']):
    if form in ('|', '||', '|:', ':|', ':|:', '::', '|::', '::|', '|]',
                '::::'):
      body.append(dict(kind='bar', text=form))
      text += form
      continue
    if form in ('>', '<', '>>', '<<', '>>>', '<<<'):
      body.append(dict(kind='broken', text=form))
      text += form
      continue
    if form in (' ', '\n'):
      # a blank between two symbols / the tune goes on on the next line:
      # neither notates anything (a line break is not a bar line)
      if not (form == '\n' and (not text or text.endswith('\n'))):
        text += form
      continue
    if isinstance(form, list):  # inline field
      f = form[0]
      if f == 'L':
        d = c.choice('il_d', [4, 8, 16])
        body.append(dict(kind='field', field='L', value=Fraction(1, d)))
        text += field_text('L:1/%s' % tx.num(d))
      elif f == 'Q':
        nq = sum(1 for b_ in body if b_.get('field') == 'Q')
        rate = c.int('iq_rate' if not nq else 'iq%d_rate' % nq, 30, 240)
        if form[1] is None:
          body.append(dict(kind='field', field='Q', value=(None, rate)))
          text += field_text('Q:%s' % tx.num(rate))
        else:
          body.append(dict(kind='field', field='Q',
                           value=(Fraction(form[1]), rate)))
          text += field_text('Q:%s=%s' % (form[1], tx.num(rate)))
      elif f == 'K':
        body.append(dict(kind='field', field='K', value=(form[1], form[2])))
        text += field_text('K:%s%s' % (form[1], form[2]))
      elif f == 'M':
        n2 = c.int('im_n', 1, 12)
        d2 = c.choice('im_d', [2, 4, 8])
        body.append(dict(kind='field', field='M', value=(n2, d2)))
        text += field_text('M:%s/%s' % (tx.num(n2), tx.num(d2)))
      elif f == 'T':
        # a title inside the tune names a part; the tune keeps its titles
        body.append(dict(kind='field', field='T', value=None))
        text += field_text('T:part two')
      continue
    tok = _note(c, tx, i, letters, accs, octs, form)
    body.append(tok)
    text += tok['text'] + sep
  if p.get('decor'):
    text = text.rstrip('\n') + _COMMENT
  lines.append(text)
  abc = '\n'.join(lines) + '\n'
  restore = tx.install(ap)
  try:
    res, err = c.raises(ap.parse_abc_tunebook, abc)
  finally:
    restore()
  exp_notes, exp_tempos = _expect(c, st, body, pb)
  if st.get('broken_unequal'):
    c.check(err is None and len(res[1]) == 1 and not res[0],
            'broken rhythm between notes of different lengths is reported as '
            'unsupported')
    return
  out_of_range = [n for n in exp_notes if not 0 <= n[0] <= 127]
  double = [tok for tok in body if tok['kind'] == 'note' and
            tok['acc'] in ('^^', '__')]
  c.check(err is None, 'parse_abc_tunebook itself does not raise')
  tunes, excs = res
  if out_of_range:
    c.check(len(excs) == 1 and not tunes, 'a pitch outside 0..127 is reported')
    return
  xr = c.concretize(st['xref'])
  c.check(len(excs) == 0 and list(tunes) == [xr],
          'a tune of the supported subset parses (filed under its X: number, '
          'no exception)' + (' [double accidental]' if double else ''))
  if excs or xr not in tunes:
    return
  ns = tunes[xr]
  c.check(c.eq(ns.reference_number, xr) and
          ns.sequence_metadata.title == 'first title; second',
          'reference number and titles from the X: and T: fields')
  got = [(n.pitch, n.start_time, n.end_time) for n in ns.notes]
  c.check(len(got) == len(exp_notes), 'one note per notated note')
  for g, e in zip(got, exp_notes):
    c.check(c.eq(g[0], e[0]),
            'pitch = letter + accidental (explicit, else bar-scoped, else '
            'key) + octave marks')
    c.check(c.And(c.approx(g[1], e[1], 1e-9), c.approx(g[2], e[2], 1e-9)),
            'onset and duration = unit length x multiplier / divisor (and '
            'broken rhythm) at the tempo in force')
  c.check(len(ns.tempos) == len(exp_tempos) and bool(c.And(
      [c.And(c.approx(a.time, t_, 1e-9), c.approx(a.qpm, q_, 1e-9))
       for a, (t_, q_) in zip(ns.tempos, exp_tempos)] or [True])),
          'tempo = (beat / quarter) x rate at the time it is notated')
  want_ts = ([(0, st['meter'])] if st['meter'] is not None else []) + list(
      st.get('inline_meters', []))
  c.check(len(ns.time_signatures) == len(want_ts) and bool(c.And(
      [c.And(c.eq(a.numerator, m_[0]), c.eq(a.denominator, m_[1]),
             c.approx(a.time, t_, 1e-9))
       for a, (t_, m_) in zip(ns.time_signatures, want_ts)] or [True])),
          'meters as in the header and the inline [M:] fields, at their times '
          '(none for free meter)')
  want_ks = [(0, st['key'])] + list(st.get('inline_keys', []))
  c.check(len(ns.key_signatures) == len(want_ks) and bool(c.And(
      [c.approx(a.time, t_, 1e-9) for a, (t_, _) in
       zip(ns.key_signatures, want_ks)])), 'one key signature per K: field, '
                                             'at its time')
  tonic, mode = st['key']
  KS = pb.NoteSequence.KeySignature
  c.check(len(ns.key_signatures) >= 1 and bool(c.And(
      c.eq(ns.key_signatures[0].key, (_PC[tonic[0]] + (1 if '#' in tonic else
                                                      -1 if 'b' in tonic else
                                                      0)) % 12),
      c.eq(ns.key_signatures[0].mode, getattr(KS, _MODES[mode][1])))),
          'key tonic and mode as in the K: field')
  c.check(len(ns.key_signatures) == len(want_ks) and bool(c.And(
      [c.And(c.eq(a.key, _tonic_pc(k_[0])),
             c.eq(a.mode, getattr(KS, _MODES[k_[1]][1])))
       for a, (_, k_) in zip(ns.key_signatures, want_ks)])),
          'key tonic and mode of every K: field, header and inline')
  if exp_notes:
    c.check(c.approx(ns.total_time, exp_notes[-1][2], 1e-9),
            'total_time is the end of the last note')
  # no dynamics are notated: every note sounds, all at one (default) dynamic
  vel = [n.velocity for n in ns.notes]
  c.check(bool(c.And([c.And(v >= 1, v <= 127, c.eq(v, vel[0]))
                      for v in vel] or [True])),
          'notes carry one audible default velocity (1..127)')
  order = p.get('expanded')
  if order is not None:
    # the notated repeat structure, unrolled by the real expand_section_groups
    sl = c.mod('sequences_lib')
    before = c.snapshot(ns)
    ex, err2 = c.raises(sl.expand_section_groups, ns)
    c.check(err2 is None, 'the section structure can be expanded')
    if err2 is not None:
      return
    c.check(ex is not ns and bool(c.msg_eq(ns, before)),
            'expand_section_groups returns a copy and leaves the parsed tune '
            'as it was')
    gotp = [n.pitch for n in sorted(ex.notes, key=lambda n: c.concretize(
        c.Floor(n.start_time * 1024)))] if False else [n.pitch for n in ex.notes]
    want = [exp_notes[i][0] for i in order]
    c.check(len(gotp) == len(want) and bool(c.And(
        [c.eq(a, b_) for a, b_ in zip(gotp, want)] or [True])),
            'expanding the sections plays the notes in the notated repeat '
            'order')
    tcur = 0
    ok = []
    for n, i in zip(ex.notes, order):
      d = exp_notes[i][2] - exp_notes[i][1]
      ok.append(c.And(c.approx(n.start_time, tcur, 1e-9),
                      c.approx(n.end_time, tcur + d, 1e-9)))
      tcur = tcur + d
    c.check(c.And(ok or [True]), 'expanded notes follow each other without '
                                 'gaps, each with its own duration')
    c.check(c.approx(ex.total_time, tcur, 1e-9),
            'the expanded tune lasts as long as the sections played')


def h_tunebook(c):
  """Two tunes; the second uses an unsupported construct: it must land in the
  exception list and the first tune must come out exactly as when parsed
  alone."""
  ap = c.mod('abc_parser')
  tx = _Text(c)
  k = c.int('mul', 1, 4)
  rate = c.int('rate', 30, 240)
  tune1 = ['X:1', 'T:one', 'M:4/4', 'L:1/8', 'Q:1/4=%s' % tx.num(rate), 'K:D',
           'F%s A | d2 :|' % tx.num(k)]
  bad = c.params['bad']
  tune2 = ['X:2', 'T:two', 'M:4/4', 'K:C'] + list(bad)
  order = c.params.get('order', [1, 2])
  tunes = {1: tune1, 2: tune2}
  book = '\n\n'.join('\n'.join(tunes[i]) for i in order) + '\n'
  if c.params.get('comment_first'):
    # a comment / version line directly above the first X: field
    book = '%abc-2.1\n' + book
  hdr = c.params.get('header')
  if hdr:
    # a file header (a first section without X:) sets defaults for every tune
    book = '\n'.join(hdr) + '\n\n' + book
    tune1 = list(hdr) + tune1
  restore = tx.install(ap)
  try:
    both, err = c.raises(ap.parse_abc_tunebook, book)
    alone, err1 = c.raises(ap.parse_abc_tunebook, '\n'.join(tune1) + '\n')
  finally:
    restore()
  c.check(err is None and err1 is None,
          'an unsupported construct does not make parse_abc_tunebook raise')
  if err is not None or err1 is not None:
    return
  c.check(len(both[1]) == 1 and isinstance(both[1][0], ap.ABCParseError),
          'the unsupported tune is reported in the exception list')
  if c.params.get('exc') and len(both[1]) == 1:
    c.check(type(both[1][0]).__name__ == c.params['exc'],
            'the exception names the construct (the error class documented '
            'for it)')
  c.check(list(both[0]) == [1] and list(alone[0]) == [1] and not alone[1],
          'the other tune is returned')
  if list(both[0]) == [1] and list(alone[0]) == [1]:
    c.check(c.msg_eq(both[0][1], alone[0][1]),
            'the other tune is exactly what it is when parsed alone')


def h_two_tunes(c):
  """Two well-formed tunes in one tunebook, each with its own (explicit) key:
  each parses to what it notates, independently of the other."""
  ap = c.mod('abc_parser')
  tx = _Text(c)
  texts, specs = [], []
  for ti, key in enumerate(('t1', 't2')):
    p = dict(c.params[key])
    p['pre'] = key + '_'
    lines, st = _header(c, tx, p)
    lines[0] = 'X:%d' % (ti + 1)
    body, text = [], ''
    for i, form in enumerate(p['notes']):
      tok = _note(c, tx, i, p['letters'], p['accs'], p['octs'], form,
                  pre=key + '_')
      body.append(tok)
      text += tok['text'] + ' '
    lines.append(text)
    texts.append('\n'.join(lines))
    specs.append((st, body))
  restore = tx.install(ap)
  try:
    res, err = c.raises(ap.parse_abc_tunebook, '\n\n'.join(texts) + '\n')
  finally:
    restore()
  c.check(err is None and not res[1] and sorted(res[0]) == [1, 2],
          'both tunes parse')
  if err is not None or sorted(res[0]) != [1, 2]:
    return
  for ti, (st, body) in enumerate(specs):
    exp_notes, _ = _expect(c, st, body, c.pb)
    got = [n.pitch for n in res[0][ti + 1].notes]
    c.check(len(got) == len(exp_notes) and bool(c.And(
        [c.eq(a, b[0]) for a, b in zip(got, exp_notes)] or [True])),
            'each tune has the pitches its own key and accidentals give, '
            'whatever the other tune declares')
    ns = res[0][ti + 1]
    KS = c.pb.NoteSequence.KeySignature
    c.check(len(ns.notes) == len(exp_notes) and bool(c.And(
        [c.And(c.approx(n.start_time, e[1], 1e-9),
               c.approx(n.end_time, e[2], 1e-9))
         for n, e in zip(ns.notes, exp_notes)] or [True])) and
            bool(c.approx(ns.total_time, exp_notes[-1][2], 1e-9)),
            'each tune starts at time 0 with its own onsets and durations')
    c.check(bool(c.eq(ns.reference_number, ti + 1)) and
            ns.sequence_metadata.title == 'first title; second' and
            len(ns.key_signatures) == 1 and
            bool(c.eq(ns.key_signatures[0].key, _tonic_pc(st['key'][0]))) and
            bool(c.eq(ns.key_signatures[0].mode,
                      getattr(KS, _MODES[st['key'][1]][1]))) and
            len(ns.tempos) == 0 and len(ns.time_signatures) == 0,
            'each tune has its own number, titles and key, and nothing of '
            'the other tune')


# ---------------------------------------------------------------------------
# every key spelling: tonic letter x {natural, sharp, flat} x mode whose
# signature has at most 7 sharps / flats (15 per mode, 105 in all), written in
# the ways ABC 2.1 3.1.14 allows ("the spaces can be left out, capitalisation
# is ignored for the modes and only the first three letters are parsed")
_FIFTHS = {'F': -1, 'C': 0, 'G': 1, 'D': 2, 'A': 3, 'E': 4, 'B': 5}
_MODE_SPELLINGS = {
    '': ['', 'maj', ' major', 'Ion', ' IONIAN', ' Maj'],
    'm': ['m', 'min', ' minor', 'Aeo', ' AEOLIAN', ' Min'],
    'mix': ['mix', 'Mix', ' mixolydian', 'MIX', ' Mixolydian', ' MIXO'],
    'dor': ['dor', 'Dor', ' dorian', 'DOR', ' Dorian', ' DORI'],
    'phr': ['phr', 'Phr', ' phrygian', 'PHR', ' Phrygian', ' PHRY'],
    'lyd': ['lyd', 'Lyd', ' lydian', 'LYD', ' Lydian', ' LYDI'],
    'loc': ['loc', 'Loc', ' locrian', 'LOC', ' Locrian', ' LOCR'],
}


def _spelled_sig(tonic, mode):
  """Signature of a key from the circle of fifths: a sharp on the tonic adds
  seven sharps, a flat seven flats; the mode shifts as in _MODES."""
  return (_FIFTHS[tonic[0]] + (7 if tonic.endswith('#') else
                               -7 if tonic.endswith('b') else 0) +
          _MODES[mode][0])


def _all_keys():
  out = []
  for mode in ('', 'm', 'mix', 'dor', 'phr', 'lyd', 'loc'):
    for letter in 'CDEFGAB':
      for a in ('', '#', 'b'):
        if -7 <= _spelled_sig(letter + a, mode) <= 7:
          out.append([letter + a, mode])
  return out


def h_keys(c):
  """A scale of all 14 note letters under one of the 105 key spellings: every
  letter is raised / lowered as the signature says, and the key signature of
  the NoteSequence names the tonic and the mode."""
  ap = c.mod('abc_parser')
  keys = c.params['keys']
  tonic, mode = c.choice('key', keys)
  si = c.choice('spelling', list(range(6)))
  sig = _spelled_sig(tonic, mode)
  ktxt = ('K: ' if si % 2 else 'K:') + tonic + _MODE_SPELLINGS[mode][si]
  letters = 'CDEFGABcdefgab'
  abc = '\n'.join(['X:1', 'T:scale', ktxt, ' '.join(letters)]) + '\n'
  res, err = c.raises(ap.parse_abc_tunebook, abc)
  c.check(err is None and not res[1] and list(res[0]) == [1],
          'a tune in any key of at most 7 sharps / flats, in any mode and '
          'spelling of the mode, parses')
  if err is not None or list(res[0]) != [1]:
    return
  ns = res[0][1]
  acc = _sig_accidentals(sig)
  want = [_BASE[l] + acc[l.upper()] for l in letters]
  got = [n.pitch for n in ns.notes]
  c.check(len(got) == len(want) and bool(c.And(
      [c.eq(a, b) for a, b in zip(got, want)] or [True])),
          'every letter, in both octaves, is sharpened / flattened exactly as '
          'the key signature says')
  KS = c.pb.NoteSequence.KeySignature
  c.check(len(ns.key_signatures) == 1 and bool(c.And(
      c.eq(ns.key_signatures[0].key, _tonic_pc(tonic)),
      c.eq(ns.key_signatures[0].mode, getattr(KS, _MODES[mode][1])))),
          'key signature: tonic pitch class and mode as spelled')


# ---------------------------------------------------------------------------
# tunebooks of several tunes
_BAD_KINDS = [
    # (body lines, error class documented for the construct or None when only
    #  "a tune that cannot be parsed is listed, nothing is raised" is claimed)
    (['[CEG]2 C'], 'ChordError'),
    (['(3CDE F'], 'TupletError'),
    (['V:1', 'CDE'], 'MultiVoiceError'),
    (['P:A', 'CDE'], 'PartError'),
    (['C D |1 E :|2 F |'], 'VariantEndingError'),
    (['C D # E'], 'InvalidCharacterError'),
    (['C D z E'], 'ABCParseError'),        # rests: not in the supported subset
    (['C D * E ?'], 'InvalidCharacterError'),
    (['|:: C D :|'], 'ABCParseError'),     # three times ... twice
    (['|: C D'], None),
    ([':| C D'], None),
    (['C ::: D'], None),
    (['> C D'], None),
    (['C >> > D'], None),
    (['C D', 'L:x', 'E'], None),
    (['C D', 'M:3', 'E'], None),
    (['C', 'Q:fast', 'D'], None),
]
_BOOK_KEYS = ['C', 'G', 'F', 'D']
_BOOK_PITCH = {'C': (65, 71, 60), 'G': (66, 71, 60), 'F': (65, 70, 60),
               'D': (66, 71, 61)}   # F B C under each key


def h_book(c):
  """A tunebook of 1..4 tunes, good ones ('g', each in its own key and with
  its own symbolic note length) and unparsable ones ('b'), with or without a
  file header, separated as ABC 2.1 2.2.2 allows (one or more empty or blank
  lines, any line ending): every good tune is returned under its X: number
  exactly as notated, every bad one is listed - in file order - and nothing
  is raised, except for a repeated X: number (documented)."""
  ap = c.mod('abc_parser')
  p = c.params
  tx = _Text(c)
  eol = p.get('eol', '\n')
  sep = p.get('sep', '\n')
  hdr_unit = p.get('hdr_unit')
  hdr_meter = p.get('hdr_meter')
  sections = []
  if hdr_unit or hdr_meter:
    h = ['%abc-2.1', 'O:nowhere']
    if hdr_unit:
      h.append('L:1/%d' % hdr_unit)
    if hdr_meter:
      h.append('M:%d/%d' % tuple(hdr_meter))
    sections.append(h)
  good, bad = [], []
  for i, (kind, xref) in enumerate(zip(p['layout'], p['xrefs'])):
    if kind == 'g':
      key = _BOOK_KEYS[i % 4]
      k = c.int('k%d' % i, 1, 4)
      sections.append(['X:%d' % xref, 'T:tune %d' % i, 'K:' + key,
                       'F%s B C' % tx.num(k)])
      good.append((xref, i, key, k))
    else:
      lines, cls = _BAD_KINDS[c.choice('bad%d' % i, p['bad_kinds'])]
      sections.append(['X:%d' % xref, 'T:tune %d' % i, 'K:C'] + list(lines))
      bad.append(cls)
  book = (eol + sep).join(eol.join(sec) for sec in sections)
  if p.get('final_newline', True):
    book += eol
  restore = tx.install(ap)
  try:
    if p.get('via_file'):
      import os  # pylint: disable=g-import-not-at-top
      import tempfile  # pylint: disable=g-import-not-at-top
      fd, path = tempfile.mkstemp(suffix='.abc')
      try:
        with os.fdopen(fd, 'w', newline='') as f:
          f.write(book)
        res, err = c.raises(ap.parse_abc_tunebook_file, path)
      finally:
        os.unlink(path)
    else:
      res, err = c.raises(ap.parse_abc_tunebook, book)
  finally:
    restore()
  if p.get('dup'):
    c.check(err is not None and
            type(err).__name__ == 'DuplicateReferenceNumberError',
            'two tunes with the same X: number raise '
            'DuplicateReferenceNumberError')
    return
  c.check(err is None, 'parse_abc_tunebook(_file) does not raise')
  if err is not None:
    return
  tunes, excs = res
  c.check(len(excs) == len(bad) and all(
      isinstance(e, ap.ABCParseError) and
      (cls is None or type(e).__name__ == cls or
       (cls == 'ABCParseError'))
      for e, cls in zip(excs, bad)),
          'one exception per unparsable tune, in file order, of the class '
          'documented for the construct')
  c.check(sorted(tunes) == sorted(x for x, _, _, _ in good),
          'exactly the parsable tunes are returned, under their X: numbers')
  if sorted(tunes) != sorted(x for x, _, _, _ in good):
    return
  unit = Fraction(1, hdr_unit) if hdr_unit else (
      _unit_from_meter(c, tuple(hdr_meter) if hdr_meter else None))
  for xref, i, key, k in good:
    ns = tunes[xref]
    d = unit * 4 * Fraction(1, 2)      # seconds per unit note at 120 qpm
    want = [(_BOOK_PITCH[key][0], 0, k * d),
            (_BOOK_PITCH[key][1], k * d, k * d + d),
            (_BOOK_PITCH[key][2], k * d + d, k * d + 2 * d)]
    c.check(len(ns.notes) == 3 and bool(c.And(
        [c.And(c.eq(n.pitch, w[0]), c.approx(n.start_time, w[1], 1e-9),
               c.approx(n.end_time, w[2], 1e-9))
         for n, w in zip(ns.notes, want)])),
            'each tune of the book has its own pitches (own key), onsets and '
            'durations (unit length from the file header when there is one)')
    c.check(bool(c.eq(ns.reference_number, xref)) and
            ns.sequence_metadata.title == 'tune %d' % i and
            len(ns.key_signatures) == 1 and
            bool(c.eq(ns.key_signatures[0].key, _tonic_pc(key))) and
            len(ns.tempos) == 0,
            'each tune of the book has its own number, title and key')
    c.check(len(ns.time_signatures) == (1 if hdr_meter else 0) and all(
        bool(c.And(c.eq(ts.numerator, hdr_meter[0]),
                   c.eq(ts.denominator, hdr_meter[1]), c.eq(ts.time, 0)))
        for ts in ns.time_signatures),
            'the meter of the file header applies to every tune')


HARNESSES = {'h_tune': h_tune, 'h_tunebook': h_tunebook,
             'h_two_tunes': h_two_tunes, 'h_keys': h_keys, 'h_book': h_book}




_KEYS_QUICK = [('C', ''), ('G', 'mix'), ('D', 'dor'), ('F#', 'm'), ('Bb', 'lyd'),
               ('Eb', 'phr'), ('B', 'loc'), ('Cb', ''), ('C#', ''), ('A', 'min'),
               ('E', 'aeo'), ('Ab', 'maj'), ('F', 'ion')]


def _valid_keys():
  out = []
  for tonic in _MAJOR_SIG:
    for mode in ('', 'm', 'mix', 'dor', 'phr', 'lyd', 'loc'):
      if -7 <= _key_sig(tonic, mode) <= 7:
        out.append((tonic, mode))
  return out


def jobs(tier):
  J = []

  def add(h, budget=600, required=True, **params):
    J.append({'harness': h, 'params': params, 'budget_s': budget,
              'required': required})

  deep = tier == 'thorough'
  # pitch: accidentals (explicit / bar-scoped in every octave / key), octave
  # marks; two notes, a bar line, a third note of the same letter
  for key in _KEYS_QUICK if not deep else _valid_keys():
    add('h_tune', notes=['none', 'none', '|', 'none'], key=list(key),
        letters=['F', 'b'], accs=[None, '^', '_', '=', '^^', '__'],
        octs=['', "'", ',,'] if key == ('C', '') else [''],
        budget=900)
  add('h_tune', notes=['none', 'none'], key=['D', ''], letters=['f', 'C'],
      accs=[None], octs=[''],
      key_explicit={'exp': False, 'letters': ['f', 'c']})
  add('h_tune', notes=['none', 'none'], key=['D', 'phr'], letters=['F', 'B'],
      accs=[None, '='], octs=[''],
      key_explicit={'exp': True, 'letters': ['B']})
  # lengths: every notation of a length, unit note length from L:, from the
  # meter (n/d symbolic: the 3/4 threshold) or free meter; tempo forms
  forms = ['none', 'k', '/k', 'a/b', '/', '//', 'a/']
  for i, f in enumerate(forms):
    add('h_tune', notes=[f, forms[(i + 3) % 7]], key=['C', ''], letters=['C'],
        accs=[None], octs=[''], meter=['n/d', 'C', 'C|', 'none', None][i % 5],
        unit=[None, 'frac'][i % 2],
        tempo=[None, '1/4', '3/8', 'deprecated', '1/2'][i % 5], budget=900)
  add('h_tune', notes=['k', '/k'], key=['C', ''], letters=['C'], accs=[None],
      octs=[''], meter='n/d', tempo='deprecated', budget=900)
  add('h_tune', notes=['///', 'a/b'], key=['C', ''], letters=['C'], accs=[None],
      octs=[''], unit='frac', budget=900)
  # broken rhythm
  for br in ('>', '<', '>>', '<<<'):
    add('h_tune', notes=['k', br, 'k'], key=['C', ''], letters=['C', 'G'],
        accs=[None], octs=[''], unit='frac', tempo='1/4', budget=900)
  # inline fields change the unit length, tempo and key from there on
  add('h_tune', notes=['k', ['L'], 'k'], key=['C', ''], letters=['C'],
      accs=[None], octs=[''], tempo='1/4')
  add('h_tune', notes=['k', ['Q', '1/4'], 'k'], key=['C', ''], letters=['C'],
      accs=[None], octs=[''], unit='frac')
  # tempo marks that share one time: a header Q: replaced by an inline [Q:]
  # before the first note, and two inline fields in a row (the later one is
  # the tempo in force)
  add('h_tune', notes=[['Q', '1/4'], 'k', 'none'], key=['C', ''],
      letters=['C'], accs=[None], octs=[''], tempo='1/4')
  add('h_tune', notes=['none', ['Q', '1/4'], ['Q', '3/8'], 'k'], key=['C', ''],
      letters=['C'], accs=[None], octs=[''], tempo='1/2')
  add('h_tune', notes=['none', ['K', 'A', ''], 'none'], key=['F', ''],
      letters=['C', 'B'], accs=[None], octs=[''])
  add('h_tune', notes=['k', ['M'], 'none'], key=['C', ''], letters=['C'],
      accs=[None], octs=[''], meter='C', unit='frac')
  # repeats: the notated order after expand_section_groups
  base = dict(key=['C', ''], letters=['C', 'E', 'G'], accs=[None], octs=[''])
  add('h_tune', notes=['|:', 'k', 'none', ':|', 'none'],
      expanded=[0, 1, 0, 1, 2], **base)
  add('h_tune', notes=['none', 'k', ':|', 'none'], expanded=[0, 1, 0, 1, 2],
      **base)
  add('h_tune', notes=['|:', 'none', ':|:', 'k', ':|'], expanded=[0, 0, 1, 1],
      **base)
  add('h_tune', notes=['none', '||', 'k', ':|', 'none'],
      expanded=[0, 1, 1, 2], **base)
  add('h_tune', notes=['|::', 'none', '::|', 'k'], expanded=[0, 0, 0, 1],
      **base)
  # an unrepeated lead-in (or middle part) before a forward repeat sign
  add('h_tune', notes=['none', '|:', 'k', ':|'], expanded=[0, 1, 1], **base)
  add('h_tune', notes=['|:', 'none', ':|', 'k', '|:', 'none', ':|'],
      expanded=[0, 0, 1, 2, 2], **base)
  add('h_tune', notes=['none', '|', 'k', '|]'], expanded=None,
      xref_symbolic=True, **base)
  # accidentals end at every kind of bar line, repeat signs included
  for bar in ('::', ':|:', ':|'):
    add('h_tune', notes=['|:', 'none', bar, 'none'] + (
        [':|'] if bar != ':|' else []), key=['C', ''], letters=['F'],
        accs=[None, '^', '_'], octs=[''])
  # ---- audit round (2026-10-02): behaviours no quick job exercised ----------
  plain = dict(key=['C', ''], letters=['C'], accs=[None], octs=[''])
  # the MIDI pitch range at its edges: g'''' = 127, C,,,,, = 0, one semitone
  # beyond either is reported
  add('h_tune', notes=['none'], key=['C', ''], letters=['g', 'C'],
      accs=[None, '^', '_'], octs=["''''", ',,,,,'])
  # L:1 written without a slash, the smallest unit lengths, and the bare Q:
  # form that counts them
  add('h_tune', notes=['k', '/'], unit='plain', unit_ds=[1, 32, 64],
      tempo='deprecated', **plain)
  # tempo with several beats (their sum is the beat), with a tempo word before
  # or after it, and a tempo word alone (no tempo)
  add('h_tune', notes=['k', 'none'], tempo='1/4 3/8',
      tempo_label='"Allegro" ', **plain)
  add('h_tune', notes=['k', 'none'], tempo='3/8', tempo_suffix=' "Slowly"',
      unit='frac', **plain)
  add('h_tune', notes=['k', 'none'], tempo='string', **plain)
  # blanks after the field colon, '%' comments behind field and music lines,
  # notes written without blanks between them
  add('h_tune', notes=['none', 'k', 'a/b', '|', '/'], decor=True, sep='',
      meter='C|', unit='frac', unit_ds=[4, 16], tempo='1/2', key=['D', 'mix'],
      letters=['F'], accs=[None], octs=[''])
  # a tune body of several lines: a line break is not a bar line (accidentals
  # carry on), fields on their own lines between music lines act like the
  # inline ones, a T: line in the body leaves the titles alone
  add('h_tune', notes=['none', '\n', 'none', '|', '\n', 'none'], key=['C', ''],
      letters=['F'], accs=[None, '^', '_'], octs=[''])
  add('h_tune', notes=['k', ['L'], 'k', ['Q', None], 'none'], field_lines=True,
      tempo='1/4', **plain)
  add('h_tune', notes=['none', ['K', 'A', ''], 'none', ['T'], ['M'], 'none'],
      field_lines=True, decor=True, key=['F', ''], letters=['C', 'B'],
      accs=[None], octs=[''])
  # the bare inline [Q:r] counts the unit length in force where it stands
  add('h_tune', notes=['k', ['L'], ['Q', None], 'k'], unit='frac', **plain)
  # inline [K:] with a mode: key and mode of every key signature
  add('h_tune', notes=['none', ['K', 'F#', 'm'], 'none', '|', ' ',
                       ['K', 'Bb', 'lyd'], 'none'],
      key=['Eb', ''], letters=['C', 'G', 'A'], accs=[None], octs=[''])
  # the same tune without the blank between the bar line and the inline field,
  # the way ABC 2.1 itself writes it ("...|[M:9/8] A2G F2E D2|]") (F-C04-e,
  # fixed: the bar-line pattern [\[\]|]+ swallowed the '[' of the field, so
  # 'C |[K:G] F' gave InvalidCharacterError and 'C|[M:6/8]D' RepeatParseError)
  add('h_tune', notes=['none', '|', ['K', 'G', ''], 'none'], key=['C', ''],
      letters=['F'], accs=[None], octs=[''])
  add('h_tune', notes=['k', '||', ['M'], 'none'], key=['C', ''], letters=['C'],
      accs=[None], octs=[''], meter='C', unit='frac')
  add('h_tune', notes=['|:', 'k', ':|', ['L'], 'k'], key=['C', ''],
      letters=['C'], accs=[None], octs=[''], tempo='1/4',
      expanded=[0, 0, 1])
  # repeats: colon-only counted repeat, double bar inside an open repeat (on a
  # second line), two section symbols side by side, a tune without repeats
  # (expansion is a copy), tempo / unit changes inside a repeated section
  add('h_tune', notes=['|::', 'none', '::::', 'k', '::|'],
      expanded=[0, 0, 0, 1, 1, 1], **base)
  add('h_tune', notes=['|:', 'none', '\n', '||', 'k', ':|'],
      expanded=[0, 1, 0, 1], **base)
  add('h_tune', notes=['none', ':|', ' ', '|:', 'k', ':|'],
      expanded=[0, 0, 1, 1], **base)
  add('h_tune', notes=['none', '||', ' ', '|:', 'k', ':|', 'none'],
      expanded=[0, 1, 1, 2], **base)
  add('h_tune', notes=['none', 'k', '|', 'none'], expanded=[0, 1, 2], **base)
  add('h_tune', notes=['|:', 'k', ['Q', '1/4'], 'none', ':|', ' ', ['L'],
                       'none'],
      tempo='3/8', expanded=[0, 1, 0, 1, 2], **plain)
  # the remaining broken-rhythm marks
  for br in ('>>>', '<<'):
    add('h_tune', notes=['k', br, 'k'], key=['C', ''], letters=['C', 'G'],
        accs=[None], octs=[''], unit='frac', tempo='1/4', budget=900)
  # every key spelling (105) x every way of writing the mode, all 14 letters
  allk = _all_keys()
  for i in range(0, len(allk), 21):
    add('h_keys', keys=allk[i:i + 21])
  # tunebook shapes
  nb = len(_BAD_KINDS)
  add('h_book', layout='gbg', xrefs=[1, 2, 3], bad_kinds=list(range(nb)))
  add('h_book', layout='bgbg', xrefs=[4, 3, 2, 1], bad_kinds=[0, 1, 5])
  add('h_book', layout='bb', xrefs=[1, 2], bad_kinds=[2, 3, 4, 8])
  add('h_book', layout='ggg', xrefs=[7, 3, 5], sep=' \t ' + '\r\n\r\n',
      eol='\r\n', final_newline=False)
  add('h_book', layout='g', xrefs=[2], final_newline=False)
  add('h_book', layout='bgg', xrefs=[1, 2, 3], bad_kinds=[0, 6], hdr_unit=4,
      hdr_meter=[3, 4], sep='\n\n')
  add('h_book', layout='gg', xrefs=[1, 2], hdr_meter=[2, 4])
  add('h_book', layout='gbg', xrefs=[5, 6, 7], bad_kinds=[1, 7], via_file=True,
      hdr_unit=16)
  add('h_book', layout='gbg', xrefs=[2, 1, 2], bad_kinds=[0], dup=True)
  # NOT CLAIMED (outside the quantifier: headers outside the grammar): tunes whose header cannot be read
  # make parse_abc_tunebook RAISE instead of being listed, which aborts every
  # other tune of the book although the docstring documents only
  # DuplicateReferenceNumberError as raised and "exceptions: a list of
  # exceptions for tunes that could not be parsed":
  #   'X:1\nT:t\nK:G#\nC\n'       -> KeyError('g#')   (8 sharps: no such key)
  #   'X:abc\nT:t\nK:C\nC\n'      -> ValueError (int('abc'))
  #   'X:1\nT:t\nL:1/0\nK:C\nC\n' -> ZeroDivisionError (Fraction(1, 0))
  # tunebooks
  for bad, exc in ((['[CEG]2 C'], 'ChordError'), (['(3CDE F'], 'TupletError'),
                   (['V:1', 'CDE'], 'MultiVoiceError'),
                   (['P:A', 'CDE'], 'PartError'),
                   (['C D |1 E :|2 F |'], 'VariantEndingError')):
    add('h_tunebook', bad=bad, exc=exc)
  add('h_tunebook', bad=['[CEG]2 C'], order=[2, 1])
  add('h_tunebook', bad=['(3CDE F'], comment_first=True)
  add('h_tunebook', bad=['V:1', 'CDE'], header=['L:1/4', 'M:3/4'])
  # two tunes with explicit-accidental keys in one tunebook
  add('h_two_tunes',
      t1=dict(key=['D', ''], key_explicit={'exp': True, 'letters': ['B', 'F']},
              notes=['none', 'none'], letters=['B', 'F', 'E'], accs=[None],
              octs=['']),
      t2=dict(key=['C', ''], key_explicit={'exp': True, 'letters': ['C']},
              notes=['none', 'none'], letters=['B', 'F', 'c'], accs=[None],
              octs=['']))
  return J
